import ChiModel.Covariate
import Mathlib.Data.List.Sort
import Mathlib.Data.List.Perm.Basic
import Mathlib.Data.List.Nodup
import Mathlib.Data.List.Dedup

/-! helper lemmas for C07: the selection normaliser (de-duplication, lexicographic insertion sort) -/
set_option linter.unusedSectionVars false
set_option linter.unusedSimpArgs false
namespace ChiModel

/-- `(p, d) < (p', d')`: parameter index first, then dimension index -/
def LexLt (a b : Pair) : Prop := a.1 < b.1 ∨ (a.1 = b.1 ∧ a.2 < b.2)

theorem lexLt_iff (a b : Pair) : lexLt a b = true ↔ LexLt a b := by
  simp [lexLt, LexLt]

theorem LexLt.trans {a b c : Pair} (h1 : LexLt a b) (h2 : LexLt b c) : LexLt a c := by
  unfold LexLt at *; omega

theorem LexLt.irrefl (a : Pair) : ¬ LexLt a a := by
  unfold LexLt; omega

theorem LexLt.trichotomy (a b : Pair) : a = b ∨ LexLt a b ∨ LexLt b a := by
  unfold LexLt
  rcases a with ⟨a1, a2⟩; rcases b with ⟨b1, b2⟩
  simp only [Prod.mk.injEq]
  omega

instance : Std.Irrefl LexLt := ⟨LexLt.irrefl⟩
instance : Std.Antisymm LexLt := ⟨fun a _ h1 h2 => absurd (h1.trans h2) (LexLt.irrefl a)⟩
instance : IsTrans Pair LexLt := ⟨fun _ _ _ => LexLt.trans⟩

/-! ### de-duplication loop -/

theorem dedup_aux (l : List Pair) : ∀ acc : List Pair, acc.Nodup →
    (l.foldl dedupStep acc).Nodup ∧ ∀ x, x ∈ l.foldl dedupStep acc ↔ x ∈ acc ∨ x ∈ l := by
  induction l with
  | nil => intro acc h; simp [h]
  | cons y ys ih =>
    intro acc h
    have hstep : (dedupStep acc y).Nodup ∧ ∀ x, x ∈ dedupStep acc y ↔ x ∈ acc ∨ x = y := by
      unfold dedupStep
      by_cases hc : acc.contains y = true
      · simp only [hc, if_true]
        refine ⟨h, fun x => ⟨Or.inl, ?_⟩⟩
        rintro (hx | rfl)
        · exact hx
        · simpa using hc
      · simp only [hc, if_false]
        have hy : y ∉ acc := by simpa using hc
        refine ⟨?_, fun x => by simp⟩
        exact List.Nodup.append h (List.nodup_singleton y) (by
          intro a ha hb
          simp at hb
          subst hb
          exact hy ha)
    have := ih (dedupStep acc y) hstep.1
    refine ⟨this.1, fun x => ?_⟩
    rw [List.foldl_cons, this.2 x, hstep.2 x]
    simp only [List.mem_cons]
    tauto

theorem dedupFirst_nodup (l : List Pair) : (dedupFirst l).Nodup :=
  (dedup_aux l [] List.nodup_nil).1

theorem mem_dedupFirst (l : List Pair) (x : Pair) : x ∈ dedupFirst l ↔ x ∈ l := by
  unfold dedupFirst
  rw [(dedup_aux l [] List.nodup_nil).2 x]
  simp

/-! ### lexicographic insertion sort -/

theorem mem_insertLex (x t : Pair) (l : List Pair) : t ∈ insertLex x l ↔ t = x ∨ t ∈ l := by
  induction l with
  | nil => simp [insertLex]
  | cons y ys ih =>
    unfold insertLex
    split
    · simp
    · simp only [List.mem_cons, ih]; tauto

theorem insertLex_perm (x : Pair) (l : List Pair) : (insertLex x l).Perm (x :: l) := by
  induction l with
  | nil => simp [insertLex]
  | cons y ys ih =>
    unfold insertLex
    split
    · exact List.Perm.refl _
    · exact (List.Perm.cons y ih).trans (List.Perm.swap x y ys)

theorem sorted_insertLex (x : Pair) (l : List Pair) (h : l.Pairwise LexLt) (hx : x ∉ l) :
    (insertLex x l).Pairwise LexLt := by
  induction l with
  | nil => simp [insertLex]
  | cons y ys ih =>
    unfold insertLex
    rw [List.pairwise_cons] at h
    split
    · rename_i hlt
      have hlt' : LexLt x y := (lexLt_iff x y).mp hlt
      refine List.pairwise_cons.mpr ⟨?_, List.pairwise_cons.mpr h⟩
      intro a ha
      rcases List.mem_cons.mp ha with rfl | ha
      · exact hlt'
      · exact hlt'.trans (h.1 a ha)
    · rename_i hnlt
      have hne : x ≠ y := fun e => hx (e ▸ List.mem_cons_self)
      have hyx : LexLt y x := by
        rcases LexLt.trichotomy x y with e | hl | hl
        · exact absurd e hne
        · exact absurd ((lexLt_iff x y).mpr hl) hnlt
        · exact hl
      refine List.pairwise_cons.mpr ⟨?_, ih h.2 (fun hm => hx (List.mem_cons_of_mem _ hm))⟩
      intro a ha
      rcases (mem_insertLex x a ys).mp ha with rfl | ha
      · exact hyx
      · exact h.1 a ha

theorem sortLex_perm (l : List Pair) : (sortLex l).Perm l := by
  induction l with
  | nil => simp [sortLex]
  | cons y ys ih =>
    have : sortLex (y :: ys) = insertLex y (sortLex ys) := rfl
    rw [this]
    exact (insertLex_perm y _).trans (List.Perm.cons y ih)

theorem mem_sortLex (l : List Pair) (x : Pair) : x ∈ sortLex l ↔ x ∈ l :=
  (sortLex_perm l).mem_iff

theorem sorted_sortLex (l : List Pair) (h : l.Nodup) : (sortLex l).Pairwise LexLt := by
  induction l with
  | nil => simp [sortLex]
  | cons y ys ih =>
    have e : sortLex (y :: ys) = insertLex y (sortLex ys) := rfl
    rw [e]
    rw [List.nodup_cons] at h
    exact sorted_insertLex y _ (ih h.2) (fun hm => h.1 ((mem_sortLex ys y).mp hm))

theorem normSel_sorted (l : List Pair) : (normSel l).Pairwise LexLt :=
  sorted_sortLex _ (dedupFirst_nodup l)

theorem mem_normSel (l : List Pair) (x : Pair) : x ∈ normSel l ↔ x ∈ l := by
  unfold normSel
  rw [mem_sortLex, mem_dedupFirst]

theorem pairwise_lexLt_nodup {l : List Pair} (h : l.Pairwise LexLt) : l.Nodup :=
  h.imp (fun {a b} hab => by
    intro e
    subst e
    exact LexLt.irrefl a hab)

theorem normSel_nodup (l : List Pair) : (normSel l).Nodup := pairwise_lexLt_nodup (normSel_sorted l)

/-- any strictly `(p,d)`-sorted list with the same members is the stored selection -/
theorem normSel_unique (input l : List Pair) (hs : l.Pairwise LexLt) (hm : ∀ x, x ∈ l ↔ x ∈ input) :
    l = normSel input :=
  List.Pairwise.eq_of_mem_iff hs (normSel_sorted input) (fun a => by rw [hm a, mem_normSel])


/-! ### constructor selection -/


/-- nodup + membership gives the index -/
theorem idxOf?_getElem_of_nodup (l : List Pair) (h : l.Nodup) (s : Nat) (hs : s < l.length) :
    l.idxOf? l[s] = some s := by
  rw [List.idxOf?_eq_some_iff]
  refine ⟨hs, rfl, ?_⟩
  intro j hj e
  have := (List.Nodup.getElem_inj_iff h (hi := by omega) (hj := hs)).mp e
  omega

theorem mem_flatPairs (perDim nDim : Nat) (x : Pair) :
    x ∈ flatPairs perDim nDim ↔ x.1 < perDim ∧ x.2 < nDim := by
  rcases x with ⟨p, d⟩
  simp [flatPairs, List.mem_flatMap]

theorem mem_ctorIndices (perDim nDim : Nat) (x : Pair) :
    x ∈ ctorIndices perDim nDim ↔ x.1 < perDim ∧ x.2 < nDim := by
  rcases x with ⟨p, d⟩
  simp [ctorIndices, List.mem_flatMap]
  tauto

theorem flatPairs_sorted (perDim nDim : Nat) : (flatPairs perDim nDim).Pairwise LexLt := by
  unfold flatPairs
  rw [List.pairwise_flatMap]
  refine ⟨fun p _ => ?_, ?_⟩
  · rw [List.pairwise_map]
    exact (List.pairwise_lt_range).imp (fun {a b} h => Or.inr ⟨rfl, h⟩)
  · exact (List.pairwise_lt_range).imp (fun {a b} h x hx y hy => by
      simp only [List.mem_map, List.mem_range] at hx hy
      obtain ⟨_, _, rfl⟩ := hx
      obtain ⟨_, _, rfl⟩ := hy
      exact Or.inl h)

theorem normSel_ctor (perDim nDim : Nat) : normSel (ctorIndices perDim nDim) = flatPairs perDim nDim :=
  (normSel_unique _ _ (flatPairs_sorted perDim nDim)
    (fun x => by rw [mem_flatPairs, mem_ctorIndices])).symm


/-! ### names -/


/-- entry `s * n + c` of a list of blocks of `n` equal entries -/
theorem flatMap_replicate_getElem? {β γ : Type} (f : β → γ) (n : Nat) :
    ∀ (l : List β) (s c : Nat) (hs : s < l.length) (hc : c < n),
      (l.flatMap (fun a => List.replicate n (f a)))[s * n + c]? = some (f l[s]) := by
  intro l
  induction l with
  | nil => intro s c hs; simp at hs
  | cons a as ih =>
    intro s c hs hc
    rw [List.flatMap_cons]
    cases s with
    | zero =>
      simp only [Nat.zero_mul, Nat.zero_add, List.getElem_cons_zero]
      rw [List.getElem?_append_left (by simpa using hc)]
      simp [hc]
    | succ s =>
      have hs' : s < as.length := by simpa using hs
      have hge : n ≤ (s + 1) * n + c := by rw [Nat.succ_mul]; omega
      rw [List.getElem?_append_right (by simpa using hge)]
      simp only [List.length_replicate, List.getElem_cons_succ]
      have : (s + 1) * n + c - n = s * n + c := by
        rw [Nat.succ_mul]; omega
      rw [this]
      exact ih s c hs' hc

theorem flatMap_replicate_length {β γ : Type} (f : β → γ) (n : Nat) (l : List β) :
    (l.flatMap (fun a => List.replicate n (f a))).length = l.length * n := by
  induction l with
  | nil => simp
  | cons a as ih => simp [List.flatMap_cons, ih, Nat.succ_mul, Nat.add_comm]

theorem selNames_length (nDim nCov : Nat) (sel : List Pair) (full : List String) :
    (selNames nDim nCov sel full).length = sel.length * nCov :=
  flatMap_replicate_length _ nCov sel

theorem selNames_getElem? (nDim nCov : Nat) (sel : List Pair) (full : List String) (s c : Nat)
    (hs : s < sel.length) (hc : c < nCov) :
    (selNames nDim nCov sel full)[s * nCov + c]? = some (full.getD (sel[s].1 * nDim + sel[s].2) "") :=
  flatMap_replicate_getElem? (fun pd : Pair => full.getD (pd.1 * nDim + pd.2) "") nCov sel s c hs hc

theorem withCovNames_getElem? (nCov : Nat) (stored covNames : List String) (k : Nat) (hk : k < stored.length) :
    (withCovNames nCov stored covNames)[k]? = some (stored.getD k "" ++ " " ++ covNames.getD (k % nCov) "") := by
  simp [withCovNames, hk]

theorem beta_index (nCov s c : Nat) (hc : c < nCov) :
    (s * nCov + c) / nCov = s ∧ (s * nCov + c) % nCov = c := by
  have hpos : 0 < nCov := by omega
  constructor
  · rw [Nat.add_comm, Nat.add_mul_div_right _ _ hpos, Nat.div_eq_of_lt hc, Nat.zero_add]
  · rw [Nat.add_comm, Nat.add_mul_mod_self_right, Nat.mod_eq_of_lt hc]


/-! ### blocks of equal length -/


/-- entry `s * n + c` of a concatenation of blocks of equal length `n` -/
theorem flatMap_block_getElem? {β γ : Type} (g : β → List γ) (n : Nat) :
    ∀ (l : List β) (_ : ∀ a ∈ l, (g a).length = n) (s c : Nat) (hs : s < l.length) (_ : c < n),
      (l.flatMap g)[s * n + c]? = (g l[s])[c]? := by
  intro l
  induction l with
  | nil => intro _ s c hs; simp at hs
  | cons a as ih =>
    intro hl s c hs hc
    rw [List.flatMap_cons]
    have hla : (g a).length = n := hl a List.mem_cons_self
    cases s with
    | zero =>
      simp only [Nat.zero_mul, Nat.zero_add, List.getElem_cons_zero]
      rw [List.getElem?_append_left (by omega)]
    | succ s =>
      have hs' : s < as.length := by simpa using hs
      have hge : n ≤ (s + 1) * n + c := by rw [Nat.succ_mul]; omega
      rw [List.getElem?_append_right (by omega)]
      simp only [hla, List.getElem_cons_succ]
      have : (s + 1) * n + c - n = s * n + c := by
        rw [Nat.succ_mul]; omega
      rw [this]
      exact ih (fun b hb => hl b (List.mem_cons_of_mem _ hb)) s c hs' hc

theorem flatMap_block_length {β γ : Type} (g : β → List γ) (n : Nat) (l : List β)
    (hl : ∀ a ∈ l, (g a).length = n) : (l.flatMap g).length = l.length * n := by
  induction l with
  | nil => simp
  | cons a as ih =>
    rw [List.flatMap_cons, List.length_append, hl a List.mem_cons_self,
      ih (fun b hb => hl b (List.mem_cons_of_mem _ hb)), List.length_cons, Nat.succ_mul, Nat.add_comm]

theorem flatPairs_length (perDim nDim : Nat) : (flatPairs perDim nDim).length = perDim * nDim := by
  unfold flatPairs
  rw [flatMap_block_length _ nDim _ (by intro a _; simp), List.length_range]

theorem flatPairs_getElem? (perDim nDim p d : Nat) (hp : p < perDim) (hd : d < nDim) :
    (flatPairs perDim nDim)[p * nDim + d]? = some (p, d) := by
  unfold flatPairs
  rw [flatMap_block_getElem? _ nDim _ (by intro a _; simp) p d (by simpa using hp) hd]
  simp [hd]

theorem div_mod_index (n s : Nat) (hn : 0 < n) : (s / n) * n + s % n = s := by
  rw [Nat.mul_comm]; exact Nat.div_add_mod s n

theorem flatPairs_getElem (perDim nDim s : Nat) (hs : s < (flatPairs perDim nDim).length) :
    (flatPairs perDim nDim)[s] = (s / nDim, s % nDim) := by
  rw [flatPairs_length] at hs
  have hn : 0 < nDim := by
    rcases Nat.eq_zero_or_pos nDim with h | h
    · subst h; simp at hs
    · exact h
  have hp : s / nDim < perDim := by
    rw [Nat.div_lt_iff_lt_mul hn]; exact hs
  have := flatPairs_getElem? perDim nDim (s / nDim) (s % nDim) hp (Nat.mod_lt _ hn)
  rw [div_mod_index nDim s hn] at this
  rw [List.getElem?_eq_getElem (by rw [flatPairs_length]; exact hs)] at this
  exact Option.some.inj this

/-- the constructor's names (one block per population name, flat order) are the stored-order
    names of the full selection -/
theorem ctor_names_eq (perDim nDim nCov : Nat) (full : List String) (hf : full.length = perDim * nDim) :
    full.flatMap (fun n => List.replicate nCov n) = selNames nDim nCov (flatPairs perDim nDim) full := by
  apply List.ext_getElem?
  intro j
  unfold selNames
  by_cases hj : j < perDim * nDim * nCov
  · have hc : 0 < nCov := by
      rcases Nat.eq_zero_or_pos nCov with h | h
      · subst h; simp at hj
      · exact h
    have hs : j / nCov < perDim * nDim := by rw [Nat.div_lt_iff_lt_mul hc]; exact hj
    have e := div_mod_index nCov j hc
    rw [← e]
    rw [flatMap_block_getElem? _ nCov full (by intro a _; simp) _ _ (by rw [hf]; exact hs) (Nat.mod_lt _ hc)]
    rw [flatMap_block_getElem? _ nCov _ (by intro a _; simp) _ _ (by rw [flatPairs_length]; exact hs)
      (Nat.mod_lt _ hc)]
    rw [flatPairs_getElem _ _ _ (by rw [flatPairs_length]; exact hs)]
    have hn : 0 < nDim := by
      rcases Nat.eq_zero_or_pos nDim with h | h
      · subst h; simp at hs
      · exact h
    have hlt : j / nCov < full.length := by rw [hf]; exact hs
    have hfull : full.getD (j / nCov) "" = full[j / nCov] := by
      simp [List.getD_eq_getElem?_getD, hlt]
    simp only [div_mod_index nDim _ hn, hfull]
  · have h1 : (full.flatMap (fun n => List.replicate nCov n)).length = perDim * nDim * nCov := by
      rw [flatMap_block_length _ nCov full (by intro a _; simp), hf]
    have h2 : ((flatPairs perDim nDim).flatMap
        (fun pd => List.replicate nCov (full.getD (pd.1 * nDim + pd.2) ""))).length = perDim * nDim * nCov := by
      rw [flatMap_block_length _ nCov _ (by intro a _; simp), flatPairs_length]
    rw [List.getElem?_eq_none (by omega), List.getElem?_eq_none (by omega)]



/-! ### the pre-fix double sort with a stable second sort -/


/-- sorted by `p`, ties in non-decreasing `d` -/
def LexLe (a b : Pair) : Prop := a.1 < b.1 ∨ (a.1 = b.1 ∧ a.2 ≤ b.2)

theorem mem_insertByP (x t : Pair) (l : List Pair) : t ∈ insertByP x l ↔ t = x ∨ t ∈ l := by
  induction l with
  | nil => simp [insertByP]
  | cons y ys ih =>
    unfold insertByP
    split
    · simp
    · simp only [List.mem_cons, ih]; tauto

theorem insertByP_perm (x : Pair) (l : List Pair) : (insertByP x l).Perm (x :: l) := by
  induction l with
  | nil => simp [insertByP]
  | cons y ys ih =>
    unfold insertByP
    split
    · exact List.Perm.refl _
    · exact (List.Perm.cons y ih).trans (List.Perm.swap x y ys)

theorem stableSortByP_perm (l : List Pair) : (stableSortByP l).Perm l := by
  induction l with
  | nil => simp [stableSortByP]
  | cons y ys ih =>
    have : stableSortByP (y :: ys) = insertByP y (stableSortByP ys) := rfl
    rw [this]
    exact (insertByP_perm y _).trans (List.Perm.cons y ih)

theorem sorted_insertByP (x : Pair) (l : List Pair) (h : l.Pairwise LexLe)
    (hx : ∀ y ∈ l, x.2 ≤ y.2) : (insertByP x l).Pairwise LexLe := by
  induction l with
  | nil => simp [insertByP]
  | cons y ys ih =>
    unfold insertByP
    rw [List.pairwise_cons] at h
    split
    · rename_i hle
      have hle' : x.1 ≤ y.1 := by simpa using hle
      refine List.pairwise_cons.mpr ⟨?_, List.pairwise_cons.mpr h⟩
      intro a ha
      have hxa : x.2 ≤ a.2 := hx a ha
      rcases List.mem_cons.mp ha with rfl | ha'
      · unfold LexLe; omega
      · have := h.1 a ha'
        unfold LexLe at this ⊢; omega
    · rename_i hnle
      have hlt : y.1 < x.1 := by simpa using hnle
      refine List.pairwise_cons.mpr ⟨?_, ih h.2 (fun z hz => hx z (List.mem_cons_of_mem _ hz))⟩
      intro a ha
      rcases (mem_insertByP x a ys).mp ha with rfl | ha'
      · exact Or.inl hlt
      · exact h.1 a ha'

theorem sorted_stableSortByP (l : List Pair) (hd : l.Pairwise (fun a b => a.2 ≤ b.2)) :
    (stableSortByP l).Pairwise LexLe := by
  induction l with
  | nil => simp [stableSortByP]
  | cons y ys ih =>
    have e : stableSortByP (y :: ys) = insertByP y (stableSortByP ys) := rfl
    rw [e]
    rw [List.pairwise_cons] at hd
    exact sorted_insertByP y _ (ih hd.2)
      (fun z hz => hd.1 z ((stableSortByP_perm ys).mem_iff.mp hz))

/-- the pre-fix double sort is correct when the SECOND sort is stable: whatever permutation the
    first (`d`) sort produced, a stable sort by `p` of it is the stored selection -/
theorem legacy_stable (input mid : List Pair) (hperm : mid.Perm (dedupFirst input))
    (hd : mid.Pairwise (fun a b => a.2 ≤ b.2)) : stableSortByP mid = normSel input := by
  apply normSel_unique
  · have hs := sorted_stableSortByP mid hd
    have hnd : (stableSortByP mid).Nodup :=
      ((stableSortByP_perm mid).trans hperm).nodup_iff.mpr (dedupFirst_nodup input)
    have := List.Pairwise.and hs hnd
    refine this.imp ?_
    intro a b hab
    obtain ⟨h1, h2⟩ := hab
    unfold LexLe at h1
    unfold LexLt
    rcases h1 with h1 | ⟨h1, h3⟩
    · exact Or.inl h1
    · refine Or.inr ⟨h1, lt_of_le_of_ne h3 ?_⟩
      intro e
      exact h2 (Prod.ext h1 e)
  · intro x
    rw [((stableSortByP_perm mid).trans hperm).mem_iff, mem_dedupFirst]


end ChiModel
