import ChiProofs.Lemmas.FilterCalc
import Mathlib.Data.List.Sort
import Mathlib.Algebra.BigOperators.Group.List.Basic
import Mathlib.Algebra.BigOperators.Intervals
/-! # Permutation, padding, time-order and composition lemmas for the population filters (C12) -/
set_option linter.unusedSectionVars false
set_option linter.unusedSimpArgs false
set_option linter.unusedVariables false
namespace ChiModel
namespace PF
open ScalarFns Finset

/-! ## permutations of an index range -/

theorem map_getD_range (ord : List Nat) :
    (List.range ord.length).map (fun j => ord.getD j 0) = ord := by
  apply List.ext_getElem
  · simp
  · intro i h1 h2
    simp at h1
    simp [List.getD_eq_getElem?_getD, h1]

/-- summing over a permuted index range -/
theorem isum_perm (n : Nat) (ord : List Nat) (h : ord.Perm (List.range n)) (g : Nat → ℝ) :
    isum n (fun j => g (ord.getD j 0)) = isum n g := by
  have hlen : ord.length = n := by simpa using h.length_eq
  unfold isum
  rw [lsum_real, lsum_real]
  have : (List.range n).map (fun j => g (ord.getD j 0)) = ord.map g := by
    conv_rhs => rw [← map_getD_range ord]
    rw [List.map_map, hlen]
    rfl
  rw [this]
  exact (h.map g).sum_eq

theorem getD_lt_of_perm (n : Nat) (ord : List Nat) (h : ord.Perm (List.range n)) (j : Nat)
    (hj : j < n) : ord.getD j 0 < n := by
  have hlen : ord.length = n := by simpa using h.length_eq
  have hm : ord.getD j 0 ∈ ord := by
    rw [List.getD_eq_getElem?_getD, List.getElem?_eq_getElem (by omega)]
    simp
  simpa using (h.mem_iff).1 hm

/-! ## the value of a cell depends on the multiset of its non-missing measurements only -/

theorem msum_perm (m m' : Nat) (o o' : Nat → Option ℝ) (f : ℝ → ℝ)
    (h : ((List.range m).filterMap o).Perm ((List.range m').filterMap o')) :
    msum m o f = msum m' o' f := by
  rw [msum_eq_filterMap, msum_eq_filterMap]
  exact (h.map f).sum_eq

theorem filterMap_logo (o : Nat → Option ℝ) (l : List Nat) :
    l.filterMap (logo o) = (l.filterMap o).map Real.log := by
  induction l with
  | nil => simp
  | cons i is ih =>
    cases h : o i <;> simp [List.filterMap_cons, logo, h, ih]

theorem logo_perm (m m' : Nat) (o o' : Nat → Option ℝ)
    (h : ((List.range m).filterMap o).Perm ((List.range m').filterMap o')) :
    ((List.range m).filterMap (logo o)).Perm ((List.range m').filterMap (logo o')) := by
  rw [filterMap_logo, filterMap_logo]
  exact h.map _

theorem cellVal_perm (k : FKind) (m m' n : Nat) (o o' : Nat → Option ℝ) (y : Nat → ℝ)
    (h : ((List.range m).filterMap o).Perm ((List.range m').filterMap o')) :
    cellVal k m n o y = cellVal k m' n o' y := by
  cases k with
  | gauss => simp only [cellVal, gfCell, msum_perm m m' o o' _ h]
  | gkde => simp only [cellVal, kdeCell, msum_perm m m' o o' _ h]
  | mix K => simp only [cellVal, mixCell, msum_perm m m' o o' _ h]
  | lognorm => simp only [cellVal, lnfCell, msum_perm m m' _ _ _ (logo_perm m m' o o' h)]
  | lnkde => simp only [cellVal, lnkdeCell, msum_perm m m' _ _ _ (logo_perm m m' o o' h)]

theorem cellGrad_perm (k : FKind) (m m' n : Nat) (o o' : Nat → Option ℝ) (y : Nat → ℝ) (s : Nat)
    (h : ((List.range m).filterMap o).Perm ((List.range m').filterMap o')) :
    cellGrad k m n o y s = cellGrad k m' n o' y s := by
  cases k with
  | gauss => simp only [cellGrad, gfGradCell, msum_perm m m' o o' _ h]
  | gkde => simp only [cellGrad, kdeGradCell, msum_perm m m' o o' _ h]
  | mix K => simp only [cellGrad, mixGradCell, msum_perm m m' o o' _ h]
  | lognorm => simp only [cellGrad, lnfGradCell, msum_perm m m' _ _ _ (logo_perm m m' o o' h)]
  | lnkde => simp only [cellGrad, lnkdeGradCell, msum_perm m m' _ _ _ (logo_perm m m' o o' h)]

/-- padding with masked individuals does not change the list of non-missing measurements -/
theorem filterMap_pad (m e : Nat) (o o' : Nat → Option ℝ) (h1 : ∀ i, i < m → o' i = o i)
    (h2 : ∀ i, m ≤ i → i < m + e → o' i = none) :
    (List.range (m + e)).filterMap o' = (List.range m).filterMap o := by
  rw [List.range_add, List.filterMap_append]
  have ha : (List.range m).filterMap o' = (List.range m).filterMap o := by
    apply List.filterMap_congr
    intro i hi
    exact h1 i (List.mem_range.mp hi)
  have hb : (List.map (fun x => m + x) (List.range e)).filterMap o' = [] := by
    rw [List.filterMap_eq_nil_iff]
    intro i hi
    obtain ⟨x, hx, rfl⟩ := List.mem_map.mp hi
    exact h2 _ (by omega) (by have := List.mem_range.mp hx; omega)
  rw [ha, hb, List.append_nil]

/-- permuting the measured individuals permutes the list of non-missing measurements -/
theorem filterMap_perm_ids (m : Nat) (ord : List Nat) (h : ord.Perm (List.range m))
    (o : Nat → Option ℝ) :
    ((List.range m).filterMap (fun i => o (ord.getD i 0))).Perm ((List.range m).filterMap o) := by
  have hlen : ord.length = m := by simpa using h.length_eq
  have : (List.range m).filterMap (fun i => o (ord.getD i 0)) = ord.filterMap o := by
    conv_rhs => rw [← map_getD_range ord]
    rw [List.filterMap_map, hlen]
    rfl
  rw [this]
  exact h.filterMap o

/-! ## congruence in the simulated values, splitting of the time axis -/

theorem filterVal_congr (k : FKind) (m n R T : Nat) (obs : Nat → Nat → Nat → Option ℝ)
    (y y' : Nat → Nat → Nat → ℝ) (h : ∀ s r j, j < T → y s r j = y' s r j) :
    filterVal k m n R T obs y = filterVal k m n R T obs y' := by
  unfold filterVal
  simp only [isum_eq]
  refine Finset.sum_congr rfl fun r _ => Finset.sum_congr rfl fun j hj => ?_
  have : (fun s => y s r j) = fun s => y' s r j := by
    funext s; exact h s r j (mem_range.mp hj)
  rw [this]

theorem filterVal_split (k : FKind) (m n R T1 T2 : Nat) (obs : Nat → Nat → Nat → Option ℝ)
    (y : Nat → Nat → Nat → ℝ) :
    filterVal k m n R (T1 + T2) obs y
      = filterVal k m n R T1 obs y
        + filterVal k m n R T2 (fun i r j => obs i r (T1 + j)) (shiftT y T1) := by
  unfold filterVal shiftT
  simp only [isum_eq, Finset.sum_range_add, Finset.sum_add_distrib]

/-! ## `sort_times` accepts exactly what it should -/

theorem hasDup_false_of_nodup : ∀ (l : List Nat), l.Nodup → hasDup l = false
  | [], _ => rfl
  | x :: xs, h => by
    rw [List.nodup_cons] at h
    simp only [hasDup, Bool.or_eq_false_iff]
    exact ⟨by simpa using h.1, hasDup_false_of_nodup xs h.2⟩

theorem perm_nodup (n : Nat) (ord : List Nat) (h : ord.Perm (List.range n)) : ord.Nodup :=
  (h.nodup_iff).2 List.nodup_range

theorem sortTimes_ok (F : Filt ℝ) (ord : List Nat) (h : ord.Perm (List.range F.T)) :
    F.sortTimes ord = .ok { F with obs := fun i r j => F.obs i r (ord.getD j 0) } := by
  have hlen : ord.length = F.T := by simpa using h.length_eq
  unfold Filt.sortTimes
  rw [if_neg (by simpa using hlen), hasDup_false_of_nodup ord (perm_nodup _ ord h)]
  have : ord.any (fun k => decide (F.T ≤ k)) = false := by
    rw [List.any_eq_false]
    intro k hk
    have := (h.mem_iff).1 hk
    simp at this
    simp; omega
  simp [this]

/-! ## argsort of a permutation is its inverse -/

theorem argsortNat_perm (l : List Nat) : (argsortNat l).Perm (List.range l.length) :=
  List.mergeSort_perm _ _

theorem argsortNat_sorted (l : List Nat) :
    ((argsortNat l).map (fun a => l.getD a 0)).Pairwise (· ≤ ·) := by
  unfold argsortNat
  rw [List.pairwise_map]
  have := List.pairwise_mergeSort (le := fun a b => decide (l.getD a 0 ≤ l.getD b 0))
    (fun a b c hab hbc => by simp at *; omega) (fun a b => by simp; omega) (List.range l.length)
  simpa using this

/-- `order[argsort(order)[k]] = k` for every permutation `order` of `0 … T-1` -/
theorem argsort_inverse (T : Nat) (ord : List Nat) (h : ord.Perm (List.range T)) (k : Nat)
    (hk : k < T) : ord.getD ((argsortNat ord).getD k 0) 0 = k := by
  have hlen : ord.length = T := by simpa using h.length_eq
  have hp := argsortNat_perm ord
  rw [hlen] at hp
  have himg : ((argsortNat ord).map (fun a => ord.getD a 0)).Perm (List.range T) := by
    have h1 := hp.map (fun a => ord.getD a 0)
    have h2 : (List.range T).map (fun a => ord.getD a 0) = ord := by
      rw [← hlen]; exact map_getD_range ord
    rw [h2] at h1
    exact h1.trans h
  have heq : (argsortNat ord).map (fun a => ord.getD a 0) = List.range T :=
    himg.eq_of_pairwise' (argsortNat_sorted ord) List.pairwise_le_range
  have hl : (argsortNat ord).length = T := by simpa using hp.length_eq
  have hk' : k < (argsortNat ord).length := by omega
  have hk'' : k < ((argsortNat ord).map (fun a => ord.getD a 0)).length := by simpa using hk'
  have h1 : ((argsortNat ord).map (fun a => ord.getD a 0))[k] = ord.getD ((argsortNat ord)[k]) 0 :=
    List.getElem_map _
  have h2 : ((argsortNat ord).map (fun a => ord.getD a 0))[k] = (List.range T)[k]'(by simpa using hk) :=
    List.getElem_of_eq heq hk''
  have h3 : (argsortNat ord).getD k 0 = (argsortNat ord)[k] := by
    rw [List.getD_eq_getElem?_getD, List.getElem?_eq_getElem hk', Option.getD_some]
  rw [h3, ← h1, h2, List.getElem_range]

/-! ## composed filters -/

theorem compValFrom_congr (n : Nat) : ∀ (Fs : List (Filt ℝ)) (off : Nat) (y y' : Nat → Nat → Nat → ℝ),
    (∀ s r j, j < off + (Fs.map (·.T)).sum → y s r j = y' s r j) →
    compValFrom n Fs off y = compValFrom n Fs off y'
  | [], _, _, _, _ => rfl
  | F :: Fs, off, y, y', h => by
    simp only [compValFrom, Filt.val]
    rw [compValFrom_congr n Fs (off + F.T) y y' (fun s r j hj => h s r j (by
        simp only [List.map_cons, List.sum_cons]; omega)),
      filterVal_congr F.kind F.m n F.R F.T F.obs (shiftT y off) (shiftT y' off) (fun s r j hj => by
        simp only [shiftT]; exact h s r (off + j) (by simp only [List.map_cons, List.sum_cons]; omega))]

theorem compGradFrom_congr (n : Nat) : ∀ (Fs : List (Filt ℝ)) (off : Nat)
    (y y' : Nat → Nat → Nat → ℝ) (s r k : Nat), off ≤ k →
    (∀ s r, y s r k = y' s r k) →
    compGradFrom n Fs off y s r k = compGradFrom n Fs off y' s r k
  | [], _, _, _, _, _, _, _, _ => rfl
  | F :: Fs, off, y, y', s, r, k, hk, h => by
    simp only [compGradFrom]
    split
    · simp only [Filt.grad, filterGrad, shiftT]
      have : off + (k - off) = k := by omega
      simp only [this, h]
    · exact compGradFrom_congr n Fs (off + F.T) y y' s r k (by omega) h

/-- consecutive time blocks of one filter -/
def Filt.block (F : Filt ℝ) (off len : Nat) : Filt ℝ :=
  { F with T := len, obs := fun i r j => F.obs i r (off + j) }

def blocks (F : Filt ℝ) : Nat → List Nat → List (Filt ℝ)
  | _, [] => []
  | off, l :: ls => F.block off l :: blocks F (off + l) ls

theorem compValFrom_blocks (n : Nat) (F : Filt ℝ) : ∀ (lens : List Nat) (off : Nat)
    (y : Nat → Nat → Nat → ℝ),
    compValFrom n (blocks F off lens) off y
      = filterVal F.kind F.m n F.R lens.sum (fun i r j => F.obs i r (off + j)) (shiftT y off)
  | [], off, y => by
    simp [compValFrom, blocks, filterVal, isum_eq]
  | l :: ls, off, y => by
    simp only [blocks, compValFrom, List.sum_cons]
    have hT : (F.block off l).T = l := rfl
    rw [hT, compValFrom_blocks n F ls (off + l) y, filterVal_split]
    have hs : shiftT (shiftT y off) l = shiftT y (off + l) := by
      funext s r j; simp only [shiftT, Nat.add_assoc]
    simp only [Filt.val, Filt.block, Nat.add_assoc, hs]

end PF
end ChiModel
