import ChiProofs.Lemmas.PopLists

/-! layout branches (C05): every accepted layout of the same parameter values hands the kernels the
same numbers; the kernels only read the index range. All lemmas hold for any scalar type. -/
set_option linter.unusedSectionVars false
namespace ChiModel
open ScalarFns
variable {α : Type} [Add α] [Sub α] [Mul α] [Div α] [Neg α] [ScalarFns α]

/-! ### congruence of the index sums / quantifiers (any scalar type) -/

theorem isum_congr_gen (n : Nat) (f g : Nat → α) (h : ∀ i, i < n → f i = g i) :
    isum n f = isum n g := by
  unfold isum
  congr 1
  exact List.map_congr_left (fun i hi => h i (List.mem_range.mp hi))

theorem isum2_congr_gen (n m : Nat) (f g : Nat → Nat → α)
    (h : ∀ i d, i < n → d < m → f i d = g i d) : isum2 n m f = isum2 n m g := by
  unfold isum2
  exact isum_congr_gen n _ _ (fun i hi => isum_congr_gen m _ _ (fun d hd => h i d hi hd))

theorem iany_congr_gen (n : Nat) (p q : Nat → Bool) (h : ∀ i, i < n → p i = q i) :
    iany n p = iany n q := by
  unfold iany
  induction n with
  | zero => simp
  | succ k ih =>
    rw [List.range_succ, List.any_append, List.any_append, ih (fun i hi => h i (Nat.lt_succ_of_lt hi))]
    simp [h k (Nat.lt_succ_self k)]

theorem iany2_congr_gen (n m : Nat) (p q : Nat → Nat → Bool)
    (h : ∀ i d, i < n → d < m → p i d = q i d) : iany2 n m p = iany2 n m q := by
  unfold iany2
  exact iany_congr_gen n _ _ (fun i hi => iany_congr_gen m _ _ (fun d hd => h i d hi hd))

theorem iany_const (n : Nat) (hn : 0 < n) (b : Bool) : iany n (fun _ => b) = b := by
  unfold iany
  cases b
  · simp
  · simp only [List.any_eq_true, List.mem_range]
    exact ⟨0, hn, trivial⟩

theorem iany2_rows_const (n m : Nat) (hn : 0 < n) (q : Nat → Bool) :
    iany2 n m (fun _ d => q d) = iany m q := by
  unfold iany2
  exact iany_const n hn _

/-! ### the parameter values `m p d` in the three layouts -/

def flatOf (nPer nDim : Nat) (m : Nat → Nat → α) : List α :=
  (List.range nPer).flatMap (fun p => (List.range nDim).map (m p))
def matOf (nPer nDim : Nat) (m : Nat → Nat → α) : List (List α) :=
  (List.range nPer).map (fun p => (List.range nDim).map (m p))
def tensOf (nIds nPer nDim : Nat) (m : Nat → Nat → α) : List (List (List α)) :=
  List.replicate nIds (matOf nPer nDim m)

/-- `lay` is one of the three accepted layouts of the values `m` -/
inductive IsLayoutOf (nIds nPer nDim : Nat) (m : Nat → Nat → α) : Layout α → Prop
  | flat : IsLayoutOf nIds nPer nDim m (.flat (flatOf nPer nDim m))
  | matrix : IsLayoutOf nIds nPer nDim m (.matrix (matOf nPer nDim m))
  | tensor : IsLayoutOf nIds nPer nDim m (.tensor (tensOf nIds nPer nDim m))

/-- an array that broadcasts to "row `row` for every individual" -/
structure WF (a : Arr2 α) (row : Nat → α) (nIds nDim : Nat) : Prop where
  rows : a.rows = 1 ∨ a.rows = nIds
  cols : a.cols = nDim
  get : ∀ r d, r < a.rows → d < nDim → a.get r d = row d

theorem WF.bc {a : Arr2 α} {row : Nat → α} {nIds nDim : Nat} (h : WF a row nIds nDim)
    (_hI : 0 < nIds) :
    ∃ f, a.bc nIds nDim = .ok f ∧ ∀ i d, i < nIds → d < nDim → f i d = row d := by
  refine ⟨_, by unfold Arr2.bc; rw [if_pos ⟨h.rows, Or.inr h.cols⟩], ?_⟩
  intro i d hi hd
  have hr : (if a.rows = 1 then 0 else i) < a.rows := by
    rcases h.rows with h1 | h1
    · simp [h1]
    · by_cases h2 : a.rows = 1
      · simp [h2]
      · rw [if_neg h2, h1]; exact hi
  by_cases hc : a.cols = 1
  · have hd0 : d = 0 := by have := h.cols; omega
    subst hd0
    simp only [hc, if_true]
    exact h.get _ 0 hr hd
  · simp only [hc, if_false]
    exact h.get _ d hr hd

theorem WF.any {a : Arr2 α} {row : Nat → α} {nIds nDim : Nat} (h : WF a row nIds nDim)
    (hI : 0 < nIds) (p : α → Bool) : a.any p = iany nDim (fun d => p (row d)) := by
  unfold Arr2.any
  have hpos : 0 < a.rows := by rcases h.rows with h1 | h1 <;> omega
  rw [h.cols, iany2_congr_gen a.rows nDim _ (fun _ d => p (row d))
    (fun r d hr hd => by rw [h.get r d hr hd])]
  exact iany2_rows_const a.rows nDim hpos _



theorem matOf_length (nPer nDim : Nat) (m : Nat → Nat → α) : (matOf nPer nDim m).length = nPer := by
  simp [matOf]

theorem matOf_getD (nPer nDim : Nat) (m : Nat → Nat → α) (p : Nat) (hp : p < nPer) :
    (matOf nPer nDim m).getD p [] = (List.range nDim).map (m p) := by
  unfold matOf
  exact getD_map_range nPer _ p hp []

theorem matOf_headD (nPer nDim : Nat) (m : Nat → Nat → α) (hp : 0 < nPer) :
    (matOf nPer nDim m).headD [] = (List.range nDim).map (m 0) := by
  rw [← matOf_getD nPer nDim m 0 hp]
  cases h : matOf nPer nDim m <;> simp [List.getD]

theorem flatOf_length (nPer nDim : Nat) (m : Nat → Nat → α) :
    (flatOf nPer nDim m).length = nPer * nDim := length_flatMap_range nPer nDim m

theorem chunk_flatOf (nPer nDim : Nat) (m : Nat → Nat → α) (hD : 0 < nDim) :
    chunk nDim (flatOf nPer nDim m) = matOf nPer nDim m := by
  unfold chunk matOf
  rw [flatOf_length, Nat.mul_div_cancel _ hD]
  refine List.map_congr_left fun r hr => List.map_congr_left fun d hd => ?_
  exact getD_flatMap_range nPer nDim m r d (List.mem_range.mp hr) (List.mem_range.mp hd) zero

theorem reshape2_flatOf (nPer nDim : Nat) (m : Nat → Nat → α) (hD : 0 < nDim) :
    reshape2 nDim (flatOf nPer nDim m) = .ok (matOf nPer nDim m) := by
  unfold reshape2
  rw [flatOf_length, if_neg (by
    rintro (h | h)
    · omega
    · exact h (Nat.mul_mod_left nPer nDim)), chunk_flatOf nPer nDim m hD]

/-- `parameters[:, j]` of a rank-3 array whose every block is the matrix of `m` -/
theorem col_a3_WF (nIds nPer nDim : Nat) (m : Nat → Nat → α) (t : List (List (List α)))
    (ht : ∀ r, r < t.length → t.getD r [] = matOf nPer nDim m)
    (hlen : t.length = 1 ∨ t.length = nIds) (hI : 0 < nIds) (j : Nat) (hj : j < nPer) :
    ∃ a, (NArr.a3 t).col j = .ok a ∧ WF a (m j) nIds nDim := by
  have hpos : 0 < t.length := by rcases hlen with h | h <;> omega
  have hhead : t.headD [] = matOf nPer nDim m := by
    rw [← ht 0 hpos]
    cases t <;> simp [List.getD]
  have hP : 0 < nPer := by omega
  refine ⟨⟨t.length, ((t.headD []).headD []).length,
      fun i d => ((t.getD i []).getD j []).getD d zero⟩,
    by simp only [NArr.col, hhead, matOf_length, if_pos hj], hlen, ?_, ?_⟩
  · show ((t.headD []).headD []).length = nDim
    rw [hhead, matOf_headD nPer nDim m hP]
    simp
  · intro r d hr hd
    show ((t.getD r []).getD j []).getD d zero = m j d
    rw [ht r hr, matOf_getD nPer nDim m j hj, getD_map_range nDim _ d hd]

theorem tensOf_getD (nIds nPer nDim : Nat) (m : Nat → Nat → α) (r : Nat)
    (hr : r < (tensOf nIds nPer nDim m).length) :
    (tensOf nIds nPer nDim m).getD r [] = matOf nPer nDim m := by
  unfold tensOf at hr ⊢
  rw [List.length_replicate] at hr
  simp [List.getD_eq_getElem?_getD, hr]

/-- the three layouts (matrix only through a correct `ndim == 2` branch) normalise to arrays that
    broadcast to the rows of `m` -/
theorem normalise_isLayout (typo : Bool) (nIds nDim : Nat) (m : Nat → Nat → α) (lay : Layout α)
    (hlay : IsLayoutOf nIds 2 nDim m lay) (_hI : 0 < nIds) (hD : 0 < nDim)
    (hty : typo = true → lay ≠ .matrix (matOf 2 nDim m)) :
    ∃ t, normalise typo nDim lay = .ok (.a3 t) ∧ (t.length = 1 ∨ t.length = nIds)
      ∧ ∀ r, r < t.length → t.getD r [] = matOf 2 nDim m := by
  cases hlay with
  | flat =>
    refine ⟨[matOf 2 nDim m], by simp [normalise, reshape2_flatOf 2 nDim m hD], Or.inl rfl, ?_⟩
    intro r hr
    have : r = 0 := by simpa using hr
    subst this; rfl
  | matrix =>
    have hf : typo = false := by
      cases typo
      · rfl
      · exact absurd rfl (hty rfl)
    subst hf
    refine ⟨[matOf 2 nDim m], by simp [normalise], Or.inl rfl, ?_⟩
    intro r hr
    have : r = 0 := by simpa using hr
    subst this; rfl
  | tensor =>
    refine ⟨tensOf nIds 2 nDim m, by simp [normalise], Or.inr (by simp [tensOf]), ?_⟩
    intro r hr
    exact tensOf_getD nIds 2 nDim m r hr

theorem muSigma_isLayout (typo : Bool) (nIds nDim : Nat) (m : Nat → Nat → α) (lay : Layout α)
    (hlay : IsLayoutOf nIds 2 nDim m lay) (hI : 0 < nIds) (hD : 0 < nDim)
    (hty : typo = true → lay ≠ .matrix (matOf 2 nDim m)) :
    ∃ mus sigmas, muSigma typo nDim lay = .ok (mus, sigmas)
      ∧ WF mus (m 0) nIds nDim ∧ WF sigmas (m 1) nIds nDim := by
  obtain ⟨t, hn, hlen, ht⟩ := normalise_isLayout typo nIds nDim m lay hlay hI hD hty
  obtain ⟨a0, h0, w0⟩ := col_a3_WF nIds 2 nDim m t ht hlen hI 0 (by omega)
  obtain ⟨a1, h1, w1⟩ := col_a3_WF nIds 2 nDim m t ht hlen hI 1 (by omega)
  exact ⟨a0, a1, by simp [muSigma, hn, h0, h1], w0, w1⟩



/-! ### the kernels only read the index range -/

/-- the entries of `th` a kind reads -/
def ThAgree (k : Kind) (nIds nDim : Nat) (th th' : Nat → Nat → Nat → α) : Prop :=
  ∀ i d, i < nIds → d < nDim →
    match k with
    | .pooled => th i 0 d = th' i 0 d
    | .hetero => th i i d = th' i i d
    | _ => th i 0 d = th' i 0 d ∧ th i 1 d = th' i 1 d

theorem popLL_congr [HasErf α] (k : Kind) (nIds nDim : Nat) (th th' : Nat → Nat → Nat → α)
    (eta : Nat → Nat → α) (h : ThAgree k nIds nDim th th') :
    popLL k nIds nDim th eta = popLL k nIds nDim th' eta := by
  cases k with
  | gauss c =>
    cases c
    · rfl
    · have h0 : ∀ i d, i < nIds → d < nDim → th i 0 d = th' i 0 d := fun i d hi hd => (h i d hi hd).1
      have h1 : ∀ i d, i < nIds → d < nDim → th i 1 d = th' i 1 d := fun i d hi hd => (h i d hi hd).2
      simp only [popLL]
      rw [iany2_congr_gen nIds nDim _ (fun i d => le (th' i 1 d) zero)
        (fun i d hi hd => by rw [h1 i d hi hd])]
      rw [isum2_congr_gen nIds nDim _ (fun i d => log (two * pi * (th' i 1 d * th' i 1 d)) / two
        + (eta i d - th' i 0 d) * (eta i d - th' i 0 d) / (two * (th' i 1 d * th' i 1 d)))
        (fun i d hi hd => by rw [h0 i d hi hd, h1 i d hi hd])]
  | logn c =>
    cases c
    · rfl
    · have h0 : ∀ i d, i < nIds → d < nDim → th i 0 d = th' i 0 d := fun i d hi hd => (h i d hi hd).1
      have h1 : ∀ i d, i < nIds → d < nDim → th i 1 d = th' i 1 d := fun i d hi hd => (h i d hi hd).2
      simp only [popLL]
      rw [iany2_congr_gen nIds nDim _ (fun i d => le (th' i 1 d) zero || le (eta i d) zero)
        (fun i d hi hd => by rw [h1 i d hi hd])]
      rw [isum2_congr_gen nIds nDim _ (fun i d => log (two * pi * (th' i 1 d * th' i 1 d)) / two
        + log (eta i d)
        + (log (eta i d) - th' i 0 d) * (log (eta i d) - th' i 0 d) / two / (th' i 1 d * th' i 1 d))
        (fun i d hi hd => by rw [h0 i d hi hd, h1 i d hi hd])]
  | trunc =>
    have h0 : ∀ i d, i < nIds → d < nDim → th i 0 d = th' i 0 d := fun i d hi hd => (h i d hi hd).1
    have h1 : ∀ i d, i < nIds → d < nDim → th i 1 d = th' i 1 d := fun i d hi hd => (h i d hi hd).2
    simp only [popLL]
    rw [iany2_congr_gen nIds nDim _ (fun i d => le (th' i 1 d) zero || lt (eta i d) zero)
      (fun i d hi hd => by rw [h1 i d hi hd])]
    rw [isum2_congr_gen nIds nDim _ (fun i d => log (two * pi * (th' i 1 d * th' i 1 d)) / two
      + (eta i d - th' i 0 d) * (eta i d - th' i 0 d) / (two * (th' i 1 d * th' i 1 d))
      + log (ofNat 1 - normCdf (Neg.neg (th' i 0 d) / th' i 1 d)))
      (fun i d hi hd => by rw [h0 i d hi hd, h1 i d hi hd])]
  | pooled =>
    simp only [popLL]
    rw [iany2_congr_gen nIds nDim _
      (fun i d => !(le (eta i d) (th' i 0 d) && le (th' i 0 d) (eta i d)))
      (fun i d hi hd => by rw [show th i 0 d = th' i 0 d from h i d hi hd])]
  | hetero =>
    simp only [popLL]
    rw [iany2_congr_gen nIds nDim _
      (fun i d => !(le (eta i d) (th' i i d) && le (th' i i d) (eta i d)))
      (fun i d hi hd => by rw [show th i i d = th' i i d from h i d hi hd])]



theorem map2_range_congr {β : Type} (n m : Nat) (f g : Nat → Nat → β)
    (h : ∀ p d, p < n → d < m → f p d = g p d) :
    (List.range n).map (fun p => (List.range m).map (f p))
      = (List.range n).map (fun p => (List.range m).map (g p)) :=
  List.map_congr_left fun p hp => List.map_congr_left fun d hd =>
    h p d (List.mem_range.mp hp) (List.mem_range.mp hd)

theorem flatMap_range_congr {β : Type} (n m : Nat) (f g : Nat → Nat → β)
    (h : ∀ p d, p < n → d < m → f p d = g p d) :
    (List.range n).flatMap (fun p => (List.range m).map (f p))
      = (List.range n).flatMap (fun p => (List.range m).map (g p)) := by
  rw [List.flatMap_def, List.flatMap_def, map2_range_congr n m f g h]

/-- what a caller can observe of `compute_sensitivities`: the score, whether the arrays mean
    anything, and the arrays in all three return forms -/
structure SensObs (α : Type) where
  score : Score α
  defined : Bool
  dpsi : List (List α)
  sep : List (List (List α))
  flat : List α
  red : List α

def sensObs (k : Kind) (nIds nDim : Nat) (s : SensOut α) : SensObs α :=
  ⟨s.score, s.defined, psiRows nIds nDim s.dpsi, shapeSeparate k nIds nDim s,
   shapeFlattened k nIds nDim s, shapeReduce k nIds nDim s⟩

theorem sensObs_congr (k : Kind) (nIds nDim : Nat) (s s' : SensOut α)
    (hs : s.score = s'.score) (hdef : s.defined = s'.defined)
    (hp : ∀ i d, i < nIds → d < nDim → s.dpsi i d = s'.dpsi i d)
    (ht : ∀ i p d, i < nIds → d < nDim → s.dtheta i p d = s'.dtheta i p d) :
    sensObs k nIds nDim s = sensObs k nIds nDim s' := by
  have h1 : psiRows nIds nDim s.dpsi = psiRows nIds nDim s'.dpsi :=
    map2_range_congr nIds nDim _ _ hp
  have h2 : shapeSeparate k nIds nDim s = shapeSeparate k nIds nDim s' := by
    unfold shapeSeparate
    exact List.map_congr_left fun i hi => List.map_congr_left fun p _ =>
      List.map_congr_left fun d hd => ht i p d (List.mem_range.mp hi) (List.mem_range.mp hd)
  have hft : flatTheta nIds 2 nDim s.dtheta = flatTheta nIds 2 nDim s'.dtheta := by
    unfold flatTheta
    exact flatMap_range_congr 2 nDim _ _ fun p d _ hd =>
      isum_congr_gen nIds _ _ fun i hi => ht i p d hi hd
  have hfp : flatPsi nIds nDim s.dpsi = flatPsi nIds nDim s'.dpsi :=
    flatMap_range_congr nIds nDim _ _ hp
  have h3 : shapeFlattened k nIds nDim s = shapeFlattened k nIds nDim s' := by
    cases k <;> simp only [shapeFlattened, hft]
  have h4 : shapeReduce k nIds nDim s = shapeReduce k nIds nDim s' := by
    cases k <;> simp only [shapeReduce, hft, hfp]
    exact List.map_congr_left fun d hd => isum_congr_gen nIds _ _ fun i hi =>
      hp i d hi (List.mem_range.mp hd)
  unfold sensObs
  rw [hs, hdef, h1, h2, h3, h4]



theorem addUp_congr (up : Option (Nat → Nat → α)) (f g : Nat → Nat → α) (i d : Nat)
    (h : f i d = g i d) : addUp up f i d = addUp up g i d := by
  cases up <;> simp [addUp, h]

theorem popSens_congr [HasErf α] (k : Kind) (nIds nDim : Nat) (th th' : Nat → Nat → Nat → α)
    (eta : Nat → Nat → α) (up : Option (Nat → Nat → α)) (h : ThAgree k nIds nDim th th') :
    sensObs k nIds nDim (popSens k nIds nDim th eta up)
      = sensObs k nIds nDim (popSens k nIds nDim th' eta up) := by
  have hLL := popLL_congr k nIds nDim th th' eta h
  cases k with
  | gauss c =>
    have h0 : ∀ i d, i < nIds → d < nDim → th i 0 d = th' i 0 d := fun i d hi hd => (h i d hi hd).1
    have h1 : ∀ i d, i < nIds → d < nDim → th i 1 d = th' i 1 d := fun i d hi hd => (h i d hi hd).2
    have hA : iany2 nIds nDim (fun i d => lt (th i 1 d) zero)
        = iany2 nIds nDim (fun i d => lt (th' i 1 d) zero) :=
      iany2_congr_gen _ _ _ _ fun i d hi hd => by rw [h1 i d hi hd]
    cases c
    · simp only [popSens, hA]
      split
      · rfl
      · refine sensObs_congr _ _ _ _ _ rfl rfl ?_ ?_
        · intro i d hi hd; simp only [h1 i d hi hd]
        · intro i p d hi hd; simp only []
    · simp only [popSens, hA, hLL]
      split
      · rfl
      · cases hx : popLL (.gauss true) nIds nDim th' eta
        · rfl
        · refine sensObs_congr _ _ _ _ _ rfl rfl ?_ ?_
          · intro i d hi hd
            exact addUp_congr up _ _ i d (by simp only [h0 i d hi hd, h1 i d hi hd])
          · intro i p d hi hd; simp only [h0 i d hi hd, h1 i d hi hd]
        · rfl
  | logn c =>
    have h0 : ∀ i d, i < nIds → d < nDim → th i 0 d = th' i 0 d := fun i d hi hd => (h i d hi hd).1
    have h1 : ∀ i d, i < nIds → d < nDim → th i 1 d = th' i 1 d := fun i d hi hd => (h i d hi hd).2
    have hA : iany2 nIds nDim (fun i d => lt (th i 1 d) zero)
        = iany2 nIds nDim (fun i d => lt (th' i 1 d) zero) :=
      iany2_congr_gen _ _ _ _ fun i d hi hd => by rw [h1 i d hi hd]
    cases c
    · simp only [popSens, hA]
      split
      · rfl
      · refine sensObs_congr _ _ _ _ _ rfl rfl ?_ ?_
        · intro i d hi hd; simp only [h0 i d hi hd, h1 i d hi hd]
        · intro i p d hi hd; simp only [h0 i d hi hd, h1 i d hi hd]
    · simp only [popSens, hA, hLL]
      split
      · rfl
      · cases hx : popLL (.logn true) nIds nDim th' eta
        · rfl
        · refine sensObs_congr _ _ _ _ _ rfl rfl ?_ ?_
          · intro i d hi hd
            exact addUp_congr up _ _ i d (by simp only [h0 i d hi hd, h1 i d hi hd])
          · intro i p d hi hd; simp only [h0 i d hi hd, h1 i d hi hd]
        · rfl
  | trunc =>
    have h0 : ∀ i d, i < nIds → d < nDim → th i 0 d = th' i 0 d := fun i d hi hd => (h i d hi hd).1
    have h1 : ∀ i d, i < nIds → d < nDim → th i 1 d = th' i 1 d := fun i d hi hd => (h i d hi hd).2
    simp only [popSens, hLL]
    cases hx : popLL .trunc nIds nDim th' eta
    · rfl
    · refine sensObs_congr _ _ _ _ _ rfl rfl ?_ ?_
      · intro i d hi hd
        exact addUp_congr up _ _ i d (by simp only [h0 i d hi hd, h1 i d hi hd])
      · intro i p d hi hd; simp only [h0 i d hi hd, h1 i d hi hd]
    · rfl
  | pooled =>
    simp only [popSens, hLL]
  | hetero =>
    simp only [popSens, hLL]



/-! ### every layout hands the kernel the same numbers -/

def Layout.isMatrix : Layout α → Bool
  | .matrix _ => true
  | _ => false
def Layout.isTensor : Layout α → Bool
  | .tensor _ => true
  | _ => false

theorem bc_of_shape (a : Arr2 α) (nIds nDim : Nat) (hr : a.rows = nIds) (hc : a.cols = nDim) :
    ∃ f, a.bc nIds nDim = .ok f ∧ ∀ i d, i < nIds → d < nDim → f i d = a.get i d := by
  refine ⟨_, by unfold Arr2.bc; rw [if_pos ⟨Or.inr hr, Or.inr hc⟩], ?_⟩
  intro i d hi hd
  have e1 : (if a.rows = 1 then 0 else i) = i := by
    by_cases h : a.rows = 1
    · rw [if_pos h]; omega
    · rw [if_neg h]
  have e2 : (if a.cols = 1 then 0 else d) = d := by
    by_cases h : a.cols = 1
    · rw [if_pos h]; omega
    · rw [if_neg h]
  simp only [e1, e2]

theorem matArr_matOf (nPer nDim : Nat) (m : Nat → Nat → α) (hP : 0 < nPer) :
    (matArr (matOf nPer nDim m)).rows = nPer ∧ (matArr (matOf nPer nDim m)).cols = nDim
    ∧ ∀ r d, r < nPer → d < nDim → (matArr (matOf nPer nDim m)).get r d = m r d := by
  refine ⟨by simp [matArr, matOf_length], ?_, ?_⟩
  · show ((matOf nPer nDim m).headD []).length = nDim
    rw [matOf_headD nPer nDim m hP]; simp
  · intro r d hr hd
    show ((matOf nPer nDim m).getD r []).getD d zero = m r d
    rw [matOf_getD nPer nDim m r hr, getD_map_range nDim _ d hd]

/-- pooled: the array compared with the observations broadcasts to the row `m 0` -/
theorem deltaArr_pooled (legacy : Bool) (nIds nDim : Nat) (m : Nat → Nat → α) (lay : Layout α)
    (hlay : IsLayoutOf nIds 1 nDim m lay) (hI : 0 < nIds) (hD : 0 < nDim) :
    ∃ a, deltaArr false legacy nDim lay = .ok a ∧ WF a (m 0) nIds nDim := by
  obtain ⟨hr, hc, hg⟩ := matArr_matOf 1 nDim m Nat.one_pos
  have wf : WF (matArr (matOf 1 nDim m)) (m 0) nIds nDim :=
    ⟨Or.inl hr, hc, fun r d hr' hd => by
      have : r = 0 := by omega
      subst this; exact hg 0 d Nat.one_pos hd⟩
  cases hlay with
  | flat => exact ⟨_, by simp [deltaArr, reshape2_flatOf 1 nDim m hD], wf⟩
  | matrix => exact ⟨_, by simp [deltaArr], wf⟩
  | tensor =>
    obtain ⟨a, ha, w⟩ := col_a3_WF nIds 1 nDim m (tensOf nIds 1 nDim m)
      (tensOf_getD nIds 1 nDim m) (Or.inr (by simp [tensOf])) hI 0 Nat.one_pos
    exact ⟨a, by simp [deltaArr, ha], w⟩

/-- heterogeneous: row `i` of the compared array is individual `i`'s own parameters — for the
    legacy tensor reading this is what fails -/
theorem deltaArr_hetero (legacy : Bool) (nIds nDim : Nat) (m : Nat → Nat → α) (lay : Layout α)
    (hlay : IsLayoutOf nIds nIds nDim m lay) (hI : 0 < nIds) (hD : 0 < nDim)
    (hleg : legacy = true → lay.isTensor = false) :
    ∃ a, deltaArr true legacy nDim lay = .ok a ∧ a.rows = nIds ∧ a.cols = nDim
      ∧ ∀ r d, r < nIds → d < nDim → a.get r d = m r d := by
  obtain ⟨hr, hc, hg⟩ := matArr_matOf nIds nDim m hI
  cases hlay with
  | flat => exact ⟨_, by simp [deltaArr, reshape2_flatOf nIds nDim m hD], hr, hc, hg⟩
  | matrix => exact ⟨_, by simp [deltaArr], hr, hc, hg⟩
  | tensor =>
    have hl : legacy = false := by
      cases legacy
      · rfl
      · simpa [Layout.isTensor] using hleg rfl
    subst hl
    have hlen : (tensOf nIds nIds nDim m).length = nIds := by simp [tensOf]
    have hhead : (tensOf nIds nIds nDim m).headD [] = matOf nIds nDim m := by
      rw [← tensOf_getD nIds nIds nDim m 0 (by omega)]
      cases h : tensOf nIds nIds nDim m <;> simp [List.getD]
    refine ⟨⟨(tensOf nIds nIds nDim m).length, (((tensOf nIds nIds nDim m).headD []).headD []).length,
      fun i d => (((tensOf nIds nIds nDim m).getD i []).getD i []).getD d zero⟩,
      by simp [deltaArr], hlen, ?_, ?_⟩
    · show (((tensOf nIds nIds nDim m).headD []).headD []).length = nDim
      rw [hhead, matOf_headD nIds nDim m hI]; simp
    · intro r d hr' hd
      show (((tensOf nIds nIds nDim m).getD r []).getD r []).getD d zero = m r d
      rw [tensOf_getD nIds nIds nDim m r (by omega), matOf_getD nIds nDim m r hr',
        getD_map_range nDim _ d hd]

/-- `compute_log_likelihood` applied to the bare parameter values -/
def llCanon [HasErf α] (k : Kind) (nIds nDim : Nat) (m : Nat → Nat → α) (obs : Nat → Nat → α) :
    Score α :=
  match k with
  | .gauss false => popLL k nIds nDim (fun _ _ _ => zero) obs
  | .logn false => popLL k nIds nDim (fun _ _ _ => zero) obs
  | .pooled => popLL .pooled nIds nDim (fun _ _ d => m 0 d) obs
  | .hetero => popLL .hetero nIds nDim (fun _ p d => m p d) obs
  | _ => if iany nDim (fun d => if k == .trunc then le (m 1 d) zero else lt (m 1 d) zero) then .negInf
         else popLL k nIds nDim (fun _ p d => m p d) obs

theorem withMuSigma_WF {β : Type} (mus sigmas : Arr2 α) (m : Nat → Nat → α) (nIds nDim : Nat)
    (w0 : WF mus (m 0) nIds nDim) (w1 : WF sigmas (m 1) nIds nDim) (hI : 0 < nIds)
    (f : (Nat → Nat → Nat → α) → β) :
    ∃ th, withMuSigma (mus, sigmas) nIds nDim f = .ok (f th)
      ∧ ∀ i d, i < nIds → d < nDim → th i 0 d = m 0 d ∧ th i 1 d = m 1 d := by
  obtain ⟨f0, e0, g0⟩ := w0.bc hI
  obtain ⟨f1, e1, g1⟩ := w1.bc hI
  refine ⟨thOf f0 f1, by simp [withMuSigma, e0, e1], ?_⟩
  intro i d hi hd
  exact ⟨by simp [thOf, g0 i d hi hd], by simp [thOf, g1 i d hi hd]⟩

theorem beq_gauss_trunc (c : Bool) : (Kind.gauss c == Kind.trunc) = false := by cases c <;> decide
theorem beq_logn_trunc (c : Bool) : (Kind.logn c == Kind.trunc) = false := by cases c <;> decide
theorem beq_trunc_trunc : (Kind.trunc == Kind.trunc) = true := by decide
theorem beq_pooled_hetero : (Kind.pooled == Kind.hetero) = false := by decide
theorem beq_hetero_hetero : (Kind.hetero == Kind.hetero) = true := by decide

theorem llLayout_musigma [HasErf α] (k : Kind) (hk : k = .gauss true ∨ k = .logn true ∨ k = .trunc)
    (legacy : Bool) (nIds nDim : Nat) (m : Nat → Nat → α) (lay : Layout α) (obs : Nat → Nat → α)
    (hlay : IsLayoutOf nIds 2 nDim m lay) (hI : 0 < nIds) (hD : 0 < nDim) :
    llLayout legacy k nIds nDim lay obs = .ok (llCanon k nIds nDim m obs) := by
  obtain ⟨mus, sigmas, hms, w0, w1⟩ := muSigma_isLayout false nIds nDim m lay hlay hI hD (by simp)
  have hany : ∀ g : α → Bool, sigmas.any g = iany nDim (fun d => g (m 1 d)) := fun g => w1.any hI g
  obtain ⟨th, hth, hag⟩ := withMuSigma_WF mus sigmas m nIds nDim w0 w1 hI
    (fun th => popLL k nIds nDim th obs)
  have hcong : popLL k nIds nDim th obs = popLL k nIds nDim (fun _ p d => m p d) obs := by
    apply popLL_congr
    intro i d hi hd
    rcases hk with rfl | rfl | rfl <;> exact hag i d hi hd
  rcases hk with rfl | rfl | rfl <;>
  · simp only [llLayout, llCanon, hms, hany, beq_gauss_trunc, beq_logn_trunc, beq_trunc_trunc,
      Bool.false_eq_true, if_false, if_true]
    split
    · rfl
    · rw [hth, hcong]



/-- **every accepted layout of the same values gives `compute_log_likelihood` of the bare values**
    (also for the code as it is: no `compute_log_likelihood` contains a layout slip any more) -/
theorem llLayout_eq_canon [HasErf α] (legacy : Bool) (k : Kind) (nIds nDim : Nat) (m : Nat → Nat → α)
    (lay : Layout α) (obs : Nat → Nat → α) (hlay : IsLayoutOf nIds (k.perDim nIds) nDim m lay)
    (hI : 0 < nIds) (hD : 0 < nDim) :
    llLayout legacy k nIds nDim lay obs = .ok (llCanon k nIds nDim m obs) := by
  cases k with
  | gauss c =>
    cases c
    · rfl
    · exact llLayout_musigma _ (Or.inl rfl) legacy nIds nDim m lay obs hlay hI hD
  | logn c =>
    cases c
    · rfl
    · exact llLayout_musigma _ (Or.inr (Or.inl rfl)) legacy nIds nDim m lay obs hlay hI hD
  | trunc => exact llLayout_musigma _ (Or.inr (Or.inr rfl)) legacy nIds nDim m lay obs hlay hI hD
  | pooled =>
    obtain ⟨a, ha, w⟩ := deltaArr_pooled false nIds nDim m lay hlay hI hD
    obtain ⟨f, hf, hg⟩ := w.bc hI
    simp only [llLayout, llCanon, beq_pooled_hetero, ha, hf]
    congr 1
    apply popLL_congr
    intro i d hi hd
    simp [deltaTh, hg i d hi hd]
  | hetero =>
    obtain ⟨a, ha, hr, hc, hget⟩ := deltaArr_hetero false nIds nDim m lay hlay hI hD
      (fun h => absurd h (by simp))
    obtain ⟨f, hf, hg⟩ := bc_of_shape a nIds nDim hr hc
    simp only [llLayout, llCanon, beq_hetero_hetero, ha, hf]
    congr 1
    apply popLL_congr
    intro i d hi hd
    simp [deltaTh, hg i d hi hd, hget i d hi hd]

/-- `compute_sensitivities` applied to the bare parameter values -/
def sensCanon [HasErf α] (k : Kind) (nIds nDim : Nat) (m : Nat → Nat → α) (obs : Nat → Nat → α)
    (up : Option (Nat → Nat → α)) : SensOut α :=
  match k with
  | .pooled => popSens .pooled nIds nDim (fun _ _ d => m 0 d) obs up
  | .hetero => popSens .hetero nIds nDim (fun _ p d => m p d) obs up
  | _ => if iany nDim (fun d => if k == .trunc then le (m 1 d) zero else lt (m 1 d) zero) then garbage
         else popSens k nIds nDim (fun _ p d => m p d) obs up

theorem beq_gauss_hetero (c : Bool) : (Kind.gauss c == Kind.hetero) = false := by cases c <;> decide
theorem beq_logn_hetero (c : Bool) : (Kind.logn c == Kind.hetero) = false := by cases c <;> decide

theorem sensLayout_musigma [HasErf α] (k : Kind)
    (hk : (∃ c, k = .gauss c) ∨ (∃ c, k = .logn c) ∨ k = .trunc)
    (legacy : Bool) (nIds nDim : Nat) (m : Nat → Nat → α) (lay : Layout α) (obs : Nat → Nat → α)
    (up : Option (Nat → Nat → α))
    (hlay : IsLayoutOf nIds 2 nDim m lay) (hI : 0 < nIds) (hD : 0 < nDim)
    (hleg : legacy = true → sensTypo k = true → lay.isMatrix = false) :
    Except.map (sensObs k nIds nDim) (sensLayout legacy k nIds nDim lay obs up)
      = .ok (sensObs k nIds nDim (sensCanon k nIds nDim m obs up)) := by
  obtain ⟨mus, sigmas, hms, w0, w1⟩ := muSigma_isLayout (legacy && sensTypo k) nIds nDim m lay hlay hI
    hD (by
      intro h hm
      simp only [Bool.and_eq_true] at h
      have := hleg h.1 h.2
      rw [hm] at this
      simp [Layout.isMatrix] at this)
  have hany : ∀ g : α → Bool, sigmas.any g = iany nDim (fun d => g (m 1 d)) := fun g => w1.any hI g
  obtain ⟨th, hth, hag⟩ := withMuSigma_WF mus sigmas m nIds nDim w0 w1 hI
    (fun th => popSens k nIds nDim th obs up)
  have hcong : sensObs k nIds nDim (popSens k nIds nDim th obs up)
      = sensObs k nIds nDim (popSens k nIds nDim (fun _ p d => m p d) obs up) := by
    apply popSens_congr
    intro i d hi hd
    rcases hk with ⟨c, rfl⟩ | ⟨c, rfl⟩ | rfl <;> exact hag i d hi hd
  rcases hk with ⟨c, rfl⟩ | ⟨c, rfl⟩ | rfl <;>
  · simp only [sensLayout, sensCanon, hms, hany, beq_gauss_trunc, beq_logn_trunc, beq_trunc_trunc,
      Bool.false_eq_true, if_false, if_true]
    split
    · rfl
    · rw [hth]
      simp only [Except.map]
      rw [hcong]

theorem sensLayout_eq_canon [HasErf α] (legacy : Bool) (k : Kind) (nIds nDim : Nat)
    (m : Nat → Nat → α) (lay : Layout α) (obs : Nat → Nat → α) (up : Option (Nat → Nat → α))
    (hlay : IsLayoutOf nIds (k.perDim nIds) nDim m lay) (hI : 0 < nIds) (hD : 0 < nDim)
    (hleg : legacy = true → sensTypo k = true → lay.isMatrix = false) :
    Except.map (sensObs k nIds nDim) (sensLayout legacy k nIds nDim lay obs up)
      = .ok (sensObs k nIds nDim (sensCanon k nIds nDim m obs up)) := by
  cases k with
  | gauss c =>
    exact sensLayout_musigma _ (Or.inl ⟨c, rfl⟩) legacy nIds nDim m lay obs up hlay hI hD
      hleg
  | logn c =>
    exact sensLayout_musigma _ (Or.inr (Or.inl ⟨c, rfl⟩)) legacy nIds nDim m lay obs up
      hlay hI hD hleg
  | trunc =>
    exact sensLayout_musigma _ (Or.inr (Or.inr rfl)) legacy nIds nDim m lay obs up
      hlay hI hD hleg
  | pooled =>
    obtain ⟨a, ha, w⟩ := deltaArr_pooled false nIds nDim m lay hlay hI hD
    obtain ⟨f, hf, hg⟩ := w.bc hI
    simp only [sensLayout, sensCanon, beq_pooled_hetero, ha, hf, Except.map]
    congr 1
    apply popSens_congr
    intro i d hi hd
    simp [deltaTh, hg i d hi hd]
  | hetero =>
    obtain ⟨a, ha, hr, hc, hget⟩ := deltaArr_hetero false nIds nDim m lay hlay hI hD
      (fun h => absurd h (by simp))
    obtain ⟨f, hf, hg⟩ := bc_of_shape a nIds nDim hr hc
    simp only [sensLayout, sensCanon, beq_hetero_hetero, ha, hf, Except.map]
    congr 1
    apply popSens_congr
    intro i d hi hd
    simp [deltaTh, hg i d hi hd, hget i d hi hd]



/-- `compute_individual_parameters` applied to the bare parameter values -/
def indivCanon (k : Kind) (nIds nDim : Nat) (m : Nat → Nat → α) (eta : EtaArg α) (ret : Bool) :
    Except PErr (List (List (PsiVal α))) :=
  match k with
  | .pooled => .ok (psiMat nIds nDim (fun _ d => .val (m 0 d)))
  | .hetero => .ok (psiMat nIds nDim (fun i d => .val (m i d)))
  | _ =>
    match eta.view nIds nDim with
    | .error e => .error e
    | .ok e =>
      let centred := match k with
        | .gauss c => c
        | .logn c => c
        | _ => true
      if centred || ret then .ok (psiMat nIds nDim (fun i d => .val (e i d)))
      else if iany nDim (fun d => lt (m 1 d) zero) then .ok (psiMat nIds nDim (fun _ _ => .nan))
      else .ok (psiMat nIds nDim (fun i d =>
        match k with
        | .logn _ => .val (exp (m 0 d + m 1 d * e i d))
        | _ => .val (m 0 d + m 1 d * e i d)))

theorem psiMat_congr (n nDim : Nat) (f g : Nat → Nat → PsiVal α)
    (h : ∀ i d, i < n → d < nDim → f i d = g i d) : psiMat n nDim f = psiMat n nDim g :=
  map2_range_congr n nDim f g h

theorem indivLayout_musigma (k : Kind)
    (hk : (∃ c, k = .gauss c) ∨ (∃ c, k = .logn c) ∨ k = .trunc)
    (legacy : Bool) (nIds nDim : Nat) (m : Nat → Nat → α) (lay : Layout α) (eta : EtaArg α)
    (ret : Bool) (hlay : IsLayoutOf nIds 2 nDim m lay) (hI : 0 < nIds) (hD : 0 < nDim)
    (hn : eta.nRows nIds = nIds)
    (hleg : legacy = true → lay.isMatrix = false ∨ ret = true ∨ k = .gauss true ∨ k = .logn true
      ∨ k = .trunc) :
    indivLayout legacy k nIds nDim lay eta ret = indivCanon k nIds nDim m eta ret := by
  -- the branches that never look at the parameters
  by_cases hskip : ret = true ∨ k = .gauss true ∨ k = .logn true ∨ k = .trunc
  · rcases hk with ⟨c, rfl⟩ | ⟨c, rfl⟩ | rfl <;>
    · simp only [indivLayout, indivCanon, hn]
      cases hv : eta.view nIds nDim with
      | error e => rfl
      | ok e =>
        rcases hskip with h | h | h | h <;> simp_all
  · have hret : ret = false := by
      cases ret
      · rfl
      · exact absurd (Or.inl rfl) hskip
    have hmat : legacy = true → lay.isMatrix = false := by
      intro hl
      rcases hleg hl with h | h | h | h | h
      · exact h
      · exact absurd (Or.inl h) hskip
      · exact absurd (Or.inr (Or.inl h)) hskip
      · exact absurd (Or.inr (Or.inr (Or.inl h))) hskip
      · exact absurd (Or.inr (Or.inr (Or.inr h))) hskip
    obtain ⟨mus, sigmas, hms, w0, w1⟩ := muSigma_isLayout legacy nIds nDim m lay hlay hI hD (by
      intro h hm
      have := hmat h
      rw [hm] at this
      simp [Layout.isMatrix] at this)
    have hany : ∀ g : α → Bool, sigmas.any g = iany nDim (fun d => g (m 1 d)) := fun g => w1.any hI g
    subst hret
    rcases hk with ⟨c, rfl⟩ | ⟨c, rfl⟩ | rfl
    · cases c
      · simp only [indivLayout, indivCanon, hn, hms, hany]
        cases hv : eta.view nIds nDim with
        | error e => rfl
        | ok e =>
          simp only [Bool.or_self, Bool.false_eq_true, if_false]
          split
          · rfl
          · obtain ⟨th, hth, hag⟩ := withMuSigma_WF mus sigmas m nIds nDim w0 w1 hI
              (fun th => psiMat nIds nDim (fun i d => PsiVal.val (th i 0 d + th i 1 d * e i d)))
            rw [hth]
            congr 1
            exact psiMat_congr _ _ _ _ fun i d hi hd => by
              rw [(hag i d hi hd).1, (hag i d hi hd).2]
      · exact absurd (Or.inr (Or.inl rfl)) hskip
    · cases c
      · simp only [indivLayout, indivCanon, hn, hms, hany]
        cases hv : eta.view nIds nDim with
        | error e => rfl
        | ok e =>
          simp only [Bool.or_self, Bool.false_eq_true, if_false]
          split
          · rfl
          · obtain ⟨th, hth, hag⟩ := withMuSigma_WF mus sigmas m nIds nDim w0 w1 hI
              (fun th => psiMat nIds nDim (fun i d => PsiVal.val (exp (th i 0 d + th i 1 d * e i d))))
            rw [hth]
            congr 1
            exact psiMat_congr _ _ _ _ fun i d hi hd => by
              rw [(hag i d hi hd).1, (hag i d hi hd).2]
      · exact absurd (Or.inr (Or.inr (Or.inl rfl))) hskip
    · exact absurd (Or.inr (Or.inr (Or.inr rfl))) hskip



theorem flatten_matOf_one (nDim : Nat) (m : Nat → Nat → α) :
    (matOf 1 nDim m).flatten = (List.range nDim).map (m 0) := by
  simp [matOf]

theorem heteroDrawn_eq (eta : EtaArg α) (nIds : Nat) (res : List (List (PsiVal α)))
    (hn : eta.nRows nIds = nIds) : heteroDrawn eta nIds res = res := by
  cases eta with
  | mat rows => simp only [EtaArg.nRows] at hn; simp [heteroDrawn, hn]
  | flat l => rfl

theorem indivLayout_eq_canon (legacy : Bool) (k : Kind) (nIds nDim : Nat) (m : Nat → Nat → α)
    (lay : Layout α) (eta : EtaArg α) (ret : Bool)
    (hlay : IsLayoutOf nIds (k.perDim nIds) nDim m lay) (hI : 0 < nIds) (hD : 0 < nDim)
    (hn : eta.nRows nIds = nIds)
    (hleg : legacy = true → lay.isMatrix = false ∨ ret = true
      ∨ (k ≠ .gauss false ∧ k ≠ .logn false)) :
    indivLayout legacy k nIds nDim lay eta ret = indivCanon k nIds nDim m eta ret := by
  cases k with
  | gauss c =>
    refine indivLayout_musigma _ (Or.inl ⟨c, rfl⟩) legacy nIds nDim m lay eta ret hlay hI hD hn ?_
    intro hl
    rcases hleg hl with h | h | h
    · exact Or.inl h
    · exact Or.inr (Or.inl h)
    · cases c
      · exact absurd rfl h.1
      · exact Or.inr (Or.inr (Or.inl rfl))
  | logn c =>
    refine indivLayout_musigma _ (Or.inr (Or.inl ⟨c, rfl⟩)) legacy nIds nDim m lay eta ret hlay hI hD
      hn ?_
    intro hl
    rcases hleg hl with h | h | h
    · exact Or.inl h
    · exact Or.inr (Or.inl h)
    · cases c
      · exact absurd rfl h.2
      · exact Or.inr (Or.inr (Or.inr (Or.inl rfl)))
  | trunc =>
    exact indivLayout_musigma _ (Or.inr (Or.inr rfl)) legacy nIds nDim m lay eta ret hlay hI hD hn
      (fun _ => Or.inr (Or.inr (Or.inr (Or.inr rfl))))
  | pooled =>
    cases hlay with
    | flat =>
      simp only [indivLayout, indivCanon, hn, flatOf_length, Kind.perDim, Nat.one_mul, if_true]
      congr 1
      exact psiMat_congr _ _ _ _ fun i d _ hd => by
        have := getD_flatMap_range 1 nDim m 0 d Nat.one_pos hd (zero : α)
        simp only [Nat.zero_mul, Nat.zero_add] at this
        simp only [flatOf, this]
    | matrix =>
      simp only [indivLayout, indivCanon, hn, Kind.perDim, flatten_matOf_one, List.length_map,
        List.length_range, if_true]
      congr 1
      exact psiMat_congr _ _ _ _ fun i d _ hd => by rw [getD_map_range nDim _ d hd]
    | tensor =>
      obtain ⟨a, ha, w⟩ := col_a3_WF nIds 1 nDim m (tensOf nIds 1 nDim m)
        (tensOf_getD nIds 1 nDim m) (Or.inr (by simp [tensOf])) hI 0 Nat.one_pos
      have hrows : a.rows = nIds := by
        have := ha
        simp only [NArr.col] at this
        split at this
        · injection this with h; rw [← h]; simp [tensOf]
        · cases this
      simp only [indivLayout, indivCanon, Kind.perDim, ha, hrows, w.cols]
      congr 1
      exact psiMat_congr _ _ _ _ fun i d hi hd => by rw [w.get i d (by omega) hd]
  | hetero =>
    cases hlay with
    | flat =>
      simp only [indivLayout, indivCanon, flatOf_length, Kind.perDim, if_true,
        heteroDrawn_eq eta nIds _ hn]
      congr 1
      exact psiMat_congr _ _ _ _ fun i d hi hd => by
        rw [show flatOf nIds nDim m = (List.range nIds).flatMap (fun p => (List.range nDim).map (m p))
          from rfl, getD_flatMap_range nIds nDim m i d hi hd]
    | matrix =>
      simp only [indivLayout, indivCanon, Kind.perDim, matOf_length, heteroDrawn_eq eta nIds _ hn]
      simp only [matOf, psiMat, List.map_map]
      congr 1
      refine List.map_congr_left fun i _ => ?_
      simp [Function.comp]
    | tensor =>
      have hlen : (tensOf nIds nIds nDim m).length = nIds := by simp [tensOf]
      have hhead : (tensOf nIds nIds nDim m).headD [] = matOf nIds nDim m := by
        rw [← tensOf_getD nIds nIds nDim m 0 (by omega)]
        cases h : tensOf nIds nIds nDim m <;> simp [List.getD]
      simp only [indivLayout, indivCanon, Kind.perDim, hlen, hhead, matOf_length, Nat.min_self,
        matOf_headD nIds nDim m hI, List.length_map, List.length_range,
        heteroDrawn_eq eta nIds _ hn]
      congr 1
      exact psiMat_congr _ _ _ _ fun i d hi hd => by
        rw [tensOf_getD nIds nIds nDim m i (by omega), matOf_getD nIds nDim m i hi,
          getD_map_range nDim _ d hd]

end ChiModel
