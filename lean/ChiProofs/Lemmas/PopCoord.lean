import ChiProofs.Lemmas.PopBasics
import ChiProofs.Lemmas.PopLists

/-! from total derivatives along curves to partial derivatives w.r.t. one coordinate of the
hierarchical parameter vector (C05): indicator sums, entry `j` of `concat(flatten dpsi, Σ_i dtheta)` -/
set_option linter.unusedSectionVars false
namespace ChiModel
open ScalarFns

/-- coordinate `m` of the vector `z` with entry `j` replaced by `s`, as a curve in `s` -/
theorem hasDerivAt_update_coord (z : Nat → ℝ) (j m : Nat) :
    HasDerivAt (fun s => Function.update z j s m) (if m = j then 1 else 0) (z j) := by
  by_cases h : m = j
  · subst h
    simp only [Function.update_self, if_true]
    exact hasDerivAt_id _
  · simp only [Function.update_of_ne h, if_neg h]
    exact hasDerivAt_const _ _

theorem sum_indicator_pair (nIds nDim : Nat) (f : Nat → Nat → ℝ) (j : Nat) (hj : j < nIds * nDim) :
    ∑ i ∈ Finset.range nIds, ∑ d ∈ Finset.range nDim, f i d * (if i * nDim + d = j then (1:ℝ) else 0)
      = f (j / nDim) (j % nDim) := by
  have hD : 0 < nDim := by
    rcases Nat.eq_zero_or_pos nDim with h | h
    · subst h; simp at hj
    · exact h
  have hi0 : j / nDim < nIds := (Nat.div_lt_iff_lt_mul hD).2 hj
  have hd0 : j % nDim < nDim := Nat.mod_lt _ hD
  rw [Finset.sum_eq_single (j / nDim)]
  · rw [Finset.sum_eq_single (j % nDim)]
    · have : j / nDim * nDim + j % nDim = j := by
        rw [Nat.mul_comm]; exact Nat.div_add_mod j nDim
      simp [this]
    · intro d hd hne
      have hdlt := Finset.mem_range.mp hd
      have : j / nDim * nDim + d ≠ j := by
        intro h
        apply hne
        have := congrArg (· % nDim) h
        simp only [Nat.mul_add_mod_self_right] at this
        rw [Nat.mod_eq_of_lt hdlt] at this
        exact this
      simp [this]
    · intro h; exact absurd (Finset.mem_range.mpr hd0) h
  · intro i _ hne
    apply Finset.sum_eq_zero
    intro d hd
    have hdlt := Finset.mem_range.mp hd
    have : i * nDim + d ≠ j := by
      intro h
      apply hne
      have := congrArg (· / nDim) h
      rw [Nat.mul_comm, Nat.mul_add_div hD, Nat.div_eq_of_lt hdlt, Nat.add_zero] at this
      exact this
    simp [this]
  · intro h; exact absurd (Finset.mem_range.mpr hi0) h



theorem sum_indicator_pair_zero (nIds nDim : Nat) (f : Nat → Nat → ℝ) (j : Nat)
    (hj : nIds * nDim ≤ j) :
    ∑ i ∈ Finset.range nIds, ∑ d ∈ Finset.range nDim, f i d * (if i * nDim + d = j then (1:ℝ) else 0)
      = 0 := by
  apply Finset.sum_eq_zero
  intro i hi
  apply Finset.sum_eq_zero
  intro d hd
  have hi' := Finset.mem_range.mp hi
  have hd' := Finset.mem_range.mp hd
  have : i * nDim + d ≠ j := by
    have h1 : i * nDim + d < nIds * nDim := by
      calc i * nDim + d < i * nDim + nDim := by omega
        _ = (i + 1) * nDim := by ring
        _ ≤ nIds * nDim := Nat.mul_le_mul_right nDim hi'
    omega
  simp [this]

theorem sum_indicator_dim (nDim off j : Nat) (g : Nat → ℝ) :
    ∑ d ∈ Finset.range nDim, g d * (if off + d = j then (1:ℝ) else 0)
      = if off ≤ j ∧ j < off + nDim then g (j - off) else 0 := by
  by_cases h : off ≤ j ∧ j < off + nDim
  · rw [if_pos h, Finset.sum_eq_single (j - off)]
    · have : off + (j - off) = j := by omega
      simp [this]
    · intro d _ hne
      have : off + d ≠ j := by omega
      simp [this]
    · intro hh
      exact absurd (Finset.mem_range.mpr (by omega)) hh
  · rw [if_neg h]
    apply Finset.sum_eq_zero
    intro d hd
    have hd' := Finset.mem_range.mp hd
    have : off + d ≠ j := by omega
    simp [this]

/-- indicator derivatives of the coordinate curves -/
def indE (nDim j i d : Nat) : ℝ := if i * nDim + d = j then 1 else 0
def indP (off j d : Nat) : ℝ := if off + d = j then 1 else 0

/-- entry `j` of `concat(flatten dpsi, Σ_i dtheta)` is what the total derivative reduces to when
    only coordinate `j` of the hierarchical vector moves -/
theorem reduce_entry (nIds nDim : Nat) (s : SensOut ℝ) (j : Nat) (hj : j < nIds * nDim + 2 * nDim) :
    isum2 nIds nDim (fun i d => s.dpsi i d * indE nDim j i d
        + s.dtheta i 0 d * indP (nIds * nDim) j d
        + s.dtheta i 1 d * indP (nIds * nDim + nDim) j d)
      = (flatPsi nIds nDim s.dpsi ++ flatTheta nIds 2 nDim s.dtheta).getD j 0 := by
  have hlen : (flatPsi nIds nDim s.dpsi).length = nIds * nDim := by simp [flatPsi]
  rw [isum2_eq]
  simp only [Finset.sum_add_distrib, indE, indP]
  have hP : ∀ off, ∑ i ∈ Finset.range nIds, ∑ d ∈ Finset.range nDim,
      (fun p => s.dtheta i p d) (if off = nIds * nDim then 0 else 1)
        * (if off + d = j then (1:ℝ) else 0)
      = if off ≤ j ∧ j < off + nDim then
          ∑ i ∈ Finset.range nIds, s.dtheta i (if off = nIds * nDim then 0 else 1) (j - off)
        else 0 := by
    intro off
    simp only [sum_indicator_dim nDim off j]
    split
    · rfl
    · simp
  by_cases h1 : j < nIds * nDim
  · -- individual-level block
    have hD : 0 < nDim := by
      rcases Nat.eq_zero_or_pos nDim with h | h
      · subst h; simp at h1
      · exact h
    rw [sum_indicator_pair nIds nDim s.dpsi j h1]
    have e0 := hP (nIds * nDim)
    have e1 := hP (nIds * nDim + nDim)
    simp only [if_true] at e0
    have hne : ¬ (nIds * nDim + nDim = nIds * nDim) := by omega
    simp only [if_neg hne] at e1
    rw [e0, e1, if_neg (by omega), if_neg (by omega), add_zero, add_zero,
      List.getD_append _ _ _ _ (by rw [hlen]; exact h1)]
    have hj' : j = j / nDim * nDim + j % nDim := by
      rw [Nat.mul_comm]; exact (Nat.div_add_mod j nDim).symm
    conv_rhs => rw [hj']
    unfold flatPsi
    rw [getD_flatMap_range nIds nDim _ (j / nDim) (j % nDim)
      ((Nat.div_lt_iff_lt_mul hD).2 h1) (Nat.mod_lt _ hD)]
  · have h1' : nIds * nDim ≤ j := by omega
    rw [sum_indicator_pair_zero nIds nDim s.dpsi j h1', zero_add,
      List.getD_append_right _ _ _ _ (by rw [hlen]; exact h1'), hlen]
    have e0 := hP (nIds * nDim)
    have e1 := hP (nIds * nDim + nDim)
    simp only [if_true] at e0
    have hne : ¬ (nIds * nDim + nDim = nIds * nDim) := by omega
    by_cases h2 : j < nIds * nDim + nDim
    · have hD : 0 < nDim := by omega
      simp only [if_neg hne] at e1
      rw [e0, e1, if_pos ⟨h1', h2⟩, if_neg (by omega), add_zero]
      unfold flatTheta
      have := getD_flatMap_range 2 nDim (fun p d => isum nIds (fun i => s.dtheta i p d)) 0
        (j - nIds * nDim) (by omega) (by omega) (0:ℝ)
      simp only [Nat.zero_mul, Nat.zero_add] at this
      rw [this, isum_eq]
    · have hD : 0 < nDim := by omega
      simp only [if_neg hne] at e1
      rw [e0, e1, if_neg (by omega), if_pos ⟨by omega, by omega⟩, zero_add]
      unfold flatTheta
      have := getD_flatMap_range 2 nDim (fun p d => isum nIds (fun i => s.dtheta i p d)) 1
        (j - (nIds * nDim + nDim)) (by omega) (by omega) (0:ℝ)
      rw [show j - nIds * nDim = 1 * nDim + (j - (nIds * nDim + nDim)) by omega, this, isum_eq]




end ChiModel
