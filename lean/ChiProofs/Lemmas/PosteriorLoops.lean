import ChiModel.FilterPosterior
/-! # Loop invariants of `_reshape_bottom_parameters` and `_remove_duplicates` (C13); no Mathlib -/
set_option linter.unusedSectionVars false
set_option linter.unusedVariables false
namespace ChiModel
namespace FP
variable {α : Type}

/-- dimension `d` belongs to a pooled / heterogeneous block -/
def isSpecial (sps : List Special) (d : Nat) : Prop := ∃ sp ∈ sps, sp.a ≤ d ∧ d < sp.b

/-- number of special dimensions strictly below `d` -/
def below : List Special → Nat → Nat
  | [], _ => 0
  | sp :: sps, d => (min sp.b d - min sp.a d) + below sps d

/-- the special blocks are sorted, non-empty, non-overlapping, start at or after `lo`, and their
    population-parameter ranges have the published widths -/
def WFs (nS : Nat) : Nat → List Special → Prop
  | _, [] => True
  | lo, sp :: sps => lo ≤ sp.a ∧ sp.a < sp.b ∧
      (sp.tb = sp.ta + (if sp.pooled then sp.b - sp.a else nS * (sp.b - sp.a))) ∧ WFs nS sp.b sps

/-- what a special column of individual `s` is filled with -/
def fill [Add α] [Sub α] [Mul α] [Div α] [Neg α] [ScalarFns α] (top : Nat → α) (s : Nat)
    (sp : Special) (d : Nat) : α :=
  if sp.pooled then top (sp.ta + (d - sp.a)) else top (sp.ta + s * (sp.b - sp.a) + (d - sp.a))

theorem below_of_le (nS : Nat) : ∀ (sps : List Special) (lo : Nat), WFs nS lo sps →
    ∀ d, d ≤ lo → below sps d = 0
  | [], _, _, _, _ => rfl
  | sp :: sps, lo, h, d, hd => by
    obtain ⟨h1, h2, _, h3⟩ := h
    have := below_of_le nS sps sp.b h3 d (by omega)
    simp only [below, this]
    omega

theorem wf_block_ge (nS : Nat) : ∀ (sps : List Special) (lo : Nat), WFs nS lo sps →
    ∀ sp ∈ sps, lo ≤ sp.a
  | [], _, _, _, h => by cases h
  | sp0 :: sps, lo, hwf, sp, hm => by
    obtain ⟨w1, w2, _, w3⟩ := hwf
    cases hm with
    | head => exact w1
    | tail _ hm' => exact Nat.le_trans (by omega) (wf_block_ge nS sps sp0.b w3 sp hm')

/-- one more dimension: `below` grows by one exactly on special dimensions -/
theorem below_succ (nS : Nat) : ∀ (sps : List Special) (lo : Nat), WFs nS lo sps → ∀ d,
    below sps (d + 1) = below sps d + (if (∃ sp ∈ sps, sp.a ≤ d ∧ d < sp.b) then 1 else 0)
  | [], _, _, d => by simp [below]
  | sp :: sps, lo, h, d => by
    obtain ⟨h1, h2, _, h3⟩ := h
    have ih := below_succ nS sps sp.b h3 d
    simp only [below, ih]
    by_cases hd : sp.a ≤ d ∧ d < sp.b
    · have hno : ¬ ∃ sp' ∈ sps, sp'.a ≤ d ∧ d < sp'.b := by
        rintro ⟨sp', hm, hsp'⟩
        have := wf_block_ge nS sps sp.b h3 sp' hm
        omega
      have hyes : ∃ sp' ∈ sp :: sps, sp'.a ≤ d ∧ d < sp'.b := ⟨sp, List.mem_cons_self, hd⟩
      rw [if_neg hno, if_pos hyes]
      omega
    · by_cases hrest : ∃ sp' ∈ sps, sp'.a ≤ d ∧ d < sp'.b
      · have hyes : ∃ sp' ∈ sp :: sps, sp'.a ≤ d ∧ d < sp'.b := by
          obtain ⟨sp', hm, h'⟩ := hrest
          exact ⟨sp', List.mem_cons_of_mem _ hm, h'⟩
        rw [if_pos hrest, if_pos hyes]
        omega
      · have hno : ¬ ∃ sp' ∈ sp :: sps, sp'.a ≤ d ∧ d < sp'.b := by
          rintro ⟨sp', hm, h'⟩
          cases hm with
          | head => exact hd h'
          | tail _ hm' => exact hrest ⟨sp', hm', h'⟩
        rw [if_neg hrest, if_neg hno]
        omega

section loops
variable [Add α] [Sub α] [Mul α] [Div α] [Neg α] [ScalarFns α]

/-- invariant of the `_reshape_bottom_parameters` loop ⇒ what every column holds afterwards -/
theorem reshapeLoop_spec (nS : Nat) (top row : Nat → α) (s : Nat) :
    ∀ (sps : List Special) (cur shift : Nat) (out : Nat → α),
      WFs nS cur sps → shift ≤ cur →
      let r := reshapeLoop top row s sps cur shift out
      (r.2.2 ≤ r.2.1) ∧ (cur ≤ r.2.1) ∧
      (∀ d, r.2.1 ≤ d → r.2.2 = shift + below sps d) ∧
      (∀ sp ∈ sps, sp.b ≤ r.2.1) ∧
      -- columns below the old `current_dim` are untouched
      (∀ d, d < cur → r.1 d = out d) ∧
      -- regular columns hold the bottom-level entry of their rank
      (∀ d, cur ≤ d → d < r.2.1 → ¬ isSpecial sps d → r.1 d = row (d - (shift + below sps d))) ∧
      -- special columns hold the pooled / heterogeneous population parameter
      (∀ sp ∈ sps, ∀ d, sp.a ≤ d → d < sp.b → r.1 d = fill top s sp d)
  | [], cur, shift, out, _, hs => by
    refine ⟨hs, Nat.le_refl _, ?_, ?_, ?_, ?_, ?_⟩
    · intro d _; simp [reshapeLoop, below]
    · intro sp h; cases h
    · intro d _; rfl
    · intro d h1 h2; simp only [reshapeLoop] at h2; omega
    · intro sp h; cases h
  | sp :: sps, cur, shift, out, hwf, hs => by
    obtain ⟨h1, h2, _, h3⟩ := hwf
    have ih := reshapeLoop_spec nS top row s sps sp.b (shift + (sp.b - sp.a))
      (sliceAssign (sliceAssign out cur sp.a (fun d => row ((cur - shift) + (d - cur)))) sp.a sp.b
        (fun d => if sp.pooled then top (sp.ta + (d - sp.a))
          else top (sp.ta + s * (sp.b - sp.a) + (d - sp.a))))
      h3 (by omega)
    simp only [reshapeLoop]
    obtain ⟨i1, i2, i3, i3b, i4, i5, i6⟩ := ih
    refine ⟨i1, by omega, ?_, ?_, ?_, ?_, ?_⟩
    · intro d hd
      rw [i3 d hd]
      simp only [below]
      have : min sp.b d - min sp.a d = sp.b - sp.a := by omega
      omega
    · intro sp' hm
      cases hm with
      | head => exact i2
      | tail _ hm' => exact i3b sp' hm'
    · intro d hd
      rw [i4 d (by omega)]
      simp only [sliceAssign]
      rw [if_neg (by omega), if_neg (by omega)]
    · intro d hd1 hd2 hns
      by_cases hdb : d < sp.b
      · have hda : d < sp.a := by
          apply Nat.lt_of_not_le
          intro hc
          exact hns ⟨sp, List.mem_cons_self, hc, hdb⟩
        rw [i4 d hdb]
        simp only [sliceAssign, below]
        rw [if_neg (by omega), if_pos ⟨hd1, hda⟩]
        have hb0 : below sps d = 0 := below_of_le nS sps sp.b h3 d (by omega)
        have : min sp.b d - min sp.a d = 0 := by omega
        rw [hb0, this]
        congr 1
        omega
      · have hns' : ¬ isSpecial sps d := fun ⟨sp', hm, h⟩ => hns ⟨sp', List.mem_cons_of_mem _ hm, h⟩
        rw [i5 d (by omega) hd2 hns']
        simp only [below]
        have : min sp.b d - min sp.a d = sp.b - sp.a := by omega
        congr 1
        omega
    · intro sp' hm d hda hdb
      cases hm with
      | head =>
        rw [i4 d hdb]
        simp only [sliceAssign, fill]
        rw [if_pos ⟨hda, hdb⟩]
      | tail _ hm' => exact i6 sp' hm' d hda hdb

/-- invariant of the `_remove_duplicates` loop: which column of `bottom_sens` receives which column
    of `dbottom` -/
theorem gatherLoop_spec (nS : Nat) (D : Nat → Nat → α) :
    ∀ (sps : List Special) (cur shift : Nat) (sens : Nat → α) (bs : Nat → Nat → α),
      WFs nS cur sps → shift ≤ cur →
      let r := gatherLoop nS D sps cur shift sens bs
      (r.2.2.2 ≤ r.2.2.1) ∧ (cur ≤ r.2.2.1) ∧
      (∀ d, r.2.2.1 ≤ d → r.2.2.2 = shift + below sps d) ∧
      (∀ sp ∈ sps, sp.b ≤ r.2.2.1) ∧
      (∀ s c, c < cur - shift → r.2.1 s c = bs s c) ∧
      (∀ s d, cur ≤ d → d < r.2.2.1 → ¬ isSpecial sps d →
        r.2.1 s (d - (shift + below sps d)) = D s d)
  | [], cur, shift, sens, bs, _, hs => by
    refine ⟨hs, Nat.le_refl _, ?_, ?_, ?_, ?_⟩
    · intro d _; simp [gatherLoop, below]
    · intro sp h; cases h
    · intro s c _; rfl
    · intro s d h1 h2; simp only [gatherLoop] at h2; omega
  | sp :: sps, cur, shift, sens, bs, hwf, hs => by
    obtain ⟨h1, h2, _, h3⟩ := hwf
    simp only [gatherLoop]
    generalize hb1 : (fun s c => if cur - shift ≤ c ∧ c < sp.a - shift
      then D s (cur + (c - (cur - shift))) else bs s c) = bs1
    generalize hs1 : (fun q => if sp.ta ≤ q ∧ q < sp.tb then
        (if sp.pooled then sens q + isum nS (fun s => D s (sp.a + (q - sp.ta)))
         else sens q + D ((q - sp.ta) / (sp.b - sp.a)) (sp.a + (q - sp.ta) % (sp.b - sp.a)))
      else sens q) = sens1
    have ih := gatherLoop_spec nS D sps sp.b (shift + (sp.b - sp.a)) sens1 bs1 h3 (by omega)
    obtain ⟨i1, i2, i3, i3b, i4, i5⟩ := ih
    refine ⟨i1, by omega, ?_, ?_, ?_, ?_⟩
    · intro d hd
      rw [i3 d hd]
      simp only [below]
      have : min sp.b d - min sp.a d = sp.b - sp.a := by omega
      omega
    · intro sp' hm
      cases hm with
      | head => exact i2
      | tail _ hm' => exact i3b sp' hm'
    · intro s c hc
      rw [i4 s c (by omega), ← hb1]
      simp only
      rw [if_neg (by omega)]
    · intro s d hd1 hd2 hns
      by_cases hdb : d < sp.b
      · have hda : d < sp.a := by
          apply Nat.lt_of_not_le
          intro hc
          exact hns ⟨sp, List.mem_cons_self, hc, hdb⟩
        have hb0 : below sps d = 0 := below_of_le nS sps sp.b h3 d (by omega)
        have hcol : d - (shift + below (sp :: sps) d) = d - shift := by
          simp only [below, hb0]; omega
        rw [hcol, i4 s (d - shift) (by omega), ← hb1]
        simp only
        rw [if_pos (by omega)]
        congr 1
        omega
      · have hns' : ¬ isSpecial sps d := fun ⟨sp', hm, h⟩ => hns ⟨sp', List.mem_cons_of_mem _ hm, h⟩
        have := i5 s d (by omega) hd2 hns'
        have hcol : d - (shift + below (sp :: sps) d)
            = d - (shift + (sp.b - sp.a) + below sps d) := by
          simp only [below]; omega
        rw [hcol]
        exact this

end loops

/-- a sub-model as chi's elementary classes present themselves: at least one dimension; it has
    individual-level entries iff it is neither pooled nor heterogeneous; a pooled model has one
    parameter per dimension, a heterogeneous one `n_samples` per dimension -/
def SubModel.Sound (nS : Nat) (u : SubModel) : Prop :=
  0 < u.nDim ∧ u.hier = u.detect.isNone ∧ (u.detect = some true → u.nTop = u.nDim) ∧
    (u.detect = some false → u.nTop = nS * u.nDim)

def Cfg.Sound (c : Cfg) : Prop := ∀ u ∈ c.subs, u.Sound c.nS

theorem sumBy_cons (f : SubModel → Nat) (u : SubModel) (us : List SubModel) :
    sumBy f (u :: us) = f u + sumBy f us := by simp [sumBy]

/-- `_get_special_dims` yields well-formed blocks inside the model's dimension and parameter ranges,
    and the hierarchical dimensions are exactly the non-special ones -/
theorem specialsFrom_spec (nS : Nat) : ∀ (us : List SubModel) (d0 t0 : Nat),
    (∀ u ∈ us, u.Sound nS) →
    WFs nS d0 (specialsFrom us d0 t0) ∧
    (∀ sp ∈ specialsFrom us d0 t0, sp.b ≤ d0 + sumBy (·.nDim) us ∧ t0 ≤ sp.ta ∧
      sp.tb ≤ t0 + sumBy (·.nTop) us) ∧
    below (specialsFrom us d0 t0) (d0 + sumBy (·.nDim) us)
      + sumBy (fun u => if u.hier then u.nDim else 0) us = sumBy (·.nDim) us
  | [], d0, t0, _ => by simp [specialsFrom, WFs, below, sumBy]
  | u :: us, d0, t0, h => by
    have hu := h u List.mem_cons_self
    obtain ⟨hpos, hhier, hp, hh⟩ := hu
    have ih := specialsFrom_spec nS us (d0 + u.nDim) (t0 + u.nTop)
      (fun v hv => h v (List.mem_cons_of_mem _ hv))
    obtain ⟨i1, i2, i3⟩ := ih
    simp only [sumBy_cons]
    cases hdet : u.detect with
    | none =>
      have hh' : u.hier = true := by rw [hhier, hdet]; rfl
      simp only [specialsFrom, hdet, hh', if_true]
      refine ⟨?_, ?_, ?_⟩
      · -- WF from a later start is WF from an earlier one
        cases hsp : specialsFrom us (d0 + u.nDim) (t0 + u.nTop) with
        | nil => trivial
        | cons sp sps =>
          rw [hsp] at i1
          exact ⟨by have := i1.1; omega, i1.2⟩
      · intro sp hm
        have := i2 sp hm
        omega
      · have : d0 + (u.nDim + sumBy (·.nDim) us) = d0 + u.nDim + sumBy (·.nDim) us := by omega
        rw [this]
        omega
    | some p =>
      have hh' : u.hier = false := by rw [hhier, hdet]; rfl
      simp only [specialsFrom, hdet, hh']
      refine ⟨⟨Nat.le_refl _, by dsimp only; omega, ?_, i1⟩, ?_, ?_⟩
      · cases p with
        | true => simp [hp hdet]
        | false => simp [hh hdet]
      · intro sp hm
        cases hm with
        | head => exact ⟨by dsimp only; omega, Nat.le_refl _, by dsimp only; omega⟩
        | tail _ hm' =>
          have := i2 sp hm'
          omega
      · simp only [below]
        have e : d0 + (u.nDim + sumBy (·.nDim) us) = d0 + u.nDim + sumBy (·.nDim) us := by omega
        rw [e]
        have : min (d0 + u.nDim) (d0 + u.nDim + sumBy (·.nDim) us)
            - min d0 (d0 + u.nDim + sumBy (·.nDim) us) = u.nDim := by omega
        simp only [Bool.false_eq_true, if_false]
        omega

section more
variable [Add α] [Sub α] [Mul α] [Div α] [Neg α] [ScalarFns α]
open ScalarFns

theorem sumBy_le (f g : SubModel → Nat) (us : List SubModel) (h : ∀ u ∈ us, f u ≤ g u) :
    sumBy f us ≤ sumBy g us := by
  induction us with
  | nil => simp [sumBy]
  | cons u us ih =>
    rw [sumBy_cons, sumBy_cons]
    have := h u List.mem_cons_self
    have := ih (fun v hv => h v (List.mem_cons_of_mem _ hv))
    omega

/-- if the dimensions of one detected kind add up to all dimensions, every sub-model is of it -/
theorem all_detect (p : Bool) : ∀ (us : List SubModel),
    sumBy (fun u => if u.detect = some p then u.nDim else 0) us = sumBy (·.nDim) us →
    (∀ u ∈ us, 0 < u.nDim) → ∀ u ∈ us, u.detect = some p
  | [], _, _, u, hu => by cases hu
  | v :: us, h, hpos, u, hu => by
    rw [sumBy_cons, sumBy_cons] at h
    have hle := sumBy_le (fun u => if u.detect = some p then u.nDim else 0) (·.nDim) us
      (fun w _ => by show (if w.detect = some p then w.nDim else 0) ≤ w.nDim; split <;> omega)
    have hv : (if v.detect = some p then v.nDim else 0) ≤ v.nDim := by split <;> omega
    have hvpos := hpos v List.mem_cons_self
    cases hu with
    | head =>
      by_cases hne : v.detect = some p
      · exact hne
      · rw [if_neg hne] at h
        omega
    | tail _ hu' =>
      exact all_detect p us (by omega) (fun w hw => hpos w (List.mem_cons_of_mem _ hw)) u hu'

/-- all sub-models pooled: every block reads its own dimensions' positions, every dimension is
    special -/
theorem specials_allPooled (nS : Nat) : ∀ (us : List SubModel) (d0 t0 : Nat),
    (∀ u ∈ us, u.Sound nS ∧ u.detect = some true) →
    (∀ sp ∈ specialsFrom us d0 t0, sp.pooled = true ∧ sp.ta + d0 = sp.a + t0) ∧
    (∀ d, d0 ≤ d → d < d0 + sumBy (·.nDim) us → isSpecial (specialsFrom us d0 t0) d)
  | [], d0, t0, _ => by
    refine ⟨fun sp h => (by cases h), fun d h1 h2 => ?_⟩
    simp [sumBy] at h2; omega
  | u :: us, d0, t0, h => by
    obtain ⟨⟨hpos, _, hp, _⟩, hdet⟩ := h u List.mem_cons_self
    have ih := specials_allPooled nS us (d0 + u.nDim) (t0 + u.nTop)
      (fun v hv => h v (List.mem_cons_of_mem _ hv))
    have hnt := hp hdet
    simp only [specialsFrom, hdet, sumBy_cons]
    refine ⟨?_, ?_⟩
    · intro sp hm
      cases hm with
      | head => exact ⟨rfl, by dsimp only; omega⟩
      | tail _ hm' =>
        have := ih.1 sp hm'
        exact ⟨this.1, by omega⟩
    · intro d h1 h2
      by_cases hd : d < d0 + u.nDim
      · exact ⟨_, List.mem_cons_self, by dsimp only; omega, by dsimp only; omega⟩
      · obtain ⟨sp, hm, hsp⟩ := ih.2 d (by omega) (by omega)
        exact ⟨sp, List.mem_cons_of_mem _ hm, hsp⟩

/-- the general path of `_reshape_bottom_parameters` on individual `s` -/
def reshapeGeneral (c : Cfg) (top : Nat → α) (bottom : Nat → Nat → α) (s : Nat) : Nat → α :=
  let r := reshapeLoop top (bottom s) s c.specials 0 0 (fun _ => ofNat 0)
  sliceAssign r.1 r.2.1 c.nDim (fun d => bottom s ((r.2.1 - r.2.2) + (d - r.2.1)))

theorem reshapeGeneral_spec (c : Cfg) (hs : c.Sound) (top : Nat → α) (bottom : Nat → Nat → α)
    (s d : Nat) (hd : d < c.nDim) :
    (∀ sp ∈ c.specials, sp.a ≤ d → d < sp.b → reshapeGeneral c top bottom s d = fill top s sp d) ∧
    (¬ isSpecial c.specials d →
      reshapeGeneral c top bottom s d = bottom s (d - below c.specials d)) := by
  have hwf := (specialsFrom_spec c.nS c.subs 0 0 hs).1
  have h := reshapeLoop_spec c.nS top (bottom s) s c.specials 0 0 (fun _ => ofNat 0) hwf
    (Nat.le_refl 0)
  obtain ⟨i1, _, i3, i3b, _, i5, i6⟩ := h
  constructor
  · intro sp hm ha hb
    unfold reshapeGeneral
    simp only [sliceAssign]
    have := i3b sp hm
    rw [if_neg (by omega)]
    exact i6 sp hm d ha hb
  · intro hns
    unfold reshapeGeneral
    simp only [sliceAssign]
    by_cases hlt : d < (reshapeLoop top (bottom s) s c.specials 0 0 (fun _ => ofNat 0)).2.1
    · rw [if_neg (by omega)]
      have := i5 d (Nat.zero_le _) hlt hns
      simpa using this
    · rw [if_pos ⟨by omega, hd⟩]
      have := i3 d (by omega)
      congr 1
      omega

end more
/-! ## list lemmas for names and IDs (C13) -/

theorem replicate'_length (n : Nat) (l : List String) : (replicate' n l).length = n * l.length := by
  unfold replicate'
  induction n with
  | zero => simp
  | succ k ih => rw [List.replicate_succ, List.flatten_cons, List.length_append, ih, Nat.succ_mul]; omega

theorem replicate'_getElem? (l : List String) : ∀ (n s c : Nat), s < n → c < l.length →
    (replicate' n l)[s * l.length + c]? = l[c]?
  | 0, s, c, hs, _ => by omega
  | n + 1, s, c, hs, hc => by
    have hstep : replicate' (n + 1) l = l ++ replicate' n l := by
      simp [replicate', List.replicate_succ]
    rw [hstep]
    cases s with
    | zero => simp only [Nat.zero_mul, Nat.zero_add]; exact List.getElem?_append_left hc
    | succ s' =>
      have : (s' + 1) * l.length + c = l.length + (s' * l.length + c) := by
        rw [Nat.succ_mul]; omega
      rw [this, List.getElem?_append_right (by omega), Nat.add_sub_cancel_left]
      exact replicate'_getElem? l n s' c (by omega) hc

theorem idBlock_length (n m : Nat) :
    ((List.range n).flatMap (fun s => List.replicate m (some (s + 1)))).length = n * m := by
  induction n with
  | zero => simp
  | succ k ih =>
    rw [List.range_succ, List.flatMap_append, List.length_append, ih]
    simp [Nat.succ_mul]

theorem idBlock_getElem? (m : Nat) : ∀ (n s c : Nat), s < n → c < m →
    ((List.range n).flatMap (fun s => List.replicate m (some (s + 1))))[s * m + c]? = some (some (s + 1))
  | 0, s, c, hs, _ => by omega
  | n + 1, s, c, hs, hc => by
    rw [List.range_succ, List.flatMap_append]
    by_cases hsn : s < n
    · have hlt : s * m + c < n * m := by
        have : s * m + m ≤ n * m := by rw [← Nat.succ_mul]; exact Nat.mul_le_mul_right _ hsn
        omega
      rw [List.getElem?_append_left (by rw [idBlock_length]; exact hlt)]
      exact idBlock_getElem? m n s c hsn hc
    · have hs' : s = n := by omega
      subst hs'
      rw [List.getElem?_append_right (by rw [idBlock_length]; omega), idBlock_length]
      simp [hc]

theorem epsilonNames_length (outputs : List String) (T : Nat) :
    (epsilonNames outputs T).length = outputs.length * T := by
  unfold epsilonNames
  induction outputs with
  | nil => simp
  | cons o os ih => rw [List.flatMap_cons, List.length_append, ih]; simp [Nat.succ_mul]; omega

theorem epsilonNames_getElem? (T : Nat) : ∀ (outputs : List String) (r j : Nat),
    r < outputs.length → j < T →
    (epsilonNames outputs T)[r * T + j]?
      = (outputs[r]?).map (fun o => o ++ " Epsilon time " ++ toString (j + 1))
  | [], r, j, hr, _ => by simp at hr
  | o :: os, r, j, hr, hj => by
    unfold epsilonNames
    rw [List.flatMap_cons]
    cases r with
    | zero =>
      simp only [Nat.zero_mul, Nat.zero_add]
      rw [List.getElem?_append_left (by simpa using hj)]
      simp [hj]
    | succ r' =>
      have : (r' + 1) * T + j = T + (r' * T + j) := by rw [Nat.succ_mul]; omega
      rw [this, List.getElem?_append_right (by simp)]
      simp only [List.length_map, List.length_range, Nat.add_sub_cancel_left]
      have ih := epsilonNames_getElem? T os r' j (by simpa using hr) hj
      unfold epsilonNames at ih
      rw [ih]
      simp

theorem below_le_sub (nS : Nat) : ∀ (l : List Special) (lo d : Nat), WFs nS lo l → below l d ≤ d - lo
  | [], _, _, _ => by simp [below]
  | s2 :: l2, lo, d, hw => by
    obtain ⟨v1, v2, _, v3⟩ := hw
    have := below_le_sub nS l2 s2.b d v3
    simp only [below]
    omega

/-- mechanistic parameter names of the regular dimensions, in rank order -/
theorem bottomNamesLoop_spec (nS : Nat) (names : List String) :
    ∀ (sps : List Special) (cur : Nat), WFs nS cur sps → (∀ sp ∈ sps, sp.b ≤ names.length) →
      cur ≤ names.length →
      (bottomNamesLoop names sps cur).length = names.length - cur - below sps names.length ∧
      ∀ d, cur ≤ d → d < names.length → ¬ isSpecial sps d →
        (bottomNamesLoop names sps cur)[d - cur - below sps d]? = names[d]?
  | [], cur, _, _, hc => by
    refine ⟨by simp [bottomNamesLoop, below], fun d h1 h2 _ => ?_⟩
    simp only [bottomNamesLoop, below, Nat.sub_zero, List.getElem?_drop]
    congr 1; omega
  | sp :: sps, cur, hwf, hb, hc => by
    obtain ⟨h1, h2, _, h3⟩ := hwf
    have hbl := hb sp List.mem_cons_self
    have ih := bottomNamesLoop_spec nS names sps sp.b h3
      (fun sp' hm => hb sp' (List.mem_cons_of_mem _ hm)) hbl
    have hlen1 : ((names.drop cur).take (sp.a - cur)).length = sp.a - cur := by
      rw [List.length_take, List.length_drop]; omega
    simp only [bottomNamesLoop]
    refine ⟨?_, fun d hd1 hd2 hns => ?_⟩
    · rw [List.length_append, hlen1, ih.1]
      simp only [below]
      have : min sp.b names.length - min sp.a names.length = sp.b - sp.a := by omega
      have hbe := below_le_sub nS sps sp.b names.length h3
      omega
    · by_cases hdb : d < sp.b
      · have hda : d < sp.a := by
          apply Nat.lt_of_not_le
          intro hcn
          exact hns ⟨sp, List.mem_cons_self, hcn, hdb⟩
        have hb0 : below sps d = 0 := below_of_le nS sps sp.b h3 d (by omega)
        have hidx : d - cur - below (sp :: sps) d = d - cur := by
          simp only [below, hb0]; omega
        rw [hidx, List.getElem?_append_left (by rw [hlen1]; omega), List.getElem?_take_of_lt (by omega),
          List.getElem?_drop]
        congr 1; omega
      · have hns' : ¬ isSpecial sps d := fun ⟨sp', hm, h⟩ => hns ⟨sp', List.mem_cons_of_mem _ hm, h⟩
        have hidx : d - cur - below (sp :: sps) d = (sp.a - cur) + (d - sp.b - below sps d) := by
          simp only [below]
          have : below sps d ≤ d - sp.b := below_le_sub nS sps sp.b d h3
          omega
        rw [hidx, List.getElem?_append_right (by rw [hlen1]; omega), hlen1, Nat.add_sub_cancel_left]
        exact ih.2 d (by omega) hd2 hns'

end FP
end ChiModel
