import ChiProofs.Lemmas.PopBasics
import ChiProofs.Lemmas.PopLists

/-! lemmas about the composed model's loops (C05): loop with running offsets = fold over parts -/
set_option linter.unusedSectionVars false
namespace ChiModel
open ScalarFns

section generic
variable {α : Type} [Add α] [Sub α] [Mul α] [Div α] [Neg α] [ScalarFns α] [HasErf α]

/-- part `k` of the list `ss` when the loop has already advanced to `(curDim, curParam, curCov)` -/
def partLLFrom (nIds : Nat) (params : Nat → α) (obs cov : Nat → Nat → α) (curDim curParam curCov : Nat)
    (ss : List SubModel) (k : Nat) : Score α :=
  match ss[k]? with
  | none => Score.zero
  | some s => popLL s.kind nIds s.nDim
      (pcSubTh nIds s params (curParam + paramOff nIds ss k) cov (curCov + pcCovOff ss k))
      (sliceObs obs (curDim + pcDimOff ss k))

theorem composedLLGo_eq (nIds : Nat) (params : Nat → α) (obs cov : Nat → Nat → α)
    (ss : List SubModel) :
    ∀ (curDim curParam curCov : Nat) (acc : Score α),
      composedLLGo nIds params obs cov ss curDim curParam curCov acc
        = (List.range ss.length).foldl
            (fun a k => Score.add a (partLLFrom nIds params obs cov curDim curParam curCov ss k)) acc := by
  induction ss with
  | nil => intro _ _ _ _; simp [composedLLGo]
  | cons s ss ih =>
    intro curDim curParam curCov acc
    rw [composedLLGo, ih, List.length_cons, List.range_succ_eq_map, List.foldl_cons, List.foldl_map]
    have h0 : partLLFrom nIds params obs cov curDim curParam curCov (s :: ss) 0
        = popLL s.kind nIds s.nDim (pcSubTh nIds s params curParam cov curCov) (sliceObs obs curDim) := by
      simp [partLLFrom, paramOff, pcDimOff, pcCovOff]
    have hk : ∀ k, partLLFrom nIds params obs cov curDim curParam curCov (s :: ss) (k + 1)
        = partLLFrom nIds params obs cov (curDim + s.nDim) (curParam + s.nTop nIds)
            (curCov + s.nCov) ss k := by
      intro k
      simp [partLLFrom, paramOff, pcDimOff, pcCovOff, Nat.add_assoc]
    rw [h0]
    simp only [hk]

end generic


theorem popLL_ne_undefined (k : Kind) (nIds nDim : Nat) (th : Nat → Nat → Nat → ℝ)
    (eta : Nat → Nat → ℝ) : popLL k nIds nDim th eta ≠ .undefined := by
  unfold popLL
  cases k with
  | gauss c => cases c <;> simp; split <;> simp
  | logn c => cases c <;> simp; split <;> simp
  | trunc => simp; split <;> simp
  | pooled => simp; split <;> simp
  | hetero => simp; split <;> simp

theorem foldl_add_val (n : Nat) (p : Nat → Score ℝ) (v : Nat → ℝ) (a : ℝ)
    (h : ∀ k, k < n → p k = .val (v k)) :
    (List.range n).foldl (fun acc k => Score.add acc (p k)) (.val a) = .val (a + isum n v) := by
  induction n with
  | zero => simp [isum_eq]
  | succ m ih =>
    rw [List.range_succ, List.foldl_append, ih (fun k hk => h k (Nat.lt_succ_of_lt hk))]
    simp only [List.foldl_cons, List.foldl_nil, h m (Nat.lt_succ_self m), Score.add, isum_eq,
      Finset.sum_range_succ]
    congr 1
    ring

theorem foldl_add_negInf (n : Nat) (p : Nat → Score ℝ) (hu : ∀ k, k < n → p k ≠ .undefined) :
    (List.range n).foldl (fun acc k => Score.add acc (p k)) .negInf = .negInf := by
  induction n with
  | zero => simp
  | succ m ih =>
    rw [List.range_succ, List.foldl_append, ih (fun k hk => hu k (Nat.lt_succ_of_lt hk))]
    simp only [List.foldl_cons, List.foldl_nil]
    have := hu m (Nat.lt_succ_self m)
    cases hp : p m <;> simp_all [Score.add]

theorem foldl_add_hits_negInf (n : Nat) (p : Nat → Score ℝ) (hu : ∀ k, k < n → p k ≠ .undefined)
    (a : Score ℝ) (ha : a ≠ .undefined) (j : Nat) (hj : j < n) (hp : p j = .negInf) :
    (List.range n).foldl (fun acc k => Score.add acc (p k)) a = .negInf := by
  induction n with
  | zero => omega
  | succ m ih =>
    rw [List.range_succ, List.foldl_append]
    simp only [List.foldl_cons, List.foldl_nil]
    by_cases hjm : j < m
    · rw [ih (fun k hk => hu k (Nat.lt_succ_of_lt hk)) hjm]
      have := hu m (Nat.lt_succ_self m)
      cases hpm : p m <;> simp_all [Score.add]
    · have : j = m := by omega
      subst this
      rw [hp]
      -- the accumulated value is not undefined
      have hacc : ∀ (q : Nat), q ≤ j →
          (List.range q).foldl (fun acc k => Score.add acc (p k)) a ≠ .undefined := by
        intro q
        induction q with
        | zero => intro _; simpa using ha
        | succ r ihr =>
          intro hr
          rw [List.range_succ, List.foldl_append]
          simp only [List.foldl_cons, List.foldl_nil]
          have h1 := ihr (by omega)
          have h2 := hu r (by omega)
          cases hx : (List.range r).foldl (fun acc k => Score.add acc (p k)) a <;>
            cases hy : p r <;> simp_all [Score.add]
      have := hacc j (le_refl j)
      cases hx : (List.range j).foldl (fun acc k => Score.add acc (p k)) a <;> simp_all [Score.add]


section generic2
variable {α : Type} [Add α] [Sub α] [Mul α] [Div α] [Neg α] [ScalarFns α] [HasErf α]

/-- sub-model `k` with its sensitivities evaluated on its own block (offsets = sizes of the parts
    before it) and its own covariate columns, seen from a loop that has advanced to
    `(curDim, curParam, curCov)` -/
def partSensFrom (nIds : Nat) (params : Nat → α) (obs cov : Nat → Nat → α)
    (up : Option (Nat → Nat → α)) (curDim curParam curCov : Nat) (ss : List SubModel) (k : Nat) :
    Option (SubModel × SensOut α × (Nat → Nat → α)) :=
  ss[k]?.map (fun s => (s, popSens s.kind nIds s.nDim
    (pcSubTh nIds s params (curParam + paramOff nIds ss k) cov (curCov + pcCovOff ss k))
    (sliceObs obs (curDim + pcDimOff ss k)) (sliceUp up (curDim + pcDimOff ss k)),
    sliceCov cov (curCov + pcCovOff ss k)))

def partSens (nIds : Nat) (subs : List SubModel) (params : Nat → α) (obs cov : Nat → Nat → α)
    (up : Option (Nat → Nat → α)) (k : Nat) : Option (SubModel × SensOut α × (Nat → Nat → α)) :=
  partSensFrom nIds params obs cov up 0 0 0 subs k

/-- what one part contributes to the separate form -/
def sepStep (nIds : Nat) (acc : CompSens α) :
    Option (SubModel × SensOut α × (Nat → Nat → α)) → CompSens α
  | none => acc
  | some (s, so, cv) =>
    ⟨Score.add acc.score so.score, acc.defined && so.defined,
     acc.cols ++ (List.range s.nDim).map (fun d => fun i => so.dpsi i d),
     acc.dtheta ++ subFlattened nIds s so cv⟩

/-- what one part contributes to the hierarchical form: its bottom block (if it has one) to the
    individual-level columns, the rest of its `reduce` vector to the top block -/
def redStep (nIds : Nat) (acc : CompRed α) :
    Option (SubModel × SensOut α × (Nat → Nat → α)) → CompRed α
  | none => acc
  | some (s, so, cv) =>
    let ds := subReduce nIds s so cv
    let nb := (s.nHierP nIds).1
    ⟨Score.add acc.score so.score, acc.defined && so.defined,
     acc.hcols ++ (if nb > 0 then (List.range s.nDim).map (fun d => fun i => ds.getD (i * s.nDim + d) zero)
       else []),
     acc.tops ++ ds.drop nb⟩

theorem partSensFrom_succ (nIds : Nat) (params : Nat → α) (obs cov : Nat → Nat → α)
    (up : Option (Nat → Nat → α)) (curDim curParam curCov : Nat) (s : SubModel) (ss : List SubModel)
    (k : Nat) :
    partSensFrom nIds params obs cov up curDim curParam curCov (s :: ss) (k + 1)
      = partSensFrom nIds params obs cov up (curDim + s.nDim) (curParam + s.nTop nIds)
          (curCov + s.nCov) ss k := by
  simp [partSensFrom, paramOff, pcDimOff, pcCovOff, Nat.add_assoc]

theorem partSensFrom_zero (nIds : Nat) (params : Nat → α) (obs cov : Nat → Nat → α)
    (up : Option (Nat → Nat → α)) (curDim curParam curCov : Nat) (s : SubModel) (ss : List SubModel) :
    partSensFrom nIds params obs cov up curDim curParam curCov (s :: ss) 0
      = some (s, popSens s.kind nIds s.nDim (pcSubTh nIds s params curParam cov curCov)
          (sliceObs obs curDim) (sliceUp up curDim), sliceCov cov curCov) := by
  simp [partSensFrom, paramOff, pcDimOff, pcCovOff]

theorem composedSensGo_eq (nIds : Nat) (params : Nat → α) (obs cov : Nat → Nat → α)
    (up : Option (Nat → Nat → α)) (ss : List SubModel) :
    ∀ (curDim curParam curCov : Nat) (acc : CompSens α),
      composedSensGo nIds params obs cov up ss curDim curParam curCov acc
        = (List.range ss.length).foldl
            (fun a k => sepStep nIds a
              (partSensFrom nIds params obs cov up curDim curParam curCov ss k)) acc := by
  induction ss with
  | nil => intro _ _ _ _; simp [composedSensGo]
  | cons s ss ih =>
    intro curDim curParam curCov acc
    rw [composedSensGo, ih, List.length_cons, List.range_succ_eq_map, List.foldl_cons, List.foldl_map]
    simp only [partSensFrom_succ, partSensFrom_zero, sepStep]

theorem composedRedGo_eq (nIds : Nat) (params : Nat → α) (obs cov : Nat → Nat → α)
    (up : Option (Nat → Nat → α)) (ss : List SubModel) :
    ∀ (curDim curTop curCov : Nat) (acc : CompRed α),
      composedRedGo nIds params obs cov up ss curDim curTop curCov acc
        = (List.range ss.length).foldl
            (fun a k => redStep nIds a
              (partSensFrom nIds params obs cov up curDim curTop curCov ss k)) acc := by
  induction ss with
  | nil => intro _ _ _ _; simp [composedRedGo]
  | cons s ss ih =>
    intro curDim curTop curCov acc
    rw [composedRedGo, ih, List.length_cons, List.range_succ_eq_map, List.foldl_cons, List.foldl_map]
    simp only [partSensFrom_succ, partSensFrom_zero, redStep, SubModel.nHierP]

theorem shape_lengths (k : Kind) (nIds nDim : Nat) (s : SensOut α) :
    (shapeReduce k nIds nDim s).length
      = (k.nHierParams nIds nDim).1 + (k.nHierParams nIds nDim).2
    ∧ (shapeFlattened k nIds nDim s).length = k.nParams nIds nDim := by
  constructor
  · cases k <;>
      simp [shapeReduce, flatPsi, flatTheta, Kind.nHierParams, Kind.nParams,
        Kind.perDim, Kind.hierarchical] <;> omega
  · cases k <;>
      simp [shapeFlattened, flatTheta, Kind.nParams, Kind.perDim] <;> omega

/-- `hstack(dpop, dcov)` has `n_pop + n_selected · n_cov` entries -/
theorem covSens_length (c : CovCfg) (nIds : Nat) (g : Nat → Nat → Nat → α) (cov : Nat → Nat → α) :
    (covSens c nIds g cov).length = c.perDim * c.nDim + c.sel.length * c.nCov := by
  unfold covSens
  rw [List.length_append, length_flatMap_range, length_flatMap_range]

/-- lengths of what a sub-model (bare or covariate-wrapped) hands to the composed model -/
theorem sub_lengths (nIds : Nat) (s : SubModel) (so : SensOut α) (cv : Nat → Nat → α) :
    (subReduce nIds s so cv).length = (s.nHierP nIds).1 + (s.nHierP nIds).2
    ∧ (subFlattened nIds s so cv).length = s.nTop nIds := by
  have hmul : s.sel.length * s.nCov = s.nCov * s.sel.length := Nat.mul_comm _ _
  constructor
  · unfold subReduce SubModel.nHierP SubModel.nTop SubModel.nPop
    by_cases h0 : s.nCov = 0
    · rw [if_pos h0, (shape_lengths s.kind nIds s.nDim so).1]
      simp [Kind.nHierParams, Kind.nParams, h0]
    · rw [if_neg h0]
      by_cases hh : s.kind.hierarchical = true
      · rw [if_pos hh]
        simp only [List.length_append, covSens_length, SubModel.cfg, hh, if_true, hmul]
        simp [flatPsi]
      · rw [if_neg hh]
        simp only [covSens_length, SubModel.cfg, hh, hmul]
        simp
  · unfold subFlattened SubModel.nTop SubModel.nPop
    by_cases h0 : s.nCov = 0
    · rw [if_pos h0, (shape_lengths s.kind nIds s.nDim so).2]
      simp [Kind.nParams, h0]
    · rw [if_neg h0, covSens_length]
      simp [SubModel.cfg, hmul]

theorem length_flatMap_cols (n : Nat) (cols : List (Nat → α)) :
    ((List.range n).flatMap (fun i => cols.map (fun c => c i))).length = n * cols.length := by
  induction n with
  | zero => simp
  | succ k ih =>
    rw [List.range_succ, List.flatMap_append, List.length_append, ih]
    simp
    ring

theorem composedRedGo_length (nIds : Nat) (params : Nat → α) (obs cov : Nat → Nat → α)
    (up : Option (Nat → Nat → α)) (ss : List SubModel) :
    ∀ (curDim curTop curCov : Nat) (acc : CompRed α),
      nIds * (composedRedGo nIds params obs cov up ss curDim curTop curCov acc).hcols.length
        + (composedRedGo nIds params obs cov up ss curDim curTop curCov acc).tops.length
      = nIds * acc.hcols.length + acc.tops.length
        + ((composedNHier nIds ss).1 + (composedNHier nIds ss).2) := by
  induction ss with
  | nil => intro _ _ _ _; simp [composedRedGo, composedNHier]
  | cons s ss ih =>
    intro curDim curTop curCov acc
    rw [composedRedGo, ih]
    simp only [composedNHier, List.length_append, List.length_drop]
    have hl := (sub_lengths nIds s (popSens s.kind nIds s.nDim
      (pcSubTh nIds s params curTop cov curCov) (sliceObs obs curDim) (sliceUp up curDim))
      (sliceCov cov curCov)).1
    rw [hl]
    have hnb : nIds * (if (s.nHierP nIds).1 > 0
        then (List.range s.nDim).map (fun d => fun i =>
          (subReduce nIds s (popSens s.kind nIds s.nDim (pcSubTh nIds s params curTop cov curCov)
            (sliceObs obs curDim) (sliceUp up curDim)) (sliceCov cov curCov)).getD (i * s.nDim + d) zero)
        else ([] : List (Nat → α))).length = (s.nHierP nIds).1 := by
      by_cases h : (s.nHierP nIds).1 > 0
      · rw [if_pos h]
        simp only [List.length_map, List.length_range]
        unfold SubModel.nHierP at h ⊢
        by_cases hh : s.kind.hierarchical = true
        · simp [hh]
        · simp [hh] at h
      · rw [if_neg h]
        simp only [List.length_nil, Nat.mul_zero]
        omega
    rw [Nat.mul_add, hnb]
    omega

theorem composedSensGo_length (nIds : Nat) (params : Nat → α) (obs cov : Nat → Nat → α)
    (up : Option (Nat → Nat → α)) (ss : List SubModel) :
    ∀ (curDim curParam curCov : Nat) (acc : CompSens α),
      (composedSensGo nIds params obs cov up ss curDim curParam curCov acc).dtheta.length
        = acc.dtheta.length + composedNParams nIds ss
      ∧ (composedSensGo nIds params obs cov up ss curDim curParam curCov acc).cols.length
        = acc.cols.length + composedNDim ss := by
  induction ss with
  | nil => intro _ _ _ _; simp [composedSensGo, composedNParams, composedNDim]
  | cons s ss ih =>
    intro curDim curParam curCov acc
    rw [composedSensGo]
    have hf := (sub_lengths nIds s (popSens s.kind nIds s.nDim
      (pcSubTh nIds s params curParam cov curCov) (sliceObs obs curDim) (sliceUp up curDim))
      (sliceCov cov curCov)).2
    have hi := ih (curDim + s.nDim) (curParam + s.nTop nIds) (curCov + s.nCov)
    constructor
    · rw [(hi _).1]
      simp only [List.length_append, hf, composedNParams, List.map_cons, List.sum_cons]
      omega
    · rw [(hi _).2]
      simp only [List.length_append, List.length_map, List.length_range, composedNDim,
        List.map_cons, List.sum_cons]
      omega

end generic2

end ChiModel
