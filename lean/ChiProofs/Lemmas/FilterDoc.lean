import ChiProofs.Lemmas.FilterCalc
import ChiProofs.Props.C04
import Mathlib.Analysis.SpecialFunctions.Pow.Real
/-! # Links between the filter terms and the documented densities (C12); helper lemmas only -/
set_option linter.unusedSectionVars false
set_option linter.unusedSimpArgs false
set_option linter.unusedVariables false
namespace ChiModel
namespace PF
open ScalarFns Finset ProbabilityTheory

/-- `N(x | mu, var)`: Mathlib's Gaussian density with variance `var` -/
noncomputable def normalPDF (mu var x : ℝ) : ℝ := gaussianPDFReal mu (Real.toNNReal var) x

theorem sqrt_eq_exp_half_log (a : ℝ) (ha : 0 < a) : Real.sqrt a = Real.exp (Real.log a / 2) := by
  rw [← Real.log_sqrt ha.le, Real.exp_log (Real.sqrt_pos.mpr ha)]

/-- the Gaussian density is `exp (gscore - log(2π)/2)` -/
theorem normalPDF_eq (mu var x : ℝ) (hv : 0 < var) :
    normalPDF mu var x = Real.exp (gscore mu var x - Real.log (2 * Real.pi) / 2) := by
  unfold normalPDF gaussianPDFReal gscore
  rw [Real.coe_toNNReal _ hv.le]
  have h2pi : (0:ℝ) < 2 * Real.pi := by positivity
  rw [sqrt_eq_exp_half_log _ (by positivity), ← Real.exp_neg, ← Real.exp_add,
    Real.log_mul h2pi.ne' hv.ne']
  congr 1
  field_simp
  ring

theorem normalPDF_pos (mu var x : ℝ) (hv : 0 < var) : 0 < normalPDF mu var x := by
  rw [normalPDF_eq mu var x hv]; exact Real.exp_pos _

/-- the executable `npdf` is the same density -/
theorem npdf_eq (mu var x : ℝ) (hv : 0 < var) : npdf mu var x = normalPDF mu var x := by
  unfold npdf normalPDF gaussianPDFReal
  simp only [exp_real, sqrt_real, two_real, pi_real]
  rw [Real.coe_toNNReal _ hv.le, div_eq_inv_mul]
  congr 2
  ring

/-! ### bandwidth -/

theorem kdeFactor_eq (n : Nat) (hn : 0 < n) :
    (kdeFactor n : ℝ) = ((4 / (3 * (n:ℝ))) ^ ((1:ℝ) / 5)) ^ 2 := by
  have hc : (0:ℝ) < 4 / (3 * (n:ℝ)) := by
    have : (0:ℝ) < n := by exact_mod_cast hn
    positivity
  unfold kdeFactor
  simp only [exp_real, log_real, ofNat_real]
  rw [Real.rpow_def_of_pos hc, ← Real.exp_nat_mul]
  congr 1
  have : (4:ℝ) / 3 / (n:ℝ) = 4 / (3 * (n:ℝ)) := by rw [div_div]
  push_cast
  rw [this]
  ring

/-- chi's `bw_squared` is the square of the documented rule-of-thumb bandwidth -/
theorem kdeBw2_eq (n : Nat) (hn : 0 < n) (y : Nat → ℝ) (hv : 0 ≤ varI n y) :
    kdeBw2 n y = ((4 / (3 * (n:ℝ))) ^ ((1:ℝ) / 5) * Real.sqrt (varI n y)) ^ 2 := by
  unfold kdeBw2
  rw [mul_pow, Real.sq_sqrt hv, kdeFactor_eq n hn]

theorem bwDoc_eq (n : Nat) (hn : 0 < n) (var : ℝ) :
    bwDoc n var = (4 / (3 * (n:ℝ))) ^ ((1:ℝ) / 5) * Real.sqrt var := by
  have hc : (0:ℝ) < 4 / (3 * (n:ℝ)) := by
    have : (0:ℝ) < n := by exact_mod_cast hn
    positivity
  unfold bwDoc
  simp only [exp_real, log_real, ofNat_real, oneS_real, sqrt_real]
  rw [Real.rpow_def_of_pos hc]
  congr 2
  push_cast
  ring

theorem bwDoc_sq (n : Nat) (hn : 0 < n) (y : Nat → ℝ) (hv : 0 ≤ varI n y) :
    bwDoc n (varI n y) * bwDoc n (varI n y) = kdeBw2 n y := by
  rw [kdeBw2_eq n hn y hv, bwDoc_eq n hn, sq]

/-! ### per-measurement terms are the logarithms of the documented densities -/

theorem gauss_term_doc (mu var v : ℝ) (hv : 0 < var) :
    gscore mu var v - Real.log (2 * Real.pi) / 2 = Real.log (normalPDF mu var v) := by
  rw [normalPDF_eq mu var v hv, Real.log_exp]

theorem kdeScore_eq (bw2 : ℝ) (y : Nat → ℝ) (v : ℝ) (s : Nat) :
    kdeScore bw2 y v s = gscore (y s) bw2 v + Real.log bw2 / 2 := by
  unfold kdeScore gscore
  simp only [two_real]
  ring

theorem kde_term_doc (n : Nat) (hn : 0 < n) (y : Nat → ℝ) (v : ℝ) (hv : 0 < varI n y) :
    kdeTerm n y v
      = Real.log ((∑ s ∈ range n, normalPDF (y s) (kdeBw2 n y) v) / n) := by
  have hb : 0 < kdeBw2 n y := mul_pos (kdeFactor_pos n) hv
  have hn' : (0:ℝ) < n := by exact_mod_cast hn
  unfold kdeTerm
  simp only [log_real, two_real, pi_real, ofNat_real]
  rw [lse_eq n hn]
  have hsum : ∑ s ∈ range n, normalPDF (y s) (kdeBw2 n y) v
      = Real.exp (-(Real.log (kdeBw2 n y) / 2) - Real.log (2 * Real.pi) / 2)
        * ∑ s ∈ range n, Real.exp (kdeScore (kdeBw2 n y) y v s) := by
    rw [Finset.mul_sum]
    refine Finset.sum_congr rfl fun s _ => ?_
    rw [normalPDF_eq _ _ _ hb, ← Real.exp_add, kdeScore_eq]
    congr 1; ring
  rw [hsum, Real.log_div (mul_pos (Real.exp_pos _) (sum_exp_pos n hn _)).ne' hn'.ne',
    Real.log_mul (Real.exp_pos _).ne' (sum_exp_pos n hn _).ne', Real.log_exp]
  ring

theorem mix_term_doc (K p : Nat) (hK : 0 < K) (y : Nat → ℝ) (v : ℝ)
    (hv : ∀ k, k < K → 0 < varI p (blk p k y)) :
    mixTerm K p y v
      = Real.log (∑ k ∈ range K,
          normalPDF (meanI p (blk p k y)) (varI p (blk p k y)) v / K) := by
  have hK' : (0:ℝ) < K := by exact_mod_cast hK
  unfold mixTerm
  simp only [log_real, two_real, pi_real, ofNat_real]
  rw [lse_eq K hK]
  have hsum : ∑ k ∈ range K, normalPDF (meanI p (blk p k y)) (varI p (blk p k y)) v / K
      = Real.exp (-(Real.log (2 * Real.pi) / 2)) * (∑ k ∈ range K, Real.exp (mixScore p y v k)) / K := by
    rw [Finset.mul_sum, Finset.sum_div]
    refine Finset.sum_congr rfl fun k hk => ?_
    rw [normalPDF_eq _ _ _ (hv k (mem_range.mp hk)), ← Real.exp_add, mixScore_eq]
    congr 2; ring
  rw [hsum, Real.log_div (mul_pos (Real.exp_pos _) (sum_exp_pos K hK _)).ne' hK'.ne',
    Real.log_mul (Real.exp_pos _).ne' (sum_exp_pos K hK _).ne', Real.log_exp]
  ring

/-- log-normal density with log-scale variance `var` (C04's `logNormalPDF`) -/
noncomputable def logNormalPDFv (mu var x : ℝ) : ℝ := logNormalPDF mu (Real.toNNReal var) x

theorem logNormalPDFv_eq (mu var x : ℝ) : logNormalPDFv mu var x = normalPDF mu var (Real.log x) / x := rfl

theorem ln_term_doc (mu var v : ℝ) (hv : 0 < var) (hx : 0 < v) :
    gscore mu var (Real.log v) - Real.log (2 * Real.pi) / 2 - Real.log v
      = Real.log (logNormalPDFv mu var v) := by
  rw [logNormalPDFv_eq, Real.log_div (normalPDF_pos _ _ _ hv).ne' hx.ne', gauss_term_doc _ _ _ hv]

theorem lnkde_term_doc (n : Nat) (hn : 0 < n) (y : Nat → ℝ) (v : ℝ) (hv : 0 < varI n (logv y))
    (hx : 0 < v) :
    kdeTerm n (logv y) (Real.log v)
      = Real.log ((∑ s ∈ range n, logNormalPDFv (Real.log (y s)) (kdeBw2 n (logv y)) v) / n)
        + Real.log v := by
  have hn' : (0:ℝ) < n := by exact_mod_cast hn
  have hb : 0 < kdeBw2 n (logv y) := mul_pos (kdeFactor_pos n) hv
  rw [kde_term_doc n hn (logv y) _ hv]
  have hpos : 0 < ∑ s ∈ range n, normalPDF (logv y s) (kdeBw2 n (logv y)) (Real.log v) :=
    Finset.sum_pos (fun s _ => normalPDF_pos _ _ _ hb) ⟨0, mem_range.mpr hn⟩
  have : (∑ s ∈ range n, logNormalPDFv (Real.log (y s)) (kdeBw2 n (logv y)) v) / n
      = (∑ s ∈ range n, normalPDF (logv y s) (kdeBw2 n (logv y)) (Real.log v)) / n / v := by
    simp only [logNormalPDFv_eq, ← Finset.sum_div, logv, log_real]
    ring
  rw [this, Real.log_div (div_pos hpos hn').ne' hx.ne']
  ring

end PF
end ChiModel
