import ChiProofs.Lemmas.MechConfigSim
import ChiModel.MechCanonical
/-!
# C11 lemmas, part 4: the canonical calls reach the configuration (`canonical_reaches`).  The core is
`renameM_reconstruct`: one `set_*_names` call with the non-default entries of a dictionary rebuilds it from
the default one (also when the iteration list repeats keys, as `set_output_names` does for duplicated outputs).
-/
set_option linter.unusedSectionVars false
set_option linter.unusedSimpArgs false
namespace ChiModel.MechConfig
variable (b : Base)

/-- `target` with the entries of the keys in `done` already renamed, the others still default -/
def partialMap (target : List (String × String)) (done : List String) : List (String × String) :=
  target.map (fun p => if p.1 ∈ done then p else (p.1, p.1))

theorem partialMap_nil (target : List (String × String)) :
    partialMap target [] = idMap (target.map Prod.fst) := by
  unfold partialMap idMap; rw [List.map_map]; apply List.map_congr_left; intro p _; simp

theorem partialMap_all (target : List (String × String)) (done : List String)
    (h : ∀ p ∈ target, p.1 ∈ done) : partialMap target done = target := by
  unfold partialMap
  conv_rhs => rw [← List.map_id target]
  apply List.map_congr_left
  intro p hp; simp [h p hp]

theorem map_fst_partialMap (target done) : (partialMap target done).map Prod.fst = target.map Prod.fst := by
  unfold partialMap; rw [List.map_map]; apply List.map_congr_left; intro p _; simp; split_ifs <;> rfl

theorem lookup_partialMap (target : List (String × String)) (done : List String)
    (hn : (target.map Prod.fst).Nodup) (p : String × String) (hp : p ∈ target) :
    (partialMap target done).lookup p.1 = some (if p.1 ∈ done then p.2 else p.1) := by
  have hmem : (if p.1 ∈ done then p else (p.1, p.1)) ∈ partialMap target done :=
    List.mem_map.mpr ⟨p, hp, rfl⟩
  have := lookup_of_nodup (partialMap target done) (by rw [map_fst_partialMap]; exact hn) _ hmem
  split_ifs at this ⊢ <;> simpa using this

theorem lookup_renamePairs_none (target : List (String × String)) (x : String)
    (hx : x ∉ target.map Prod.fst) : (renamePairs target).lookup x = none := by
  induction target with
  | nil => rfl
  | cons q t ih =>
    simp only [List.map_cons, List.mem_cons, not_or] at hx
    unfold renamePairs at ih ⊢
    by_cases hq : q.1 ≠ q.2
    · rw [List.filter_cons_of_pos (by simpa using hq), List.lookup_cons]
      have : (x == q.1) = false := by simpa using hx.1
      rw [this]; exact ih hx.2
    · rw [List.filter_cons_of_neg (by simpa using hq)]; exact ih hx.2

theorem lookup_renamePairs (target : List (String × String)) (hn : (target.map Prod.fst).Nodup)
    (p : String × String) (hp : p ∈ target) :
    (renamePairs target).lookup p.1 = if p.1 ≠ p.2 then some p.2 else none := by
  induction target with
  | nil => simp at hp
  | cons q t ih =>
    simp only [List.map_cons, List.nodup_cons] at hn
    rcases List.mem_cons.mp hp with h | h
    · subst h
      by_cases hne : p.1 ≠ p.2
      · rw [if_pos hne]
        unfold renamePairs
        rw [List.filter_cons_of_pos (by simpa using hne), List.lookup_cons]
        simp
      · rw [if_neg hne]
        have : renamePairs (p :: t) = renamePairs t := by
          unfold renamePairs; rw [List.filter_cons_of_neg (by simpa using hne)]
        rw [this]
        exact lookup_renamePairs_none t p.1 hn.1
    · have hne : p.1 ≠ q.1 := by
        intro he; apply hn.1; rw [← he]; exact List.mem_map_of_mem (f := Prod.fst) h
      have ih' := ih hn.2 h
      by_cases hq : q.1 ≠ q.2
      · have : renamePairs (q :: t) = q :: renamePairs t := by
          unfold renamePairs; rw [List.filter_cons_of_pos (by simpa using hq)]
        rw [this, List.lookup_cons]
        have : (p.1 == q.1) = false := by simpa using hne
        rw [this]; exact ih'
      · have : renamePairs (q :: t) = renamePairs t := by
          unfold renamePairs; rw [List.filter_cons_of_neg (by simpa using hq)]
        rw [this]; exact ih'


theorem partialMap_congr (target : List (String × String)) (d1 d2 : List String)
    (h : ∀ p ∈ target, (p.1 ∈ d1 ↔ p.1 ∈ d2)) : partialMap target d1 = partialMap target d2 := by
  unfold partialMap
  apply List.map_congr_left
  intro p hp
  by_cases h1 : p.1 ∈ d1
  · simp [h1, (h p hp).mp h1]
  · have : p.1 ∉ d2 := fun h2 => h1 ((h p hp).mpr h2)
    simp [h1, this]

theorem setKey_partialMap (target : List (String × String)) (done : List String)
    (hn : (target.map Prod.fst).Nodup) (p : String × String) (hp : p ∈ target) (hnd : p.1 ∉ done) :
    setKey p.1 p.2 (partialMap target done) = partialMap target (p.1 :: done) := by
  induction target with
  | nil => simp at hp
  | cons q t ih =>
    simp only [List.map_cons, List.nodup_cons] at hn
    by_cases hq : q.1 = p.1
    · -- then q = p
      have hqp : q = p := by
        rcases List.mem_cons.mp hp with h | h
        · exact h.symm
        · exfalso; apply hn.1; rw [hq]; exact List.mem_map_of_mem (f := Prod.fst) h
      subst hqp
      have hrest : partialMap t (q.1 :: done) = partialMap t done := by
        apply partialMap_congr
        intro r hr
        have : r.1 ≠ q.1 := by
          intro he; apply hn.1; rw [← he]; exact List.mem_map_of_mem (f := Prod.fst) hr
        simp [this]
      show setKey q.1 q.2 ((if q.1 ∈ done then q else (q.1, q.1)) :: partialMap t done)
        = (if q.1 ∈ q.1 :: done then q else (q.1, q.1)) :: partialMap t (q.1 :: done)
      rw [hrest]
      simp [hnd, setKey]
    · have hp' : p ∈ t := by
        rcases List.mem_cons.mp hp with h | h
        · exact absurd (by rw [h]) hq
        · exact h
      have ih' := ih hn.2 hp'
      show setKey p.1 p.2 ((if q.1 ∈ done then q else (q.1, q.1)) :: partialMap t done)
        = (if q.1 ∈ p.1 :: done then q else (q.1, q.1)) :: partialMap t (p.1 :: done)
      rw [← ih']
      by_cases hqd : q.1 ∈ done
      · simp [hqd, setKey, hq]
      · simp [hqd, setKey, hq]

/-- iterating `set_*_names` with the non-default entries of `target` over any list of its keys turns the
default dictionary into `target` on those keys -/
theorem renameLoop_partial (target : List (String × String)) (hn : (target.map Prod.fst).Nodup)
    (hfresh : ∀ p ∈ target, p.1 ≠ p.2 → p.2 ∉ target.map Prod.fst) :
    ∀ (l : List String) (done : List String), (∀ k ∈ l, k ∈ target.map Prod.fst) →
      renameLoop (renamePairs target) l (partialMap target done)
        = (partialMap target (l ++ done), none) := by
  intro l
  induction l with
  | nil => intro done _; rfl
  | cons k l ih =>
    intro done hl
    obtain ⟨p, hp, hpk⟩ := List.mem_map.mp (hl k (by simp))
    subst hpk
    have ih' := fun d => ih d (fun k hk => hl k (by simp [hk]))
    unfold renameLoop
    rw [lookup_partialMap target done hn p hp]
    simp only []
    by_cases hd : p.1 ∈ done
    · -- visited before
      simp only [hd, if_true]
      have hnone : (renamePairs target).lookup p.2 = none := by
        by_cases hne : p.1 ≠ p.2
        · exact lookup_renamePairs_none target p.2 (hfresh p hp hne)
        · have : p.2 = p.1 := by simpa using (not_not.mp hne).symm
          rw [this, lookup_renamePairs target hn p hp, if_neg hne]
      rw [hnone]
      simp only []
      rw [ih' done]
      congr 1
      apply partialMap_congr
      intro r _
      by_cases h : r.1 = p.1 <;> simp [h, hd]
    · simp only [hd, if_false]
      rw [lookup_renamePairs target hn p hp]
      by_cases hne : p.1 ≠ p.2
      · simp only [hne, ne_eq, not_false_eq_true, if_true]
        rw [setKey_partialMap target done hn p hp hd, ih' (p.1 :: done)]
        congr 1
        apply partialMap_congr
        intro r _; simp only [List.mem_append, List.mem_cons, List.cons_append]; tauto
      · simp only [hne, if_false]
        rw [ih' done]
        congr 1
        unfold partialMap
        apply List.map_congr_left
        intro r hr
        by_cases h : r.1 = p.1
        · -- r = p (same key): the entry is (p.1, p.1) either way
          have hrp : r = p := by
            have h1 := lookup_of_nodup target hn r hr
            have h2 := lookup_of_nodup target hn p hp
            rw [h] at h1; rw [h1] at h2
            exact Prod.ext h (Option.some.inj h2)
          subst hrp
          have : r.2 = r.1 := by simpa using (not_not.mp hne).symm
          simp [hd, Prod.ext_iff, this]
        · simp [h]


theorem hasDup_false (l : List String) (h : l.Nodup) : hasDup l = false := by
  induction l with
  | nil => rfl
  | cons a l ih =>
    simp only [List.nodup_cons] at h
    unfold hasDup
    simp [h.1, ih h.2]

/-- one `set_*_names` call with the non-default entries of `target` turns the default dictionary into
`target` -/
theorem renameM_reconstruct (target : List (String × String)) (iter : List String)
    (hn : (target.map Prod.fst).Nodup)
    (hfresh : ∀ p ∈ target, p.1 ≠ p.2 → p.2 ∉ target.map Prod.fst)
    (hnd : ((renamePairs target).map Prod.snd).Nodup)
    (hcover : ∀ p ∈ target, p.1 ∈ iter) (hsub : ∀ k ∈ iter, k ∈ target.map Prod.fst) :
    renameM (renamePairs target) iter (idMap (target.map Prod.fst)) = (target, none) := by
  unfold renameM
  simp only [hasDup_false _ hnd, Bool.false_eq_true, if_false]
  have hany : ((renamePairs target).map Prod.snd).any
      (fun n => ((idMap (target.map Prod.fst)).map Prod.snd).contains n) = false := by
    rw [List.any_eq_false]
    intro n hnmem
    obtain ⟨p, hp, rfl⟩ := List.mem_map.mp hnmem
    have hp' : p ∈ target ∧ p.1 ≠ p.2 := by
      unfold renamePairs at hp
      simpa using List.mem_filter.mp hp
    have hv : (idMap (target.map Prod.fst)).map Prod.snd = target.map Prod.fst := by
      unfold idMap; rw [List.map_map]; conv_rhs => rw [← List.map_id (target.map Prod.fst)]
      rfl
    rw [hv]
    simpa using hfresh p hp'.1 hp'.2
  simp only [hany, Bool.false_eq_true, if_false]
  rw [← partialMap_nil, renameLoop_partial target hn hfresh iter [] hsub]
  rw [partialMap_all target _ (fun p hp => by simpa using hcover p hp)]


theorem mem_dedup (l : List String) (x : String) : x ∈ dedup l ↔ x ∈ l := by
  induction l with
  | nil => simp [dedup]
  | cons a l ih =>
    unfold dedup
    simp only [List.mem_cons, List.mem_filter, ih, ne_eq, decide_not, Bool.not_eq_eq_eq_not, Bool.not_true,
      decide_eq_false_iff_not]
    constructor
    · rintro (h | ⟨h, _⟩)
      · exact Or.inl h
      · exact Or.inr h
    · rintro (h | h)
      · exact Or.inl h
      · by_cases hx : x = a
        · exact Or.inl hx
        · exact Or.inr ⟨h, hx⟩

theorem nodup_dedup (l : List String) : (dedup l).Nodup := by
  induction l with
  | nil => simp [dedup]
  | cons a l ih =>
    unfold dedup
    refine List.nodup_cons.mpr ⟨?_, ih.filter _⟩
    simp [List.mem_filter]

theorem net_append (c : Config) (l1 l2 : List Op) : net b c (l1 ++ l2) = net b (net b c l1) l2 := by
  induction l1 generalizing c with
  | nil => rfl
  | cons op l1 ih => simp only [List.cons_append, net]; exact ih _

theorem init_outs_valid (v : Variant) :
    firstErr (outputCheck b v) (tablesOf b .vanilla).stateNames = none := by
  rw [firstErr_none]
  intro x hx
  have hx' : x ∈ b.states := (sortNames_perm b.states).mem_iff.mp
    (by simpa [tablesOf, vStates, Variant.depot] using hx)
  have : x ∈ vStates b v := by
    unfold vStates; split_ifs
    · exact List.mem_append_left _ hx'
    · exact hx'
  simp [outputCheck, this]

/-- after the route of administration -/
def canon1 (c : Config) : Config :=
  { admin := c.admin, regimen := none, outputs := (tablesOf b .vanilla).stateNames,
    pmap := idMap (cfgTables b c).paramNames, omap := idMap (tablesOf b .vanilla).stateNames,
    sens := none, red := none, sensCount := 0 }

theorem canon_step1 (c : Config) (h : Canon.adminOK b c) :
    net b (initCfg b) (canonAdmin c) = canon1 b c := by
  unfold Canon.adminOK at h
  unfold canonAdmin
  cases ha : c.admin with
  | none => simp only [net]; unfold canon1 initCfg cfgTables; simp [ha, variantOf]
  | some a =>
    rw [ha] at h
    simp only [net, applyCfg, initCfg, h.1, Bool.not_true, Bool.false_eq_true, if_false, cfgAdmin, h.2,
      init_outs_valid]
    unfold canon1 cfgTables
    simp [ha, variantOf, rekey_idMap]


def canon2 (c : Config) : Config := { canon1 b c with pmap := c.pmap }
def canon3 (c : Config) : Config :=
  { canon1 b c with pmap := c.pmap, outputs := c.outputs, omap := idMap (dedup c.outputs) }
/-- after names and outputs -/
def canon4 (c : Config) : Config :=
  { admin := c.admin, regimen := none, outputs := c.outputs, pmap := c.pmap, omap := c.omap,
    sens := none, red := none, sensCount := 0 }
def canon5 (c : Config) : Config := { canon4 c with regimen := c.regimen }

theorem canon_step234 (c : Config) (h : Canon b c) :
    net b (canon1 b c) [Op.setParamNames (renamePairs c.pmap), Op.setOutputs c.outputs,
      Op.setOutputNames (renamePairs c.omap)] = canon4 c := by
  obtain ⟨_, hpk, hpn, hpf, hpnew, houts, hok, hof, honew, _, _, _⟩ := h
  -- parameter names
  have h2 : applyCfg b (canon1 b c) (Op.setParamNames (renamePairs c.pmap)) = (canon2 b c, none) := by
    have := renameM_reconstruct c.pmap (cfgTables b c).paramNames (by rw [hpk]; exact hpn)
      (by rw [hpk]; exact hpf) hpnew
      (fun p hp => by rw [← hpk]; exact List.mem_map_of_mem (f := Prod.fst) hp)
      (fun k hk => by rw [hpk]; exact hk)
    rw [hpk] at this
    have ht : cfgTables b (canon1 b c) = cfgTables b c := rfl
    have hp1 : (canon1 b c).pmap = idMap (cfgTables b c).paramNames := rfl
    have hr1 : (canon1 b c).red = none := rfl
    simp only [applyCfg, hr1, ht, hp1, this]
    rfl
  -- outputs
  have h3 : applyCfg b (canon2 b c) (Op.setOutputs c.outputs) = (canon3 b c, none) := by
    have hr : (canon2 b c).red = none := rfl
    have ho : (canon2 b c).omap = idMap (tablesOf b .vanilla).stateNames := rfl
    have ha : (canon2 b c).admin = c.admin := rfl
    simp only [applyCfg, hr, cfgOutputs, ho, ha, translate_idMap, houts, rekey_idMap]
    rfl
  -- output names
  have h4 : applyCfg b (canon3 b c) (Op.setOutputNames (renamePairs c.omap)) = (canon4 c, none) := by
    have := renameM_reconstruct c.omap c.outputs (by rw [hok]; exact nodup_dedup _)
      (by rw [hok]; exact hof) honew
      (fun p hp => (mem_dedup _ _).mp (by rw [← hok]; exact List.mem_map_of_mem (f := Prod.fst) hp))
      (fun k hk => by rw [hok]; exact (mem_dedup _ _).mpr hk)
    rw [hok] at this
    have hr : (canon3 b c).red = none := rfl
    have ho : (canon3 b c).omap = idMap (dedup c.outputs) := rfl
    have hou : (canon3 b c).outputs = c.outputs := rfl
    simp only [applyCfg, hr, ho, hou, this]
    rfl
  simp only [net, h2, h3, h4]

theorem canon_step5 (c : Config) (h : Canon b c) :
    net b (canon4 c) (canonRegimen c) = canon5 c := by
  obtain ⟨ha, _, _, _, _, _, _, _, _, hreg, _, _⟩ := h
  unfold canonRegimen
  cases hr : c.regimen with
  | none => simp only [net]; unfold canon5; rw [hr]; rfl
  | some r =>
    have hsome : c.admin.isSome = true := hreg (by rw [hr]; rfl)
    unfold Canon.adminOK at ha
    cases had : c.admin with
    | none => rw [had] at hsome; cases hsome
    | some a =>
      rw [had] at ha
      have hpk : b.pkpd = true := ha.1
      have hr4 : (canon4 c).red = none := rfl
      have ha4 : (canon4 c).admin = some a := had
      simp only [net, applyCfg, hr4, hpk, Bool.not_true, Bool.false_eq_true, if_false, cfgRegimen, ha4]
      unfold canon5; rw [hr]
      simp only [ha4.symm, hr4.symm]

theorem canon_step6 (c : Config) (h : Canon b c) :
    net b (canon5 c) (canonSens b c) = { normCount c with red := none } := by
  obtain ⟨_, _, _, _, _, _, _, _, _, _, hs, _⟩ := h
  unfold Canon.sensOK at hs
  unfold canonSens
  cases hsens : c.sens with
  | none =>
    simp only [net]
    unfold canon5 canon4 normCount
    obtain ⟨a, r, o, p, om, s, rd, n⟩ := c
    simp only at hsens
    subst hsens
    rfl
  | some sel =>
    rw [hsens] at hs
    have ht : cfgTables b (canon5 c) = cfgTables b c := rfl
    have hr : (canon5 c).red = none := rfl
    have hp : (canon5 c).pmap = c.pmap := rfl
    simp only [net, applyCfg, hr, cfgSens, Bool.not_true, Bool.false_eq_true, if_false, ht, hp, hs.2,
      if_neg hs.1]
    unfold canon5 canon4 normCount
    obtain ⟨a, r, o, p, om, s, rd, n⟩ := c
    simp only at hsens
    subst hsens
    rfl


theorem canon_step7 (c : Config) (h : Canon b c) :
    net b { normCount c with red := none } (canonicalRed b c) = normCount c := by
  obtain ⟨_, _, _, _, _, _, _, _, _, _, hs, hred⟩ := h
  unfold Canon.sensOK at hs
  unfold Canon.redOK at hred
  obtain ⟨admin, regimen, outputs, pmap, omap, sens, red, cnt⟩ := c
  cases red with
  | none => rfl
  | some r =>
    obtain ⟨mask, values, e⟩ := r
    simp only at hred hs
    cases mask with
    | none =>
      cases values with
      | some v => exact absurd hred.1 (by simp)
      | none =>
        cases e with
        | false => rfl
        | true =>
          obtain ⟨hsn, hfree⟩ := hred.2 rfl
          subst hsn
          have hfree' : cfgFree b ⟨admin, regimen, outputs, pmap, omap, none, some ⟨none, none, false⟩, 0⟩
              ⟨none, none, false⟩ = [] := hfree
          simp only [normCount, canonicalRed, net, applyCfg, cfgSensR, Bool.not_true, Bool.false_eq_true,
            if_false, if_true, List.nil_append, List.cons_append, List.append_nil, hfree', cfgSens,
            Bool.not_false]
    | some m =>
      cases values with
      | none => exact absurd hred.1 (by simp)
      | some v =>
        obtain ⟨⟨hfix, hsf⟩, hempty⟩ := hred
        cases sens with
        | none =>
          have hfix' : fixMask ((cfgPublic b ⟨admin, regimen, outputs, pmap, omap, none, some ⟨none, none, false⟩, 0⟩).getD [])
              (cfgTables b ⟨admin, regimen, outputs, pmap, omap, none, some ⟨none, none, false⟩, 0⟩).nParams none none
              (fixPairs ((cfgPublic b ⟨admin, regimen, outputs, pmap, omap, none, some ⟨some m, some v, e⟩, cnt⟩).getD []) m v)
              = (some m, some v) := hfix
          cases e with
          | false =>
            simp only [normCount, canonicalRed, net, applyCfg, cfgFix, hfix', Bool.false_eq_true, if_false,
              List.nil_append, List.cons_append, List.append_nil, Option.isSome_none, Bool.or_self]
          | true =>
            obtain ⟨_, hfree⟩ := hempty rfl
            have hfree' : cfgFree b ⟨admin, regimen, outputs, pmap, omap, none, some ⟨some m, some v, false⟩, 0⟩
                ⟨some m, some v, false⟩ = [] := hfree
            simp only [normCount, canonicalRed, net, applyCfg, cfgFix, hfix', Bool.false_eq_true, if_false,
              if_true, List.nil_append, List.cons_append, List.append_nil, Option.isSome_none, Bool.or_self,
              cfgSensR, Bool.not_true, hfree', cfgSens, Bool.not_false]
        | some sel =>
          have hfix' : fixMask ((cfgPublic b ⟨admin, regimen, outputs, pmap, omap, some sel, some ⟨none, none, false⟩, sel.length⟩).getD [])
              (cfgTables b ⟨admin, regimen, outputs, pmap, omap, some sel, some ⟨none, none, false⟩, sel.length⟩).nParams none none
              (fixPairs ((cfgPublic b ⟨admin, regimen, outputs, pmap, omap, some sel, some ⟨some m, some v, e⟩, cnt⟩).getD []) m v)
              = (some m, some v) := hfix
          have he : e = false := by
            cases e with
            | false => rfl
            | true => exact absurd (hempty rfl).1 (by simp)
          subst he
          simp only at hsf
          obtain ⟨hfne, hsel⟩ := hsf
          have hfne' : cfgFree b ⟨admin, regimen, outputs, pmap, omap, some sel, some ⟨some m, some v, false⟩, sel.length⟩
              ⟨some m, some v, false⟩ ≠ [] := hfne
          have hsel' : sensSelect (cfgTables b ⟨admin, regimen, outputs, pmap, omap, some sel, some ⟨some m, some v, false⟩, sel.length⟩)
              pmap (some (cfgFree b ⟨admin, regimen, outputs, pmap, omap, some sel, some ⟨some m, some v, false⟩, sel.length⟩
                ⟨some m, some v, false⟩)) = sel := hsel
          simp only [normCount, canonicalRed, net, applyCfg, cfgFix, hfix', Bool.false_eq_true, if_false,
            if_true, List.nil_append, List.cons_append, List.append_nil, Option.isSome_some, Bool.or_true,
            cfgSensR, Bool.not_true, hfne', cfgSens, hsel', hs.1]


/-- the canonical calls, applied to the configuration of a new object, reach exactly `c` (with the residue
of a new object) -/
theorem canonical_reaches (c : Config) (h : Canon b c) :
    net b (initCfg b) (canonical b c) = normCount c := by
  unfold canonical
  rw [net_append, net_append, net_append, net_append, canon_step1 b c h.1, canon_step234 b c h,
    canon_step5 b c h, canon_step6 b c h, canon_step7 b c h]


/-- the parts of `Canon` that hold after every history -/
structure Inv3 (c : Config) : Prop where
  adm : Canon.adminOK b c
  reg : c.regimen.isSome = true → c.admin.isSome = true
  okeys : c.omap.map Prod.fst = dedup c.outputs

theorem inv3_congr (c c' : Config) (hc : core5 c' = core5 c) (hi : Inv3 b c) : Inv3 b c' := by
  simp only [core5, Prod.mk.injEq] at hc
  obtain ⟨h1, h2, h3, _, h5⟩ := hc
  refine ⟨?_, ?_, ?_⟩
  · have := hi.adm; unfold Canon.adminOK at this ⊢; rw [h1]; exact this
  · rw [h1, h2]; exact hi.reg
  · rw [h3, h5]; exact hi.okeys

theorem inv3_init (hw : b.WF) : Inv3 b (initCfg b) where
  adm := by unfold Canon.adminOK; trivial
  reg := fun h => by cases h
  okeys := by
    show (idMap (tablesOf b .vanilla).stateNames).map Prod.fst = dedup (tablesOf b .vanilla).stateNames
    rw [map_fst_idMap, dedup_nodup _ (stateNames_nodup_vanilla b hw)]

theorem inv3_cfgOutputs (c : Config) (outs) (hi : Inv3 b c) : Inv3 b (cfgOutputs b c outs).1 := by
  unfold cfgOutputs
  cases he : firstErr (outputCheck b (variantOf c.admin)) (translate c.omap outs) with
  | some e => simpa [he] using hi
  | none =>
    simp only [he]
    exact ⟨hi.adm, hi.reg, map_fst_rekey _ _⟩

theorem inv3_cfgRegimen (c : Config) (r) (hi : Inv3 b c) : Inv3 b (cfgRegimen c r).1 := by
  unfold cfgRegimen
  split
  · exact hi
  · rename_i a ha
    refine ⟨hi.adm, fun _ => by show c.admin.isSome = true; rw [ha]; rfl, hi.okeys⟩

theorem inv3_cfgAdmin (c : Config) (a) (hp : b.pkpd = true) (hi : Inv3 b c) : Inv3 b (cfgAdmin b c a).1 := by
  unfold cfgAdmin
  cases hv : validAdmin b a with
  | some e => simpa [hv] using hi
  | none =>
    simp only [hv]
    cases he : firstErr (outputCheck b (.dosed a)) c.outputs with
    | some e => simpa [he] using hi
    | none =>
      simp only [he]
      refine ⟨?_, fun _ => rfl, hi.okeys⟩
      unfold Canon.adminOK
      exact ⟨hp, hv⟩

theorem inv3_apply (c : Config) (op : Op) (hi : Inv3 b c) : Inv3 b (applyCfg b c op).1 := by
  unfold applyCfg
  cases op with
  | setAdmin a =>
    cases hr : c.red with
    | some r => simp only [hr]; exact hi
    | none =>
      simp only [hr]
      by_cases hp : b.pkpd
      · simp only [hp, Bool.not_true, Bool.false_eq_true, if_false]; exact inv3_cfgAdmin b c a hp hi
      · simp only [hp, Bool.not_false, if_true]; exact hi
  | setRegimen r =>
    cases hr : c.red <;> simp only [hr] <;> split_ifs <;>
      first | exact hi | exact inv3_cfgRegimen b c r hi
  | setOutputs outs =>
    cases hr : c.red with
    | none => simp only [hr]; exact inv3_cfgOutputs b c outs hi
    | some r =>
      simp only [hr]
      split
      · exact inv3_congr b (cfgOutputs b c outs).1 _ rfl (inv3_cfgOutputs b c outs hi)
      · exact inv3_cfgOutputs b c outs hi
  | setParamNames names =>
    cases hr : c.red <;> simp only [hr] <;> exact ⟨hi.adm, hi.reg, hi.okeys⟩
  | setOutputNames names =>
    cases hr : c.red <;> simp only [hr] <;>
      exact ⟨hi.adm, hi.reg, (map_fst_renameM names _ _).trans hi.okeys⟩
  | enableSens on names =>
    cases hr : c.red with
    | none => simp only [hr]; exact inv3_congr b c _ (cfgSens_core5 b c on names) hi
    | some r =>
      cases names with
      | none => simp only [hr]; exact inv3_congr b c _ (cfgSensR_core5 b c r on) hi
      | some ns => simpa [hr] using hi
  | wrap => cases hr : c.red <;> simp only [hr] <;> exact inv3_congr b c _ rfl hi
  | fix d =>
    cases hr : c.red with
    | none => simpa [hr] using hi
    | some r => simp only [hr]; exact inv3_congr b c _ (cfgFix_core5 b c r d) hi
  | copy => cases hr : c.red <;> simp only [hr] <;> exact inv3_congr b c _ rfl hi

theorem inv3_net (ops : List Op) : ∀ c, Inv3 b c → Inv3 b (net b c ops) := by
  induction ops with
  | nil => intro c h; exact h
  | cons op ops ih => intro c h; exact ih _ (inv3_apply b c op h)

end ChiModel.MechConfig
