import ChiProofs.Lemmas.C07Sel
import ChiProofs.RealInst
/-! helper lemmas for C07: the linear transform over ℝ, its transpose, per-individual scores -/
set_option linter.unusedSectionVars false
set_option linter.unusedSimpArgs false
set_option linter.unusedVariables false
namespace ChiModel
open ScalarFns


section generic
variable {α : Type} [Add α] [Sub α] [Mul α] [Div α] [Neg α] [ScalarFns α]

theorem covTh_selected (c : CovCfg) (hn : c.sel.Nodup) (params : Nat → α) (cov : Nat → Nat → α)
    (i s : Nat) (hs : s < c.sel.length) :
    covTh c params cov i c.sel[s].1 c.sel[s].2
      = c.base params c.sel[s].1 c.sel[s].2 + isum c.nCov (fun k => cov i k * c.beta params s k) := by
  unfold covTh
  have : c.sel.idxOf? (c.sel[s].1, c.sel[s].2) = some s := idxOf?_getElem_of_nodup c.sel hn s hs
  rw [this]

theorem covTh_unselected (c : CovCfg) (params : Nat → α) (cov : Nat → Nat → α) (i p d : Nat)
    (h : (p, d) ∉ c.sel) : covTh c params cov i p d = c.base params p d := by
  unfold covTh
  have : c.sel.idxOf? (p, d) = none := List.idxOf?_eq_none_iff.mpr h
  rw [this]

end generic

/-! ### over the reals -/

theorem isum_zero_real (n : Nat) (g : Nat → ℝ) (h : ∀ k, k < n → g k = 0) : isum n g = 0 := by
  rw [isum_eq]
  exact Finset.sum_eq_zero (fun k hk => h k (Finset.mem_range.mp hk))

/-- the shift as a sum over the stored selection with an indicator (ℝ) -/
theorem covTh_eq_sum (c : CovCfg) (hn : c.sel.Nodup) (params : Nat → ℝ) (cov : Nat → Nat → ℝ)
    (i p d : Nat) :
    covTh c params cov i p d = c.base params p d +
      ∑ s ∈ Finset.range c.sel.length, if c.sel.getD s (0, 0) = (p, d)
        then ∑ k ∈ Finset.range c.nCov, cov i k * c.beta params s k else 0 := by
  by_cases hm : (p, d) ∈ c.sel
  · obtain ⟨s, hs, e⟩ := List.getElem_of_mem hm
    have h1 := covTh_selected c hn params cov i s hs
    rw [e] at h1
    simp only at h1
    have hsum : (∑ t ∈ Finset.range c.sel.length, if c.sel.getD t (0, 0) = (p, d)
        then ∑ k ∈ Finset.range c.nCov, cov i k * c.beta params t k else 0)
        = ∑ k ∈ Finset.range c.nCov, cov i k * c.beta params s k := by
      rw [Finset.sum_eq_single s]
      · simp [List.getD_eq_getElem?_getD, hs, e]
      · intro t ht hts
        have ht' : t < c.sel.length := Finset.mem_range.mp ht
        have : c.sel.getD t (0, 0) ≠ (p, d) := by
          simp only [List.getD_eq_getElem?_getD, List.getElem?_eq_getElem ht', Option.getD_some]
          intro e2
          exact hts ((List.Nodup.getElem_inj_iff hn).mp (e2.trans e.symm))
        rw [if_neg this]
      · intro h; exact absurd (Finset.mem_range.mpr hs) h
    rw [h1, isum_eq, hsum]
  · rw [covTh_unselected c params cov i p d hm]
    have : ∀ s ∈ Finset.range c.sel.length,
        (if c.sel.getD s (0, 0) = (p, d) then ∑ k ∈ Finset.range c.nCov, cov i k * c.beta params s k else 0) = 0 := by
      intro s hs
      have hs' : s < c.sel.length := Finset.mem_range.mp hs
      have : c.sel.getD s (0, 0) ≠ (p, d) := by
        simp only [List.getD_eq_getElem?_getD, List.getElem?_eq_getElem hs', Option.getD_some]
        intro e; exact hm (e ▸ List.getElem_mem hs')
      rw [if_neg this]
    rw [Finset.sum_eq_zero this, add_zero]




/-- the selection lies inside the parameter table -/
def CovCfg.InRange (c : CovCfg) : Prop := ∀ x ∈ c.sel, x.1 < c.perDim ∧ x.2 < c.nDim

theorem sum_pick (P D : Nat) (pd : Pair) (h1 : pd.1 < P) (h2 : pd.2 < D) (F : Nat → Nat → ℝ) :
    ∑ p ∈ Finset.range P, ∑ d ∈ Finset.range D, (if pd = (p, d) then F p d else 0) = F pd.1 pd.2 := by
  rw [Finset.sum_eq_single pd.1]
  · rw [Finset.sum_eq_single pd.2]
    · simp
    · intro d _ hd
      rw [if_neg]
      intro e; exact hd (by rw [e])
    · intro h; exact absurd (Finset.mem_range.mpr h2) h
  · intro p _ hp
    apply Finset.sum_eq_zero
    intro d _
    rw [if_neg]
    intro e; exact hp (by rw [e])
  · intro h; exact absurd (Finset.mem_range.mpr h1) h

theorem grad_transpose (c : CovCfg) (hn : c.sel.Nodup) (hr : c.InRange) (nIds : Nat)
    (g : Nat → Nat → Nat → ℝ) (cov : Nat → Nat → ℝ) (δ : Nat → ℝ) :
    ∑ i ∈ Finset.range nIds, ∑ p ∈ Finset.range c.perDim, ∑ d ∈ Finset.range c.nDim,
        g i p d * covTh c δ cov i p d
      = ∑ p ∈ Finset.range c.perDim, ∑ d ∈ Finset.range c.nDim, covSensPop nIds g p d * c.base δ p d
        + ∑ s ∈ Finset.range c.sel.length, ∑ k ∈ Finset.range c.nCov,
            covSensBeta c nIds g cov s k * c.beta δ s k := by
  simp only [covTh_eq_sum c hn, mul_add, Finset.sum_add_distrib, covSensPop, covSensBeta, isum_eq]
  congr 1
  · rw [Finset.sum_comm]
    apply Finset.sum_congr rfl; intro p _
    rw [Finset.sum_comm]
    apply Finset.sum_congr rfl; intro d _
    rw [Finset.sum_mul]
  · -- second block
    have key : ∀ i, ∑ p ∈ Finset.range c.perDim, ∑ d ∈ Finset.range c.nDim,
        g i p d * ∑ s ∈ Finset.range c.sel.length, (if c.sel.getD s (0, 0) = (p, d)
          then ∑ k ∈ Finset.range c.nCov, cov i k * c.beta δ s k else 0)
        = ∑ s ∈ Finset.range c.sel.length, ∑ k ∈ Finset.range c.nCov,
            g i (c.sel.getD s (0, 0)).1 (c.sel.getD s (0, 0)).2 * cov i k * c.beta δ s k := by
      intro i
      simp only [Finset.mul_sum]
      rw [Finset.sum_congr rfl (fun p _ => Finset.sum_comm)]
      rw [Finset.sum_comm]
      apply Finset.sum_congr rfl; intro s hs
      have hs' : s < c.sel.length := Finset.mem_range.mp hs
      have hmem : c.sel.getD s (0, 0) ∈ c.sel := by
        simp only [List.getD_eq_getElem?_getD, List.getElem?_eq_getElem hs', Option.getD_some]
        exact List.getElem_mem hs'
      have := sum_pick c.perDim c.nDim (c.sel.getD s (0, 0)) (hr _ hmem).1 (hr _ hmem).2
        (fun p d => g i p d * ∑ k ∈ Finset.range c.nCov, cov i k * c.beta δ s k)
      simp only [mul_ite, mul_zero] at this ⊢
      rw [this, Finset.mul_sum]
      apply Finset.sum_congr rfl; intro k _; ring
    rw [Finset.sum_congr rfl (fun i _ => key i)]
    rw [Finset.sum_comm]
    apply Finset.sum_congr rfl; intro s _
    rw [Finset.sum_comm]
    apply Finset.sum_congr rfl; intro k _
    rw [Finset.sum_mul]




/-- the transform is linear in `(ϑ₀, β)`: along any differentiable curve of flat parameter
    vectors its derivative is the transform of the velocity -/
theorem covTh_hasDerivAt (c : CovCfg) (θ : ℝ → Nat → ℝ) (θ' : Nat → ℝ) (t : ℝ)
    (hθ : ∀ j, HasDerivAt (fun s => θ s j) (θ' j) t) (cov : Nat → Nat → ℝ) (i p d : Nat) :
    HasDerivAt (fun s => covTh c (θ s) cov i p d) (covTh c θ' cov i p d) t := by
  unfold covTh
  cases h : c.sel.idxOf? (p, d) with
  | none => simpa [CovCfg.base] using hθ (p * c.nDim + d)
  | some s =>
    simp only
    refine HasDerivAt.add (by simpa [CovCfg.base] using hθ (p * c.nDim + d)) ?_
    refine hasDerivAt_isum c.nCov (fun k s' => cov i k * c.beta (θ s') s k)
      (fun k => cov i k * c.beta θ' s k) t (fun k _ => ?_)
    exact (hθ (c.nPop + s * c.nCov + k)).const_mul (cov i k)




/-- a flat (row-major) sum is the double sum -/
theorem sum_flat (P D : Nat) (F : Nat → Nat → ℝ) :
    ∑ j ∈ Finset.range (P * D), F (j / D) (j % D) = ∑ p ∈ Finset.range P, ∑ d ∈ Finset.range D, F p d := by
  induction P with
  | zero => simp
  | succ P ih =>
    rw [Nat.succ_mul, Finset.sum_range_add, ih, Finset.sum_range_succ]
    congr 1
    apply Finset.sum_congr rfl
    intro d hd
    have hd' : d < D := Finset.mem_range.mp hd
    have hpos : 0 < D := by omega
    rw [Nat.mul_comm P D, Nat.mul_add_div hpos, Nat.div_eq_of_lt hd', Nat.add_zero, Nat.mul_add_mod,
      Nat.mod_eq_of_lt hd']

theorem grad_positional (c : CovCfg) (nIds : Nat) (g : Nat → Nat → Nat → ℝ) (cov : Nat → Nat → ℝ)
    (δ : Nat → ℝ) :
    ∑ j ∈ Finset.range c.nParams, covSensAt c nIds g cov j * δ j
      = ∑ p ∈ Finset.range c.perDim, ∑ d ∈ Finset.range c.nDim, covSensPop nIds g p d * c.base δ p d
        + ∑ s ∈ Finset.range c.sel.length, ∑ k ∈ Finset.range c.nCov,
            covSensBeta c nIds g cov s k * c.beta δ s k := by
  unfold CovCfg.nParams
  rw [Finset.sum_range_add]
  congr 1
  · rw [← sum_flat c.perDim c.nDim (fun p d => covSensPop nIds g p d * c.base δ p d)]
    apply Finset.sum_congr rfl
    intro j hj
    have hj' : j < c.nPop := Finset.mem_range.mp hj
    have hpos : 0 < c.nDim := by
      rcases Nat.eq_zero_or_pos c.nDim with h | h
      · simp [CovCfg.nPop, h] at hj'
      · exact h
    simp only [covSensAt, hj', if_true, CovCfg.base, div_mod_index c.nDim j hpos]
  · rw [← sum_flat c.sel.length c.nCov (fun s k => covSensBeta c nIds g cov s k * c.beta δ s k)]
    apply Finset.sum_congr rfl
    intro j hj
    have hj' : j < c.sel.length * c.nCov := Finset.mem_range.mp hj
    have hpos : 0 < c.nCov := by
      rcases Nat.eq_zero_or_pos c.nCov with h | h
      · simp [h] at hj'
      · exact h
    have hn : ¬ (c.nPop + j < c.nPop) := by omega
    simp only [covSensAt, hn, if_false, Nat.add_sub_cancel_left, CovCfg.beta]
    rw [Nat.add_assoc, div_mod_index c.nCov j hpos]




theorem scoreSum_succ {α : Type} [Add α] [Sub α] [Mul α] [Div α] [Neg α] [ScalarFns α]
    (n : Nat) (f : Nat → Score α) : scoreSum (n + 1) f = Score.add (scoreSum n f) (f n) := by
  simp [scoreSum, List.range_succ, List.foldl_append]

/-- sum of guarded finite scores -/
theorem scoreSum_guarded (n : Nat) (G : Nat → Bool) (a : Nat → ℝ) :
    scoreSum n (fun i => if G i then Score.negInf else Score.val (a i))
      = if iany n G then Score.negInf else Score.val (∑ i ∈ Finset.range n, a i) := by
  induction n with
  | zero => simp [scoreSum, iany, Score.zero]
  | succ n ih =>
    rw [scoreSum_succ, ih]
    have hany : iany (n + 1) G = (iany n G || G n) := by
      simp [iany, List.range_succ, List.any_append]
    rw [hany, Finset.sum_range_succ]
    cases h1 : iany n G <;> cases h2 : G n <;> simp [Score.add]

noncomputable def guardedNegSum (n m : Nat) (G : Nat → Nat → Bool) (F : Nat → Nat → ℝ) : Score ℝ :=
  if iany2 n m G then .negInf else .val (-(isum2 n m F))

theorem guardedNegSum_split (n m : Nat) (G : Nat → Nat → Bool) (F : Nat → Nat → ℝ) :
    guardedNegSum n m G F
      = scoreSum n (fun i => guardedNegSum 1 m (fun _ d => G i d) (fun _ d => F i d)) := by
  have h1 : ∀ i, guardedNegSum 1 m (fun _ d => G i d) (fun _ d => F i d)
      = if iany m (G i) then Score.negInf else Score.val (-(isum m (F i))) := by
    intro i
    simp [guardedNegSum, iany2, isum2, iany, isum, lsum_real]
  simp only [h1]
  rw [scoreSum_guarded]
  unfold guardedNegSum
  have h2 : iany2 n m G = iany n (fun i => iany m (G i)) := rfl
  rw [h2]
  congr 1
  simp only [isum2, isum_eq, Finset.sum_neg_distrib]


variable [HasErf ℝ]

/-- support guard of each kind, entry `(i, d)` -/
noncomputable def popG (k : Kind) (th : Nat → Nat → Nat → ℝ) (eta : Nat → Nat → ℝ) (i d : Nat) : Bool :=
  match k with
  | .gauss true => le (th i 1 d) zero
  | .logn true => le (th i 1 d) zero || le (eta i d) zero
  | .trunc => le (th i 1 d) zero || lt (eta i d) zero
  | .pooled => !(le (eta i d) (th i 0 d) && le (th i 0 d) (eta i d))
  | .hetero => !(le (eta i d) (th i i d) && le (th i i d) (eta i d))
  | _ => false

/-- minus the log-density of entry `(i, d)` inside the support -/
noncomputable def popF (k : Kind) (th : Nat → Nat → Nat → ℝ) (eta : Nat → Nat → ℝ) (i d : Nat) : ℝ :=
  match k with
  | .gauss true => log (two * pi * (th i 1 d * th i 1 d)) / two
        + (eta i d - th i 0 d) * (eta i d - th i 0 d) / (two * (th i 1 d * th i 1 d))
  | .logn true => log (two * pi * (th i 1 d * th i 1 d)) / two + log (eta i d)
        + (log (eta i d) - th i 0 d) * (log (eta i d) - th i 0 d) / two / (th i 1 d * th i 1 d)
  | .trunc => log (two * pi * (th i 1 d * th i 1 d)) / two
        + (eta i d - th i 0 d) * (eta i d - th i 0 d) / (two * (th i 1 d * th i 1 d))
        + log (ofNat 1 - normCdf (Neg.neg (th i 0 d) / th i 1 d))
  | .pooled => 0
  | .hetero => 0
  | _ => log (two * pi) / two + eta i d * eta i d / two

theorem isum2_zero (n m : Nat) : isum2 n m (fun _ _ => (0 : ℝ)) = 0 := by
  simp [isum2, isum_eq]

theorem c07_iany2_false (n m : Nat) : iany2 n m (fun _ _ => false) = false := by
  simp [iany2, iany]

theorem popLL_eq_guarded (k : Kind) (n m : Nat) (th : Nat → Nat → Nat → ℝ) (eta : Nat → Nat → ℝ) :
    popLL k n m th eta = guardedNegSum n m (popG k th eta) (popF k th eta) := by
  unfold guardedNegSum
  cases k with
  | gauss c =>
    cases c
    · have : popG (.gauss false) th eta = fun _ _ => false := rfl
      rw [this, c07_iany2_false]; rfl
    · rfl
  | logn c =>
    cases c
    · have : popG (.logn false) th eta = fun _ _ => false := rfl
      rw [this, c07_iany2_false]; rfl
    · rfl
  | trunc => rfl
  | pooled =>
    have : popF .pooled th eta = fun _ _ => (0 : ℝ) := rfl
    have hz : (zero : ℝ) = 0 := by simp [zero]
    rw [this, isum2_zero, neg_zero, ← hz]; rfl
  | hetero =>
    have : popF .hetero th eta = fun _ _ => (0 : ℝ) := rfl
    have hz : (zero : ℝ) = 0 := by simp [zero]
    rw [this, isum2_zero, neg_zero, ← hz]; rfl

/-- a one-individual guarded sum only looks at row 0 of its arguments -/
theorem guardedNegSum_one_congr (m : Nat) (G G' : Nat → Nat → Bool) (F F' : Nat → Nat → ℝ)
    (hG : ∀ d, G 0 d = G' 0 d) (hF : ∀ d, F 0 d = F' 0 d) :
    guardedNegSum 1 m G F = guardedNegSum 1 m G' F' := by
  have h1 : G 0 = G' 0 := funext hG
  have h2 : F 0 = F' 0 := funext hF
  simp [guardedNegSum, iany2, isum2, iany, isum, lsum_real, h1, h2]

/-- additivity over individuals: the population score on the per-individual parameter tensor is
    the Python sum of the one-individual scores — for every kind (heterogeneous: individual `i`'s
    one-individual model holds its own row) -/
theorem popLL_per_individual (k : Kind) (n m : Nat) (th : Nat → Nat → Nat → ℝ)
    (eta : Nat → Nat → ℝ) :
    popLL k n m th eta = scoreSum n (perIndividualLL k m th eta) := by
  rw [popLL_eq_guarded, guardedNegSum_split]
  congr 1
  funext i
  unfold perIndividualLL
  rw [popLL_eq_guarded]
  apply guardedNegSum_one_congr
  · intro d
    cases k with
    | gauss c => cases c <;> rfl
    | logn c => cases c <;> rfl
    | trunc => rfl
    | pooled => rfl
    | hetero => simp only [popG, ownRow, Nat.zero_add]
  · intro d
    cases k with
    | gauss c => cases c <;> rfl
    | logn c => cases c <;> rfl
    | trunc => rfl
    | pooled => rfl
    | hetero => rfl

end ChiModel
