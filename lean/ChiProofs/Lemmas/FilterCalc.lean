import ChiModel.Filters
import ChiProofs.RealInst
import Mathlib.Analysis.Calculus.Deriv.Inv
import Mathlib.Analysis.SpecialFunctions.ExpDeriv
import Mathlib.Algebra.BigOperators.Ring.Finset

/-!
# Calculus and list lemmas for the population filters (C12)

Helper lemmas only; the property theorems are in `Props/C12.lean`.
-/
set_option linter.unusedSectionVars false
set_option linter.unusedSimpArgs false
set_option linter.unusedVariables false
namespace ChiModel
namespace PF
open ScalarFns Finset

@[simp] theorem oneS_real : (oneS : ℝ) = 1 := by simp [oneS]

/-! ## bridges to `Finset` / `List` sums -/

theorem msum_eq_sum (m : Nat) (o : Nat → Option ℝ) (f : ℝ → ℝ) :
    msum m o f = ∑ i ∈ range m, (match o i with | some v => f v | none => 0) := by
  unfold msum
  rw [isum_eq]
  refine Finset.sum_congr rfl fun i _ => ?_
  cases o i <;> simp

theorem filterMap_sum_aux (o : Nat → Option ℝ) (f : ℝ → ℝ) (l : List Nat) :
    (l.map (fun i => match o i with | some v => f v | none => (0:ℝ))).sum
      = ((l.filterMap o).map f).sum := by
  induction l with
  | nil => simp
  | cons i is ih =>
    cases h : o i <;> simp [List.filterMap_cons, h, ih]

/-- a masked sum is the sum over the list of non-missing measurements -/
theorem msum_eq_filterMap (m : Nat) (o : Nat → Option ℝ) (f : ℝ → ℝ) :
    msum m o f = (((List.range m).filterMap o).map f).sum := by
  unfold msum isum
  rw [lsum_real]
  rw [← filterMap_sum_aux o f]
  congr 1
  apply List.map_congr_left
  intro i _
  cases o i <;> simp

theorem msum_congr (m : Nat) (o : Nat → Option ℝ) (f g : ℝ → ℝ)
    (h : ∀ i, i < m → ∀ v, o i = some v → f v = g v) : msum m o f = msum m o g := by
  rw [msum_eq_sum, msum_eq_sum]
  refine Finset.sum_congr rfl fun i hi => ?_
  cases hoi : o i with
  | none => rfl
  | some v => exact h i (mem_range.mp hi) v hoi

theorem msum_add (m : Nat) (o : Nat → Option ℝ) (f g : ℝ → ℝ) :
    msum m o (fun v => f v + g v) = msum m o f + msum m o g := by
  simp only [msum_eq_sum, ← Finset.sum_add_distrib]
  refine Finset.sum_congr rfl fun i _ => ?_
  cases o i <;> simp

theorem msum_sub (m : Nat) (o : Nat → Option ℝ) (f g : ℝ → ℝ) :
    msum m o (fun v => f v - g v) = msum m o f - msum m o g := by
  simp only [msum_eq_sum, ← Finset.sum_sub_distrib]
  refine Finset.sum_congr rfl fun i _ => ?_
  cases o i <;> simp

theorem msum_mul_const (m : Nat) (o : Nat → Option ℝ) (f : ℝ → ℝ) (c : ℝ) :
    msum m o (fun v => f v * c) = msum m o f * c := by
  simp only [msum_eq_sum, Finset.sum_mul]
  refine Finset.sum_congr rfl fun i _ => ?_
  cases o i <;> simp

theorem msum_neg (m : Nat) (o : Nat → Option ℝ) (f : ℝ → ℝ) :
    msum m o (fun v => -f v) = -msum m o f := by
  simp only [msum_eq_sum, ← Finset.sum_neg_distrib]
  refine Finset.sum_congr rfl fun i _ => ?_
  cases o i <;> simp

/-- termwise derivative of a masked sum -/
theorem hasDerivAt_msum (m : Nat) (o : Nat → Option ℝ) (f : ℝ → ℝ → ℝ) (f' : ℝ → ℝ) (t : ℝ)
    (h : ∀ i, i < m → ∀ v, o i = some v → HasDerivAt (fun u => f v u) (f' v) t) :
    HasDerivAt (fun u => msum m o (fun v => f v u)) (msum m o f') t := by
  unfold msum
  refine hasDerivAt_isum m _ _ t fun i hi => ?_
  cases hoi : o i with
  | none => simpa using hasDerivAt_const t (0:ℝ)
  | some v => exact h i hi v hoi

theorem msum_logo (m : Nat) (o : Nat → Option ℝ) (f : ℝ → ℝ) :
    msum m (logo o) f = msum m o (fun v => f (Real.log v)) := by
  simp only [msum_eq_sum, logo]
  refine Finset.sum_congr rfl fun i _ => ?_
  cases o i <;> simp

theorem meanI_eq (n : Nat) (y : Nat → ℝ) : meanI n y = (∑ s ∈ range n, y s) / n := by
  simp [meanI, isum_eq]

theorem varI_eq (n : Nat) (y : Nat → ℝ) :
    varI n y = (∑ s ∈ range n, (y s - meanI n y) ^ 2) / ((n : ℝ) - 1) := by
  simp [varI, isum_eq, sq]

/-! ## mean and variance as functions of one simulated value -/

theorem sum_update (n s : Nat) (hs : s < n) (y : Nat → ℝ) (t : ℝ) :
    ∑ r ∈ range n, Function.update y s t r = t + ∑ r ∈ range n \ {s}, y r :=
  Finset.sum_update_of_mem (mem_range.mpr hs) y t

theorem mean_update_hasDerivAt (n s : Nat) (hs : s < n) (y : Nat → ℝ) :
    HasDerivAt (fun t => meanI n (Function.update y s t)) (1 / (n : ℝ)) (y s) := by
  unfold meanI
  simp only [isum_eq, ofNat_real, sum_update n s hs]
  exact ((hasDerivAt_id' (y s)).add_const (∑ r ∈ range n \ {s}, y r)).div_const (n : ℝ)

theorem sum_sub_mean (n : Nat) (hn : 0 < n) (y : Nat → ℝ) :
    ∑ r ∈ range n, (y r - meanI n y) = 0 := by
  unfold meanI
  simp only [isum_eq, ofNat_real, Finset.sum_sub_distrib, Finset.sum_const, card_range,
    nsmul_eq_mul]
  have : (n : ℝ) ≠ 0 := by exact_mod_cast hn.ne'
  field_simp
  ring

theorem mean_sub_mean (n : Nat) (hn : 0 < n) (y : Nat → ℝ) :
    meanI n (fun s => y s - meanI n y) = 0 := by
  rw [meanI_eq, sum_sub_mean n hn y, zero_div]

theorem var_update_hasDerivAt (n s : Nat) (hs : s < n) (hn : 2 ≤ n) (y : Nat → ℝ) :
    HasDerivAt (fun t => varI n (Function.update y s t))
      (2 * (y s - meanI n y) / ((n : ℝ) - 1)) (y s) := by
  have hμ := mean_update_hasDerivAt n s hs y
  unfold varI
  simp only [isum_eq, ofNat_real, Nat.cast_one]
  have hterm : ∀ r ∈ range n, HasDerivAt
      (fun t => (Function.update y s t r - meanI n (Function.update y s t))
        * (Function.update y s t r - meanI n (Function.update y s t)))
      (2 * (y r - meanI n y) * ((if r = s then 1 else 0) - 1 / (n : ℝ))) (y s) := by
    intro r _
    have hu : HasDerivAt (fun t => Function.update y s t r) (if r = s then (1:ℝ) else 0) (y s) := by
      by_cases h : r = s
      · subst h; simpa using hasDerivAt_id' (y r)
      · simpa [Function.update_of_ne h, h] using hasDerivAt_const (y s) (y r)
    have hd := hu.sub hμ
    have h2 := hd.mul hd
    refine h2.congr_deriv ?_
    simp only [Pi.sub_apply, Function.update_eq_self]
    ring
  have hsum := (HasDerivAt.fun_sum hterm).div_const ((n : ℝ) - 1)
  refine hsum.congr_deriv ?_
  have h0 := sum_sub_mean n (by omega) y
  have hsplit : ∑ r ∈ range n, 2 * (y r - meanI n y) * ((if r = s then (1:ℝ) else 0) - 1 / (n : ℝ))
      = 2 * (y s - meanI n y) := by
    have e : ∀ r ∈ range n, 2 * (y r - meanI n y) * ((if r = s then (1:ℝ) else 0) - 1 / (n : ℝ))
        = (if r = s then 2 * (y r - meanI n y) else 0) - 2 / (n : ℝ) * (y r - meanI n y) := by
      intro r _; split_ifs <;> ring
    rw [Finset.sum_congr rfl e, Finset.sum_sub_distrib, ← Finset.mul_sum, h0,
      Finset.sum_ite_eq' (range n) s (fun r => 2 * (y r - meanI n y))]
    simp [mem_range.mpr hs]
  rw [hsplit]

/-! ## Gaussian filter -/

/-- the log of a Gaussian kernel up to `-log(2π)/2`, as a function of its mean and variance -/
noncomputable def gscore (mu var v : ℝ) : ℝ := -((mu - v) * (mu - v)) / var / 2 - Real.log var / 2

theorem gscore_hasDerivAt (v : ℝ) (mu var : ℝ → ℝ) (dmu dvar t : ℝ)
    (hmu : HasDerivAt mu dmu t) (hvar : HasDerivAt var dvar t) (hv : var t ≠ 0) :
    HasDerivAt (fun u => gscore (mu u) (var u) v)
      ((v - mu t) / var t * dmu
        + (-(1 / var t) + (v - mu t) * (v - mu t) / (var t * var t)) * (dvar / 2)) t := by
  unfold gscore
  have hd := hmu.sub_const v
  have hq := ((hd.mul hd).neg.div hvar hv).div_const 2
  have hl := (hvar.log hv).div_const 2
  refine (hq.sub hl).congr_deriv ?_
  simp only [Pi.mul_apply, Pi.neg_apply]
  field_simp
  ring

theorem gfTerm_eq (mu var v : ℝ) :
    gfTerm mu var v = Real.log (2 * Real.pi) - 2 * gscore mu var v := by
  unfold gfTerm gscore
  simp only [log_real, two_real, pi_real]
  ring

theorem gfCell_eq (m n : Nat) (o : Nat → Option ℝ) (y : Nat → ℝ) :
    gfCell m n o y
      = msum m o (fun v => gscore (meanI n y) (varI n y) v - Real.log (2 * Real.pi) / 2) := by
  unfold gfCell
  simp only [two_real, msum_eq_sum, neg_div, Finset.sum_div, ← Finset.sum_neg_distrib]
  refine Finset.sum_congr rfl fun i _ => ?_
  cases o i with
  | none => simp
  | some v => simp only [gfTerm_eq]; ring

/-- gradient of the Gaussian cell score w.r.t. simulated value `s` -/
theorem gfCell_hasDerivAt (m n s : Nat) (hs : s < n) (hn : 2 ≤ n) (o : Nat → Option ℝ)
    (y : Nat → ℝ) (hv : 0 < varI n y) :
    HasDerivAt (fun t => gfCell m n o (Function.update y s t)) (gfGradCell m n o y s) (y s) := by
  have hμ := mean_update_hasDerivAt n s hs y
  have hvar := var_update_hasDerivAt n s hs hn y
  have hself : Function.update y s (y s) = y := Function.update_eq_self s y
  have hn1 : (n:ℝ) - 1 ≠ 0 := by
    have : (2:ℝ) ≤ n := by exact_mod_cast hn
    linarith
  have hfun : (fun t => gfCell m n o (Function.update y s t)) = fun t => msum m o (fun v =>
      gscore (meanI n (Function.update y s t)) (varI n (Function.update y s t)) v
        - Real.log (2 * Real.pi) / 2) := by
    funext t; exact gfCell_eq m n o _
  rw [hfun]
  have h := hasDerivAt_msum m o
    (fun v t => gscore (meanI n (Function.update y s t)) (varI n (Function.update y s t)) v
        - Real.log (2 * Real.pi) / 2)
    (fun v => (v - meanI n y) / varI n y * (1 / (n:ℝ))
        + (-(1 / varI n y) + (v - meanI n y) * (v - meanI n y) / (varI n y * varI n y))
          * ((2 * (y s - meanI n y) / ((n : ℝ) - 1)) / 2)) (y s)
    (fun i _ v _ => by
      have := (gscore_hasDerivAt v _ _ _ _ (y s) hμ hvar (by rw [hself]; exact hv.ne')).sub_const
        (Real.log (2 * Real.pi) / 2)
      simpa only [hself] using this)
  refine h.congr_deriv ?_
  unfold gfGradCell
  simp only [ofNat_real, oneS_real, Nat.cast_one]
  rw [msum_add, msum_mul_const, msum_mul_const]
  field_simp

/-! ## logsumexp / softmax -/

theorem sum_exp_pos (n : Nat) (hn : 0 < n) (a : Nat → ℝ) : 0 < ∑ s ∈ range n, Real.exp (a s) :=
  Finset.sum_pos (fun s _ => Real.exp_pos _) ⟨0, mem_range.mpr hn⟩

/-- chi's shifted `logsumexp` is `log Σ exp`, whatever the shift -/
theorem lse_eq (n : Nat) (hn : 0 < n) (a : Nat → ℝ) :
    lse n a = Real.log (∑ s ∈ range n, Real.exp (a s)) := by
  unfold lse
  simp only [log_real, exp_real, isum_eq]
  generalize (if isFiniteS (imax n a) = true then imax n a else ofNat 0) = c
  have h : ∑ s ∈ range n, Real.exp (a s - c) = Real.exp (-c) * ∑ s ∈ range n, Real.exp (a s) := by
    rw [Finset.mul_sum]
    refine Finset.sum_congr rfl fun s _ => ?_
    rw [← Real.exp_add]; congr 1; ring
  rw [h, Real.log_mul (Real.exp_pos _).ne' (sum_exp_pos n hn a).ne', Real.log_exp]
  ring

theorem softmaxI_eq (n : Nat) (hn : 0 < n) (a : Nat → ℝ) (s : Nat) :
    softmaxI n a s = Real.exp (a s) / ∑ s' ∈ range n, Real.exp (a s') := by
  unfold softmaxI
  simp only [exp_real]
  rw [lse_eq n hn, Real.exp_sub, Real.exp_log (sum_exp_pos n hn a)]

theorem hasDerivAt_lse (n : Nat) (hn : 0 < n) (a : Nat → ℝ → ℝ) (a' : Nat → ℝ) (t : ℝ)
    (h : ∀ s, s < n → HasDerivAt (a s) (a' s) t) :
    HasDerivAt (fun u => lse n (fun s => a s u))
      (isum n (fun s => softmaxI n (fun s' => a s' t) s * a' s)) t := by
  have hfun : (fun u => lse n (fun s => a s u))
      = fun u => Real.log (∑ s ∈ range n, Real.exp (a s u)) := by
    funext u; exact lse_eq n hn _
  rw [hfun]
  have hsum : HasDerivAt (fun u => ∑ s ∈ range n, Real.exp (a s u))
      (∑ s ∈ range n, Real.exp (a s t) * a' s) t :=
    HasDerivAt.fun_sum fun s hs => (h s (mem_range.mp hs)).exp
  have hl := hsum.log (sum_exp_pos n hn (fun s => a s t)).ne'
  refine hl.congr_deriv ?_
  rw [isum_eq, Finset.sum_div]
  refine Finset.sum_congr rfl fun s _ => ?_
  rw [softmaxI_eq n hn]
  ring

/-! ## kernel density filters -/

theorem kscore_hasDerivAt (v : ℝ) (ys bw : ℝ → ℝ) (dys dbw t : ℝ)
    (hy : HasDerivAt ys dys t) (hb : HasDerivAt bw dbw t) (hb0 : bw t ≠ 0) :
    HasDerivAt (fun u => -((ys u - v) * (ys u - v)) / bw u / 2)
      ((v - ys t) / bw t * dys - (-((ys t - v) * (ys t - v)) / bw t / 2) * (dbw / bw t)) t := by
  have hd := hy.sub_const v
  have hq := ((hd.mul hd).neg.div hb hb0).div_const 2
  refine hq.congr_deriv ?_
  simp only [Pi.mul_apply, Pi.neg_apply]
  field_simp
  ring

theorem kdeFactor_pos (n : Nat) : 0 < (kdeFactor n : ℝ) := by
  unfold kdeFactor; simp only [exp_real]; exact Real.exp_pos _

theorem update_hasDerivAt (y : Nat → ℝ) (s s' : Nat) :
    HasDerivAt (fun t => Function.update y s t s') (if s' = s then (1:ℝ) else 0) (y s) := by
  by_cases h : s' = s
  · subst h; simpa using hasDerivAt_id' (y s')
  · simpa [Function.update_of_ne h, h] using hasDerivAt_const (y s) (y s')

theorem kdeBw2_hasDerivAt (n s : Nat) (hs : s < n) (hn : 2 ≤ n) (y : Nat → ℝ) :
    HasDerivAt (fun t => kdeBw2 n (Function.update y s t))
      (kdeFactor n * (2 * (y s - meanI n y) / ((n : ℝ) - 1))) (y s) := by
  unfold kdeBw2
  exact (var_update_hasDerivAt n s hs hn y).const_mul _

theorem kdeTerm_hasDerivAt (n s : Nat) (hs : s < n) (hn : 2 ≤ n) (y : Nat → ℝ) (v : ℝ)
    (hv : 0 < varI n y) :
    HasDerivAt (fun t => kdeTerm n (Function.update y s t) v)
      (softmaxI n (kdeScore (kdeBw2 n y) y v) s * (v - y s) / kdeBw2 n y
        - isum n (fun s' => softmaxI n (kdeScore (kdeBw2 n y) y v) s' * kdeScore (kdeBw2 n y) y v s')
          * kdeD n y s
        - kdeD n y s / 2) (y s) := by
  have hself : Function.update y s (y s) = y := Function.update_eq_self s y
  have hbw := kdeBw2_hasDerivAt n s hs hn y
  have hb0 : kdeBw2 n y ≠ 0 := (mul_pos (kdeFactor_pos n) hv).ne'
  have hn1 : (n:ℝ) - 1 ≠ 0 := by
    have : (2:ℝ) ≤ n := by exact_mod_cast hn
    linarith
  have hD : kdeFactor n * (2 * (y s - meanI n y) / ((n : ℝ) - 1)) / kdeBw2 n y = kdeD n y s := by
    unfold kdeD kdeBw2
    simp only [two_real, ofNat_real, Nat.cast_one]
    have := (kdeFactor_pos n).ne'
    field_simp
  -- the scores
  have hsc : ∀ s', s' < n → HasDerivAt
      (fun t => kdeScore (kdeBw2 n (Function.update y s t)) (Function.update y s t) v s')
      ((v - y s') / kdeBw2 n y * (if s' = s then (1:ℝ) else 0)
        - kdeScore (kdeBw2 n y) y v s' * kdeD n y s) (y s) := by
    intro s' _
    have := kscore_hasDerivAt v (fun t => Function.update y s t s')
      (fun t => kdeBw2 n (Function.update y s t)) _ _ (y s) (update_hasDerivAt y s s') hbw
      (by simpa only [hself] using hb0)
    simp only [hself, hD] at this
    unfold kdeScore
    simpa only [two_real] using this
  have hl := hasDerivAt_lse n (by omega)
    (fun s' t => kdeScore (kdeBw2 n (Function.update y s t)) (Function.update y s t) v s') _ (y s) hsc
  have hlogbw := (hbw.log (by simpa only [hself] using hb0)).div_const 2
  have h := ((hl.sub_const (Real.log (n:ℝ))).sub_const (Real.log (2 * Real.pi) / 2)).sub hlogbw
  unfold kdeTerm
  simp only [log_real, two_real, pi_real, ofNat_real]
  refine h.congr_deriv ?_
  simp only [hself, hD]
  congr 1
  simp only [isum_eq, mul_sub, Finset.sum_sub_distrib, Finset.sum_mul]
  congr 1
  · have : ∀ s' ∈ range n, softmaxI n (kdeScore (kdeBw2 n y) y v) s'
        * ((v - y s') / kdeBw2 n y * (if s' = s then (1:ℝ) else 0))
        = if s' = s then softmaxI n (kdeScore (kdeBw2 n y) y v) s' * (v - y s') / kdeBw2 n y else 0 := by
      intro s' _; split_ifs <;> ring
    rw [Finset.sum_congr rfl this, Finset.sum_ite_eq' (range n) s, if_pos (mem_range.mpr hs)]
    ring
  · refine Finset.sum_congr rfl fun s' _ => ?_
    ring

theorem kdeCell_hasDerivAt (m n s : Nat) (hs : s < n) (hn : 2 ≤ n) (o : Nat → Option ℝ)
    (y : Nat → ℝ) (hv : 0 < varI n y) :
    HasDerivAt (fun t => kdeCell m n o (Function.update y s t)) (kdeGradCell m n o y s) (y s) := by
  unfold kdeCell kdeGradCell
  simp only [two_real]
  exact hasDerivAt_msum m o (fun v t => kdeTerm n (Function.update y s t) v) _ (y s)
    (fun i _ v _ => kdeTerm_hasDerivAt n s hs hn y v hv)

/-! ## Gaussian mixture filter -/

theorem meanI_congr (n : Nat) (f g : Nat → ℝ) (h : ∀ q, q < n → f q = g q) :
    meanI n f = meanI n g := by
  rw [meanI_eq, meanI_eq, Finset.sum_congr rfl fun q hq => h q (mem_range.mp hq)]

theorem varI_congr (n : Nat) (f g : Nat → ℝ) (h : ∀ q, q < n → f q = g q) :
    varI n f = varI n g := by
  rw [varI_eq, varI_eq, meanI_congr n f g h]
  congr 1
  exact Finset.sum_congr rfl fun q hq => by rw [h q (mem_range.mp hq)]

theorem blk_update_ne (p k s : Nat) (y : Nat → ℝ) (t : ℝ) (hk : k ≠ s / p) (q : Nat) (hq : q < p) :
    blk p k (Function.update y s t) q = blk p k y q := by
  unfold blk
  rw [Function.update_of_ne]
  intro h
  apply hk
  rw [← h, Nat.mul_comm, Nat.mul_add_div (by omega), Nat.div_eq_of_lt hq, Nat.add_zero]

theorem blk_update_eq (p s : Nat) (y : Nat → ℝ) (t : ℝ) (q : Nat) (hq : q < p) :
    blk p (s / p) (Function.update y s t) q = Function.update (blk p (s / p) y) (s % p) t q := by
  unfold blk
  have hs : s / p * p + s % p = s := by rw [Nat.mul_comm]; exact Nat.div_add_mod s p
  by_cases h : q = s % p
  · subst h; simp [hs]
  · rw [Function.update_of_ne h, Function.update_of_ne]
    intro h'
    apply h
    omega

theorem mixScore_eq (p : Nat) (y : Nat → ℝ) (v : ℝ) (k : Nat) :
    mixScore p y v k = gscore (meanI p (blk p k y)) (varI p (blk p k y)) v := by
  unfold mixScore gscore
  simp only [log_real, two_real]

theorem mixTerm_hasDerivAt (K p s : Nat) (hs : s < K * p) (hp : 2 ≤ p) (y : Nat → ℝ) (v : ℝ)
    (hv : 0 < varI p (blk p (s / p) y)) :
    HasDerivAt (fun t => mixTerm K p (Function.update y s t) v)
      (softmaxI K (mixScore p y v) (s / p)
        * ((v - meanI p (blk p (s / p) y)) / varI p (blk p (s / p) y) / (p : ℝ)
          + (-(1 / varI p (blk p (s / p) y))
              + (v - meanI p (blk p (s / p) y)) * (v - meanI p (blk p (s / p) y))
                / (varI p (blk p (s / p) y) * varI p (blk p (s / p) y)))
            * (y s - meanI p (blk p (s / p) y)) / ((p : ℝ) - 1))) (y s) := by
  set k0 := s / p with hk0
  set b := blk p k0 y with hb
  have hk0K : k0 < K := Nat.div_lt_of_lt_mul (by rw [Nat.mul_comm]; exact hs)
  have hq0 : s % p < p := Nat.mod_lt _ (by omega)
  have hbs : b (s % p) = y s := by
    simp only [hb, blk, hk0]
    congr 1
    rw [Nat.mul_comm]; exact Nat.div_add_mod s p
  have hself : Function.update y s (y s) = y := Function.update_eq_self s y
  have hp1 : (p:ℝ) - 1 ≠ 0 := by
    have : (2:ℝ) ≤ p := by exact_mod_cast hp
    linarith
  -- the scores of every kernel
  have hsc : ∀ k, k < K → HasDerivAt (fun t => mixScore p (Function.update y s t) v k)
      (if k = k0 then
        ((v - meanI p b) / varI p b * (1 / (p:ℝ))
          + (-(1 / varI p b) + (v - meanI p b) * (v - meanI p b) / (varI p b * varI p b))
            * ((2 * (y s - meanI p b) / ((p : ℝ) - 1)) / 2)) else 0) (y s) := by
    intro k _
    by_cases hk : k = k0
    · subst hk
      rw [if_pos rfl]
      have hfun : (fun t => mixScore p (Function.update y s t) v k0)
          = fun t => gscore (meanI p (Function.update b (s % p) t))
              (varI p (Function.update b (s % p) t)) v := by
        funext t
        rw [mixScore_eq, meanI_congr p _ _ (blk_update_eq p s y t),
          varI_congr p _ _ (blk_update_eq p s y t)]
      rw [hfun, ← hbs]
      have hμ := mean_update_hasDerivAt p (s % p) hq0 b
      have hvar := var_update_hasDerivAt p (s % p) hq0 hp b
      have hselfb : Function.update b (s % p) (b (s % p)) = b := Function.update_eq_self _ b
      have := gscore_hasDerivAt v _ _ _ _ (b (s % p)) hμ hvar (by rw [hselfb]; exact hv.ne')
      simpa only [hselfb] using this
    · rw [if_neg hk]
      have hfun : (fun t => mixScore p (Function.update y s t) v k)
          = fun _ => mixScore p y v k := by
        funext t
        rw [mixScore_eq, mixScore_eq, meanI_congr p _ _ (blk_update_ne p k s y t hk),
          varI_congr p _ _ (blk_update_ne p k s y t hk)]
      rw [hfun]
      exact hasDerivAt_const _ _
  have hK : 0 < K := Nat.lt_of_le_of_lt (Nat.zero_le _) hk0K
  have hl := hasDerivAt_lse K hK (fun k t => mixScore p (Function.update y s t) v k) _ (y s) hsc
  have h := (hl.sub_const (Real.log (K:ℝ))).sub_const (Real.log (2 * Real.pi) / 2)
  unfold mixTerm
  simp only [log_real, two_real, pi_real, ofNat_real]
  refine h.congr_deriv ?_
  simp only [hself, isum_eq, mul_ite, mul_zero]
  rw [Finset.sum_ite_eq' (range K) k0, if_pos (mem_range.mpr hk0K)]
  congr 1
  field_simp

theorem mixCell_hasDerivAt (m K p s : Nat) (hs : s < K * p) (hp : 2 ≤ p) (o : Nat → Option ℝ)
    (y : Nat → ℝ) (hv : 0 < varI p (blk p (s / p) y)) :
    HasDerivAt (fun t => mixCell m K p o (Function.update y s t)) (mixGradCell m K p o y s) (y s) := by
  unfold mixCell mixGradCell
  simp only [oneS_real, ofNat_real, Nat.cast_one]
  exact hasDerivAt_msum m o (fun v t => mixTerm K p (Function.update y s t) v) _ (y s)
    (fun i _ v _ => mixTerm_hasDerivAt K p s hs hp y v hv)

/-! ## log-normal filters: the Gaussian ones on the logarithms -/

theorem logv_update (y : Nat → ℝ) (s : Nat) (t : ℝ) :
    logv (Function.update y s t) = Function.update (logv y) s (Real.log t) := by
  funext s'
  unfold logv
  by_cases h : s' = s
  · subst h; simp
  · simp [Function.update_of_ne h]

theorem msum_div_const (m : Nat) (o : Nat → Option ℝ) (f : ℝ → ℝ) (c : ℝ) :
    msum m o (fun v => f v / c) = msum m o f / c := by
  simp only [div_eq_mul_inv, msum_mul_const]

theorem lnfCell_eq (m n : Nat) (o : Nat → Option ℝ) (y : Nat → ℝ) :
    lnfCell m n o y = gfCell m n (logo o) (logv y) - msum m (logo o) (fun lv => lv) := by
  unfold lnfCell gfCell
  simp only [two_real, msum_eq_sum, neg_div, Finset.sum_div, ← Finset.sum_neg_distrib,
    ← Finset.sum_sub_distrib]
  refine Finset.sum_congr rfl fun i _ => ?_
  cases logo o i with
  | none => simp
  | some v => simp only [lnTerm, gfTerm, two_real]; ring

theorem lnfGradCell_eq (m n : Nat) (hn : 0 < n) (o : Nat → Option ℝ) (y : Nat → ℝ) (s : Nat) :
    lnfGradCell m n o y s = gfGradCell m n (logo o) (logv y) s / y s := by
  unfold lnfGradCell gfGradCell
  simp only [oneS_real, ofNat_real, Nat.cast_one, mean_sub_mean n hn (logv y), sub_zero]
  congr 1
  have : msum m (logo o) (fun lv => (lv - meanI n (logv y)) * (lv - meanI n (logv y))
        / (varI n (logv y) * varI n (logv y)) - 1 / varI n (logv y))
      = msum m (logo o) (fun v => -(1 / varI n (logv y)) + (v - meanI n (logv y))
        * (v - meanI n (logv y)) / (varI n (logv y) * varI n (logv y))) :=
    msum_congr m _ _ _ fun i _ v _ => by ring
  rw [this]
  ring

theorem lnfCell_hasDerivAt (m n s : Nat) (hs : s < n) (hn : 2 ≤ n) (o : Nat → Option ℝ)
    (y : Nat → ℝ) (hy : y s ≠ 0) (hv : 0 < varI n (logv y)) :
    HasDerivAt (fun t => lnfCell m n o (Function.update y s t)) (lnfGradCell m n o y s) (y s) := by
  have hG := gfCell_hasDerivAt m n s hs hn (logo o) (logv y) hv
  have hc := HasDerivAt.comp (y s) hG (Real.hasDerivAt_log hy)
  have hfun : (fun t => lnfCell m n o (Function.update y s t))
      = fun t => ((fun u => gfCell m n (logo o) (Function.update (logv y) s u)) ∘ Real.log) t
          - msum m (logo o) (fun lv => lv) := by
    funext t
    rw [lnfCell_eq, logv_update]
    rfl
  rw [hfun, lnfGradCell_eq m n (by omega)]
  refine (hc.sub_const _).congr_deriv ?_
  rw [div_eq_mul_inv]

theorem lnkdeGradCell_eq (m n : Nat) (o : Nat → Option ℝ) (y : Nat → ℝ) (s : Nat) :
    lnkdeGradCell m n o y s = kdeGradCell m n (logo o) (logv y) s / y s := by
  unfold lnkdeGradCell kdeGradCell
  simp only [two_real]
  rw [← msum_div_const]
  refine msum_congr m _ _ _ fun i _ v _ => ?_
  simp only [logv]
  ring

theorem lnkdeCell_eq (m n : Nat) (o : Nat → Option ℝ) (y : Nat → ℝ) :
    lnkdeCell m n o y = kdeCell m n (logo o) (logv y) - msum m (logo o) (fun lv => lv) := by
  unfold lnkdeCell kdeCell
  rw [msum_sub]

/-- the legacy class (no Jacobian term) exceeds the repaired one by `Σ log y` -/
theorem lnkdeCellLegacy_eq (m n : Nat) (o : Nat → Option ℝ) (y : Nat → ℝ) :
    lnkdeCellLegacy m n o y = lnkdeCell m n o y + msum m (logo o) (fun lv => lv) := by
  rw [lnkdeCell_eq]; unfold lnkdeCellLegacy; ring

theorem lnkdeCell_hasDerivAt (m n s : Nat) (hs : s < n) (hn : 2 ≤ n) (o : Nat → Option ℝ)
    (y : Nat → ℝ) (hy : y s ≠ 0) (hv : 0 < varI n (logv y)) :
    HasDerivAt (fun t => lnkdeCell m n o (Function.update y s t)) (lnkdeGradCell m n o y s) (y s) := by
  have hG := kdeCell_hasDerivAt m n s hs hn (logo o) (logv y) hv
  have hc := HasDerivAt.comp (y s) hG (Real.hasDerivAt_log hy)
  have hfun : (fun t => lnkdeCell m n o (Function.update y s t))
      = fun t => ((fun u => kdeCell m n (logo o) (Function.update (logv y) s u)) ∘ Real.log) t
          - msum m (logo o) (fun lv => lv) := by
    funext t
    rw [lnkdeCell_eq, logv_update]
    rfl
  rw [hfun, lnkdeGradCell_eq]
  refine (hc.sub_const _).congr_deriv ?_
  rw [div_eq_mul_inv]

/-! ## from one cell to the whole array -/

/-- replace the single entry `[s, r, j]` of the simulated measurements -/
def upd3 (y : Nat → Nat → Nat → ℝ) (s r j : Nat) (t : ℝ) : Nat → Nat → Nat → ℝ :=
  fun s' r' j' => if s' = s ∧ r' = r ∧ j' = j then t else y s' r' j'

theorem upd3_cell_same (y : Nat → Nat → Nat → ℝ) (s r j : Nat) (t : ℝ) :
    (fun s' => upd3 y s r j t s' r j) = Function.update (fun s' => y s' r j) s t := by
  funext s'
  unfold upd3
  by_cases h : s' = s
  · subst h; simp
  · simp [h, Function.update_of_ne h]

theorem upd3_cell_other (y : Nat → Nat → Nat → ℝ) (s r j r' j' : Nat) (t : ℝ)
    (h : ¬ (r' = r ∧ j' = j)) :
    (fun s' => upd3 y s r j t s' r' j') = fun s' => y s' r' j' := by
  funext s'
  unfold upd3
  rw [if_neg]
  tauto

theorem filterVal_hasDerivAt (k : FKind) (m n R T : Nat) (obs : Nat → Nat → Nat → Option ℝ)
    (y : Nat → Nat → Nat → ℝ) (s r j : Nat) (hr : r < R) (hj : j < T) (g : ℝ)
    (h : HasDerivAt (fun t => cellVal k m n (fun i => obs i r j)
      (Function.update (fun s' => y s' r j) s t)) g (y s r j)) :
    HasDerivAt (fun t => filterVal k m n R T obs (upd3 y s r j t)) g (y s r j) := by
  unfold filterVal
  have hin : ∀ r', r' < R → HasDerivAt (fun t => isum T (fun j' =>
      cellVal k m n (fun i => obs i r' j') (fun s' => upd3 y s r j t s' r' j')))
      (isum T (fun j' => if r' = r ∧ j' = j then g else 0)) (y s r j) := by
    intro r' _
    refine hasDerivAt_isum T _ _ _ fun j' _ => ?_
    by_cases hc : r' = r ∧ j' = j
    · obtain ⟨rfl, rfl⟩ := hc
      simp only [and_self, if_true, upd3_cell_same]
      exact h
    · rw [if_neg hc]
      simp only [upd3_cell_other y s r j r' j' _ hc]
      exact hasDerivAt_const _ _
  refine (hasDerivAt_isum R _ _ _ hin).congr_deriv ?_
  simp only [isum_eq]
  have : ∀ r' ∈ range R, (∑ j' ∈ range T, if r' = r ∧ j' = j then g else 0)
      = if r' = r then g else 0 := by
    intro r' _
    by_cases hr' : r' = r
    · simp [hr', Finset.sum_ite_eq', mem_range.mpr hj]
    · simp [hr']
  rw [Finset.sum_congr rfl this, Finset.sum_ite_eq' (range R) r, if_pos (mem_range.mpr hr)]

end PF
end ChiModel
