import ChiProofs.Props.C04
import ChiModel.Samplers
import Mathlib.Probability.Distributions.Gaussian.Real
import Mathlib.Probability.ConditionalProbability
import Mathlib.Probability.Independence.Basic
import Mathlib.Probability.CDF
import Mathlib.MeasureTheory.Function.JacobianOneDim
import Mathlib.MeasureTheory.Integral.IntegralEqImproper
import ChiProofs.Lemmas.Phi

/-!
# Helper lemmas for C06 (measure theory of the primitive draws; no property statements here)
-/
set_option linter.unusedSectionVars false
namespace ChiModel
open ScalarFns ProbabilityTheory MeasureTheory Filter Topology
open scoped NNReal ENNReal

@[simp] theorem c06_zero_real : (zero : ℝ) = 0 := by simp [zero]
@[simp] theorem one_real : (one : ℝ) = 1 := by simp [one]

/-- the variance `s²` as an `ℝ≥0` -/
noncomputable def sqv (s : ℝ) : ℝ≥0 := NNReal.mk (s ^ 2) (sq_nonneg _)

@[simp] theorem sqv_coe (s : ℝ) : ((sqv s : ℝ≥0) : ℝ) = s ^ 2 := rfl

theorem sqv_ne_zero {s : ℝ} (hs : s ≠ 0) : sqv s ≠ 0 := by
  intro h; have := congrArg NNReal.toReal h; simp [sqv] at this; exact hs this

theorem sqv_one : sqv 1 = 1 := by
  apply NNReal.coe_injective; simp [sqv]

/-! ## `Generator.normal`, `Generator.lognormal` of an ideal standard-normal draw -/

theorem measurable_normalPrim (loc scale : ℝ) : Measurable (normalPrim loc scale) := by
  unfold normalPrim; fun_prop

/-- `Generator.normal(loc, scale)` of an ideal standard-normal draw is `N(loc, scale²)` -/
theorem normalPrim_law (loc scale : ℝ) :
    (gaussianReal 0 1).map (normalPrim loc scale) = gaussianReal loc (sqv scale) := by
  have h1 : (gaussianReal 0 1).map (fun z => scale * z)
      = gaussianReal (scale * 0) (sqv scale * 1) := gaussianReal_map_const_mul scale
  have : normalPrim loc scale = (fun x => loc + x) ∘ (fun z => scale * z) := rfl
  rw [this, ← Measure.map_map (by fun_prop) (by fun_prop), h1, gaussianReal_map_const_add]
  simp

/-- law of a transformed ideal draw on any probability space -/
theorem map_comp_of_law {Ω : Type} [MeasurableSpace Ω] {P : Measure Ω} {Z : Ω → ℝ} {ν : Measure ℝ}
    [NeZero ν] (hZ : P.map Z = ν) {f : ℝ → ℝ} (hf : Measurable f) :
    P.map (f ∘ Z) = ν.map f := by
  have hm : AEMeasurable Z P := by
    apply AEMeasurable.of_map_ne_zero; simp [NeZero.ne, hZ]
  rw [← hZ, AEMeasurable.map_map_of_aemeasurable hf.aemeasurable hm]

/-- a Gaussian law with standard deviation `T ≠ 0` has the density `exp (score)` whenever the
    score is the logarithm of the Gaussian pdf -/
theorem gaussianReal_eq_withDensity_exp (m T : ℝ) (hT : T ≠ 0) (score : ℝ → ℝ)
    (h : ∀ y, score y = Real.log (gaussianPDFReal m (sqv T) y)) :
    gaussianReal m (sqv T) = volume.withDensity (fun y => ENNReal.ofReal (Real.exp (score y))) := by
  rw [gaussianReal_of_var_ne_zero _ (sqv_ne_zero hT)]
  congr 1
  funext y
  rw [h y, Real.exp_log (gaussianPDFReal_pos _ _ _ (sqv_ne_zero hT))]
  rfl

/-- the law of `exp X`, `X ~ N(m, v)`, has the log-normal density on `(0, ∞)` -/
theorem map_exp_gaussianReal (m : ℝ) {v : ℝ≥0} (hv : v ≠ 0) :
    (gaussianReal m v).map Real.exp
      = (volume.restrict (Set.Ioi 0)).withDensity (fun y => ENNReal.ofReal (logNormalPDF m v y)) := by
  ext s hs
  rw [Measure.map_apply Real.measurable_exp hs, gaussianReal_apply _ hv,
    withDensity_apply _ hs, Measure.restrict_restrict hs]
  have himg : Real.exp '' (Real.exp ⁻¹' s) = s ∩ Set.Ioi 0 := by
    rw [Set.image_preimage_eq_inter_range, Real.range_exp]
  rw [← himg, lintegral_image_eq_lintegral_abs_deriv_mul (Real.measurable_exp hs)
    (fun x _ => (Real.hasDerivAt_exp x).hasDerivWithinAt) Real.exp_injective.injOn]
  refine lintegral_congr fun x => ?_
  rw [← ENNReal.ofReal_mul (abs_nonneg _)]
  simp only [gaussianPDF, logNormalPDF, Real.log_exp, abs_of_pos (Real.exp_pos x)]
  congr 1
  field_simp

theorem lognormalPrim_eq (mean sigma : ℝ) :
    lognormalPrim mean sigma = Real.exp ∘ normalPrim mean sigma := rfl

/-- `Generator.lognormal(mean, sigma)` of an ideal draw: the log-normal law -/
theorem lognormalPrim_law (mean sigma : ℝ) (hs : sigma ≠ 0) :
    (gaussianReal 0 1).map (lognormalPrim mean sigma)
      = (volume.restrict (Set.Ioi 0)).withDensity
          (fun y => ENNReal.ofReal (logNormalPDF mean (sqv sigma) y)) := by
  rw [lognormalPrim_eq, ← Measure.map_map Real.measurable_exp (measurable_normalPrim _ _),
    normalPrim_law, map_exp_gaussianReal _ (sqv_ne_zero hs)]

/-! ## positions of a C-ordered block -/

theorem pos_lt {nT nS j s : Nat} (hj : j < nT) (hs : s < nS) : pos nS j s < nT * nS := by
  unfold pos
  calc j * nS + s < j * nS + nS := by omega
    _ = (j + 1) * nS := by ring
    _ ≤ nT * nS := Nat.mul_le_mul_right _ hj

theorem pos_inj {nS j s j' s' : Nat} (hs : s < nS) (hs' : s' < nS)
    (h : pos nS j s = pos nS j' s') : j = j' ∧ s = s' := by
  unfold pos at h
  have hn : 0 < nS := by omega
  have h1 : (j * nS + s) / nS = j := by
    rw [Nat.add_comm, Nat.add_mul_div_right _ _ hn, Nat.div_eq_of_lt hs]; simp
  have h2 : (j' * nS + s') / nS = j' := by
    rw [Nat.add_comm, Nat.add_mul_div_right _ _ hn, Nat.div_eq_of_lt hs']; simp
  have hj : j = j' := by rw [← h1, ← h2, h]
  subst hj
  exact ⟨rfl, by omega⟩

/-! ## measurability of the one-draw transformations -/

theorem measurable_gaussDraw (s y : ℝ) : Measurable (gaussDraw s y) := by
  unfold gaussDraw normalPrim; fun_prop
theorem measurable_multDraw (s y : ℝ) : Measurable (multDraw s y) := by
  unfold multDraw normalPrim; fun_prop
theorem measurable_lnDraw (s y : ℝ) : Measurable (lnDraw s y) := by
  unfold lnDraw lognormalPrim
  simp only [exp_real]
  fun_prop
theorem measurable_cmDraw (sb sr y : ℝ) : Measurable (fun p : ℝ × ℝ => cmDraw sb sr y p.1 p.2) := by
  unfold cmDraw normalPrim; fun_prop

theorem cmDraw_eq (sb sr ybar z1 z2 : ℝ) :
    cmDraw sb sr ybar z1 z2 = normalPrim ybar sb z1 + normalPrim 0 (sr * ybar) z2 := by
  simp [cmDraw, normalPrim]; ring

theorem lnDraw_eq (sigma ybar : ℝ) (hy : 0 < ybar) :
    lnDraw sigma ybar = Real.exp ∘ normalPrim (Real.log ybar - sigma ^ 2 / 2) sigma := by
  funext z
  simp only [lnDraw, lognormalPrim, normalPrim, Function.comp, exp_real, two_real]
  rw [show Real.log ybar - sigma ^ 2 / 2 + sigma * z
      = Real.log ybar + (-(sigma * sigma) / 2 + sigma * z) by ring,
    Real.exp_add (Real.log ybar), Real.exp_log hy]

/-! ## conditioning, the standard normal cdf, the truncated Gaussian -/

/-- conditioning commutes with a measurable map -/
theorem map_cond_preimage {μ : Measure ℝ} {f : ℝ → ℝ} (hf : Measurable f) {s : Set ℝ}
    (hs : MeasurableSet s) : (cond μ (f ⁻¹' s)).map f = cond (μ.map f) s := by
  unfold ProbabilityTheory.cond
  rw [Measure.map_smul, Measure.restrict_map hf hs, Measure.map_apply hf hs]

theorem preimage_normalPrim_Ici (mu sigma c : ℝ) (hs : 0 < sigma) :
    normalPrim mu sigma ⁻¹' Set.Ici c = Set.Ici ((c - mu) / sigma) := by
  ext t
  simp only [Set.mem_preimage, Set.mem_Ici, normalPrim]
  rw [div_le_iff₀ hs]
  constructor <;> intro h <;> nlinarith

/-- standard normal cdf -/

theorem stdGaussian_Ici (a : ℝ) : gaussianReal 0 1 (Set.Ici a) = ENNReal.ofReal (1 - Phi a) := by
  have hns := nullSingletonClass_gaussianReal (μ := 0) (v := 1) one_ne_zero
  have h1 : gaussianReal 0 1 (Set.Ici a) = 1 - gaussianReal 0 1 (Set.Iio a) := by
    rw [← Set.compl_Iio, prob_compl_eq_one_sub measurableSet_Iio]
  rw [h1, measure_congr (Iio_ae_eq_Iic (μ := gaussianReal 0 1)), ← ofReal_cdf,
    ← ENNReal.ofReal_one, ← ENNReal.ofReal_sub _ (cdf_nonneg _ _)]
  rfl

/-- mass of `[0, ∞)` under `N(mu, sigma²)`: the normalising constant of the documented density -/
theorem gaussianReal_Ici_zero (mu sigma : ℝ) (hs : 0 < sigma) :
    gaussianReal mu (sqv sigma) (Set.Ici 0) = ENNReal.ofReal (1 - Phi (-mu / sigma)) := by
  rw [← normalPrim_law, Measure.map_apply (measurable_normalPrim _ _) measurableSet_Ici,
    preimage_normalPrim_Ici mu sigma 0 hs, zero_sub, stdGaussian_Ici]

theorem one_sub_Phi_pos (a : ℝ) : 0 < 1 - Phi a := by
  have h := stdGaussian_Ici a
  by_contra hle
  rw [ENNReal.ofReal_of_nonpos (not_lt.mp hle)] at h
  have := gaussianReal_absolutelyContinuous' 0 one_ne_zero h
  simp [Real.volume_Ici] at this

/-- the documented truncated-Gaussian density (on `[0, ∞)`) -/
noncomputable def c06TruncGaussPDF (mu sigma x : ℝ) : ℝ :=
  gaussianPDFReal mu (sqv sigma) x / (1 - Phi (-mu / sigma))

/-- the legacy sampler (`truncnorm(a=0, …)`) draws the Gaussian conditioned on `[mu, ∞)` -/
theorem truncGauss_legacy_law (mu sigma : ℝ) (hs : 0 < sigma) :
    (cond (gaussianReal 0 1) (Set.Ici 0)).map (fun t => mu + sigma * t)
      = cond (gaussianReal mu (sqv sigma)) (Set.Ici mu) := by
  have h := map_cond_preimage (μ := gaussianReal 0 1) (measurable_normalPrim mu sigma)
    (measurableSet_Ici (a := mu))
  rw [preimage_normalPrim_Ici mu sigma mu hs, normalPrim_law] at h
  rw [sub_self, zero_div] at h
  exact h

/-! ## moments of the log-normal density -/

theorem integrable_exp_mul_gaussianPDFReal (m : ℝ) {v : ℝ≥0} (hv : v ≠ 0) (t : ℝ) :
    Integrable (fun x => gaussianPDFReal m v x * Real.exp (t * x)) := by
  have h := integrable_exp_mul_gaussianReal (μ := m) (v := v) t
  rw [gaussianReal_of_var_ne_zero _ hv,
    integrable_withDensity_iff_integrable_smul' (measurable_gaussianPDF m v)
      (ae_of_all _ fun _ => gaussianPDF_lt_top)] at h
  simpa [toReal_gaussianPDF] using h

/-- change of variables `y = exp x` for the `k`-th moment integrand of the log-normal density -/
theorem lognormal_moment_integrand (m : ℝ) (v : ℝ≥0) (k : ℕ) (x : ℝ) :
    |Real.exp x| • (Real.exp x ^ k * logNormalPDF m v (Real.exp x))
      = gaussianPDFReal m v x * Real.exp ((k : ℝ) * x) := by
  simp only [logNormalPDF, Real.log_exp, abs_of_pos (Real.exp_pos x), smul_eq_mul]
  rw [← Real.exp_nat_mul]
  field_simp

theorem integrableOn_lognormal_moment (m : ℝ) {v : ℝ≥0} (hv : v ≠ 0) (k : ℕ) :
    IntegrableOn (fun y => y ^ k * logNormalPDF m v y) (Set.Ioi 0) := by
  have himg : Real.exp '' (Set.univ : Set ℝ) = Set.Ioi 0 := by
    rw [Set.image_univ, Real.range_exp]
  rw [← himg, integrableOn_image_iff_integrableOn_abs_deriv_smul MeasurableSet.univ
    (fun x _ => (Real.hasDerivAt_exp x).hasDerivWithinAt) Real.exp_injective.injOn]
  simp_rw [lognormal_moment_integrand]
  exact (integrable_exp_mul_gaussianPDFReal m hv k).integrableOn

/-- raw moments of the log-normal density: `∫ y^k pdf = exp (k m + k² v / 2)` -/
theorem lognormal_moment (m : ℝ) {v : ℝ≥0} (hv : v ≠ 0) (k : ℕ) :
    ∫ y in Set.Ioi (0:ℝ), y ^ k * logNormalPDF m v y
      = Real.exp (m * k + v * (k:ℝ) ^ 2 / 2) := by
  have himg : Real.exp '' (Set.univ : Set ℝ) = Set.Ioi 0 := by
    rw [Set.image_univ, Real.range_exp]
  have h := integral_image_eq_integral_abs_deriv_smul (s := (Set.univ : Set ℝ)) (f := Real.exp)
    (f' := Real.exp) MeasurableSet.univ
    (fun x _ => (Real.hasDerivAt_exp x).hasDerivWithinAt) (Real.exp_injective.injOn)
    (fun y => y ^ k * logNormalPDF m v y)
  rw [himg] at h
  rw [h, setIntegral_univ]
  simp_rw [lognormal_moment_integrand]
  have h2 : ∫ x, gaussianPDFReal m v x * Real.exp ((k:ℝ) * x)
      = ∫ x, Real.exp ((k:ℝ) * x) ∂(gaussianReal m v) := by
    rw [integral_gaussianReal_eq_integral_smul hv]; rfl
  rw [h2]
  have := congrFun (mgf_id_gaussianReal (μ := m) (v := v)) k
  simp only [mgf, id] at this
  rw [this]

/-! ## calculus of the Gaussian density (for the truncated moments) -/

theorem hasDerivAt_gaussianPDFReal (m : ℝ) (v : ℝ≥0) (hv : v ≠ 0) (x : ℝ) :
    HasDerivAt (gaussianPDFReal m v) (-(x - m) / v * gaussianPDFReal m v x) x := by
  have hv' : (v:ℝ) ≠ 0 := by exact_mod_cast hv
  unfold gaussianPDFReal
  have h1 : HasDerivAt (fun x : ℝ => -(x - m) ^ 2 / (2 * v)) (-(x - m) / v) x := by
    have := (((hasDerivAt_id x).sub_const m).pow 2).neg.div_const (2 * (v:ℝ))
    refine this.congr_deriv ?_
    simp only [id]
    field_simp
    simp
    ring
  have h2 := (h1.exp).const_mul ((Real.sqrt (2 * Real.pi * v))⁻¹)
  refine h2.congr_deriv ?_
  ring

/-- polynomial moments of the Gaussian density are Lebesgue-integrable -/
theorem integrable_pow_mul_gaussianPDFReal (m : ℝ) {v : ℝ≥0} (hv : v ≠ 0) (k : ℕ) :
    Integrable (fun x => x ^ k * gaussianPDFReal m v x) := by
  have h : Integrable (fun x : ℝ => x ^ k) (gaussianReal m v) := by
    have hm : MemLp id ((k:ℕ) : ℝ≥0∞) (gaussianReal m v) := by
      have := memLp_id_gaussianReal (μ := m) (v := v) (k : ℝ≥0)
      simpa using this
    have h2 := hm.integrable_norm_pow'
    refine (integrable_norm_iff (by fun_prop)).mp ?_
    simpa [abs_pow] using h2
  rw [gaussianReal_of_var_ne_zero _ hv,
    integrable_withDensity_iff_integrable_smul' (measurable_gaussianPDF m v)
      (ae_of_all _ fun _ => gaussianPDF_lt_top)] at h
  simpa [toReal_gaussianPDF, mul_comm] using h

/-! ## half-line integrals of the Gaussian density -/

section
variable (mu sigma : ℝ)
local notation "p" => gaussianPDFReal mu (sqv sigma)

/-- `∫_{(0,∞)} N(mu, sigma²) pdf = 1 - Φ(-mu/sigma)` -/
theorem integral_Ioi_gaussianPDFReal (hs : 0 < sigma) :
    ∫ x in Set.Ioi (0:ℝ), gaussianPDFReal mu (sqv sigma) x = 1 - Phi (-mu / sigma) := by
  have hv := sqv_ne_zero hs.ne'
  have h1 := gaussianReal_Ici_zero mu sigma hs
  rw [gaussianReal_apply_eq_integral _ hv, integral_Ici_eq_integral_Ioi] at h1
  have hnn : 0 ≤ ∫ x in Set.Ioi (0:ℝ), gaussianPDFReal mu (sqv sigma) x :=
    setIntegral_nonneg measurableSet_Ioi fun x _ => gaussianPDFReal_nonneg _ _ _
  exact (ENNReal.ofReal_eq_ofReal_iff hnn (one_sub_Phi_pos _).le).mp h1

/-- `∫_{(0,∞)} (x - mu) pdf = sigma² pdf(0)` -/
theorem integral_Ioi_sub_mul_gaussianPDFReal (hs : 0 < sigma) :
    ∫ x in Set.Ioi (0:ℝ), (x - mu) * gaussianPDFReal mu (sqv sigma) x
      = sigma ^ 2 * gaussianPDFReal mu (sqv sigma) 0 := by
  have hv := sqv_ne_zero hs.ne'
  have hv' : (sigma ^ 2) ≠ 0 := by positivity
  have i0 : Integrable p := integrable_gaussianPDFReal _ _
  have i1 : Integrable (fun x => x * p x) := by
    simpa using integrable_pow_mul_gaussianPDFReal mu hv 1
  have i1' : Integrable (fun x => (x - mu) * p x) := by
    have := i1.sub (i0.const_mul mu)
    refine this.congr (ae_of_all _ fun x => ?_)
    simp only [Pi.sub_apply]; ring
  have hd : ∀ x ∈ Set.Ioi (0:ℝ), HasDerivAt (fun x => -(sigma ^ 2) * p x) ((x - mu) * p x) x := by
    intro x _
    have := (hasDerivAt_gaussianPDFReal mu (sqv sigma) hv x).const_mul (-(sigma ^ 2))
    refine this.congr_deriv ?_
    simp only [sqv_coe]
    field_simp
  have hlim : Tendsto (fun x => -(sigma ^ 2) * p x) atTop (𝓝 0) :=
    tendsto_zero_of_hasDerivAt_of_integrableOn_Ioi hd i1'.integrableOn
      (i0.const_mul _).integrableOn
  have := integral_Ioi_of_hasDerivAt_of_tendsto
    ((hd 0 |> fun _ => ((hasDerivAt_gaussianPDFReal mu (sqv sigma) hv 0).const_mul
      (-(sigma ^ 2))).continuousAt.continuousWithinAt)) hd i1'.integrableOn hlim
  rw [this]; ring

/-- `∫_{(0,∞)} (x - mu)² pdf = sigma² (1 - Φ(-mu/sigma)) - sigma² mu pdf(0)` -/
theorem integral_Ioi_sub_sq_mul_gaussianPDFReal (hs : 0 < sigma) :
    ∫ x in Set.Ioi (0:ℝ), (x - mu) ^ 2 * gaussianPDFReal mu (sqv sigma) x
      = sigma ^ 2 * (1 - Phi (-mu / sigma)) - sigma ^ 2 * mu * gaussianPDFReal mu (sqv sigma) 0 := by
  have hv := sqv_ne_zero hs.ne'
  have hv' : (sigma ^ 2) ≠ 0 := by positivity
  have i0 : Integrable p := integrable_gaussianPDFReal _ _
  have i1 : Integrable (fun x => x * p x) := by
    simpa using integrable_pow_mul_gaussianPDFReal mu hv 1
  have i2 : Integrable (fun x => x ^ 2 * p x) := integrable_pow_mul_gaussianPDFReal mu hv 2
  have i1' : Integrable (fun x => (x - mu) * p x) := by
    have := i1.sub (i0.const_mul mu)
    refine this.congr (ae_of_all _ fun x => ?_)
    simp only [Pi.sub_apply]; ring
  have i2' : Integrable (fun x => (x - mu) ^ 2 * p x) := by
    have := (i2.sub (i1.const_mul (2 * mu))).add (i0.const_mul (mu ^ 2))
    refine this.congr (ae_of_all _ fun x => ?_)
    simp only [Pi.sub_apply, Pi.add_apply]; ring
  -- g(x) = -sigma² (x - mu) p(x),  g' = (x - mu)² p - sigma² p
  have hd : ∀ x ∈ Set.Ioi (0:ℝ), HasDerivAt (fun x => -(sigma ^ 2) * ((x - mu) * p x))
      ((x - mu) ^ 2 * p x - sigma ^ 2 * p x) x := by
    intro x _
    have h1 := ((hasDerivAt_id x).sub_const mu).mul (hasDerivAt_gaussianPDFReal mu (sqv sigma) hv x)
    have := h1.const_mul (-(sigma ^ 2))
    refine this.congr_deriv ?_
    simp only [sqv_coe, id]
    field_simp
    ring
  have ig' : Integrable (fun x => (x - mu) ^ 2 * p x - sigma ^ 2 * p x) :=
    i2'.sub (i0.const_mul _)
  have hlim : Tendsto (fun x => -(sigma ^ 2) * ((x - mu) * p x)) atTop (𝓝 0) :=
    tendsto_zero_of_hasDerivAt_of_integrableOn_Ioi hd ig'.integrableOn
      (i1'.const_mul _).integrableOn
  have hc : ContinuousWithinAt (fun x => -(sigma ^ 2) * ((x - mu) * p x)) (Set.Ici 0) 0 := by
    have h1 := ((hasDerivAt_id (0:ℝ)).sub_const mu).mul
      (hasDerivAt_gaussianPDFReal mu (sqv sigma) hv 0)
    exact (h1.const_mul (-(sigma ^ 2))).continuousAt.continuousWithinAt
  have key := integral_Ioi_of_hasDerivAt_of_tendsto hc hd ig'.integrableOn hlim
  rw [integral_sub i2'.integrableOn (i0.const_mul _).integrableOn, integral_const_mul,
    integral_Ioi_gaussianPDFReal mu sigma hs] at key
  linarith

end

theorem gaussianPDFReal_at_zero (mu sigma : ℝ) (hs : 0 < sigma) :
    sigma ^ 2 * gaussianPDFReal mu (sqv sigma) 0 = sigma * gaussianPDFReal 0 1 (mu / sigma) := by
  unfold gaussianPDFReal
  simp only [sqv_coe, NNReal.coe_one, mul_one, sub_zero, zero_sub]
  have h1 : Real.sqrt (2 * Real.pi * sigma ^ 2) = Real.sqrt (2 * Real.pi) * sigma := by
    rw [Real.sqrt_mul (by positivity), Real.sqrt_sq hs.le]
  have h2 : -(-mu) ^ 2 / (2 * sigma ^ 2) = -(mu / sigma) ^ 2 / 2 := by
    field_simp
  rw [h1, h2]
  have : Real.sqrt (2 * Real.pi) ≠ 0 := by positivity
  field_simp


end ChiModel
