import ChiProofs.Lemmas.PopBasics
import ChiProofs.Props.C04

/-!
# Calculus behind C05: pointwise derivative of every population-model term along a curve of
# (location, scale, individual parameter), and the `popLL` / `popSens` unfolding lemmas
-/
set_option linter.unusedSectionVars false
namespace ChiModel
open ScalarFns ProbabilityTheory MeasureTheory
open scoped NNReal

theorem nnreal_sq_ne_zero {s : ℝ} (hs : 0 < s) : NNReal.mk (s ^ 2) (sq_nonneg _) ≠ 0 := by
  intro h
  have := congrArg NNReal.toReal h
  simp at this
  exact hs.ne' this

/-- the documented truncated-Gaussian density on `[0, ∞)`:
    `N(ψ; μ, σ²) / (1 − Φ(−μ/σ))` -/
noncomputable def truncGaussPDF (mu sigma psi : ℝ) : ℝ :=
  gaussianPDFReal mu (NNReal.mk (sigma ^ 2) (sq_nonneg _)) psi / (1 - Phi (-mu / sigma))

theorem normPdf_real (x : ℝ) : normPdf x = gaussianPDFReal 0 1 x := by
  unfold normPdf gaussianPDFReal
  simp only [exp_real, sqrt_real, two_real, pi_real, NNReal.coe_one, mul_one, sub_zero]
  rw [div_eq_inv_mul]
  congr 2
  ring

theorem gaussianPDFReal_std_neg (x : ℝ) : gaussianPDFReal 0 1 (-x) = gaussianPDFReal 0 1 x := by
  simp [gaussianPDFReal]

/-! ## pointwise terms along a curve -/

/-- Gaussian (centred) term -/
theorem gaussCTerm_hasDerivAt (mu sg psi : ℝ → ℝ) (mu' sg' psi' t : ℝ)
    (hmu : HasDerivAt mu mu' t) (hsg : HasDerivAt sg sg' t) (hpsi : HasDerivAt psi psi' t)
    (hpos : 0 < sg t) :
    HasDerivAt (fun s => -(gaussCTerm (mu s) (sg s) (psi s)))
      (gcDPsi (mu t) (sg t) (psi t) * psi' + gcDMu (mu t) (sg t) (psi t) * mu'
        + gcDStd (mu t) (sg t) (psi t) * sg') t := by
  have hne : sg t ≠ 0 := hpos.ne'
  have hss : HasDerivAt (fun s => sg s * sg s) (sg' * sg t + sg t * sg') t := hsg.mul hsg
  have h2pi : (2 * Real.pi * (sg t * sg t)) ≠ 0 := by positivity
  have h1 := ((hss.const_mul (2 * Real.pi)).log h2pi).div_const 2
  have hd := hpsi.sub hmu
  have h2 := (hd.mul hd).div (hss.const_mul 2) (by positivity)
  have h := (h1.add h2).neg
  unfold gaussCTerm gcDPsi gcDMu gcDStd
  simp only [log_real, pi_real, two_real, sqrt_real, oneS_real]
  rw [Real.sqrt_mul_self hpos.le]
  refine h.congr_deriv ?_
  simp only [Pi.mul_apply, Pi.sub_apply]
  field_simp
  ring

/-- log-normal (centred) term -/
theorem lognCTerm_hasDerivAt (mu sg psi : ℝ → ℝ) (mu' sg' psi' t : ℝ)
    (hmu : HasDerivAt mu mu' t) (hsg : HasDerivAt sg sg' t) (hpsi : HasDerivAt psi psi' t)
    (hpos : 0 < sg t) (hppos : 0 < psi t) :
    HasDerivAt (fun s => -(lognCTerm (mu s) (sg s) (psi s)))
      (lcDPsi (mu t) (sg t) (psi t) * psi' + lcDMu (mu t) (sg t) (psi t) * mu'
        + lcDStd (mu t) (sg t) (psi t) * sg') t := by
  have hne : sg t ≠ 0 := hpos.ne'
  have hpne : psi t ≠ 0 := hppos.ne'
  have hss : HasDerivAt (fun s => sg s * sg s) (sg' * sg t + sg t * sg') t := hsg.mul hsg
  have h2pi : (2 * Real.pi * (sg t * sg t)) ≠ 0 := by positivity
  have h1 := ((hss.const_mul (2 * Real.pi)).log h2pi).div_const 2
  have hl := hpsi.log hpne
  have hd := hl.sub hmu
  have h2 := ((hd.mul hd).div_const 2).div hss (by positivity)
  have h := ((h1.add hl).add h2).neg
  unfold lognCTerm lcDPsi lcDMu lcDStd
  simp only [log_real, pi_real, two_real, sqrt_real, oneS_real]
  rw [Real.sqrt_mul_self hpos.le]
  refine h.congr_deriv ?_
  simp only [Pi.mul_apply, Pi.sub_apply]
  generalize Real.log (psi t) = Lp
  field_simp
  ring

/-- truncated-Gaussian term -/
theorem truncTerm_hasDerivAt (mu sg psi : ℝ → ℝ) (mu' sg' psi' t : ℝ)
    (hmu : HasDerivAt mu mu' t) (hsg : HasDerivAt sg sg' t) (hpsi : HasDerivAt psi psi' t)
    (hpos : 0 < sg t) :
    HasDerivAt (fun s => -(truncTerm (mu s) (sg s) (psi s)))
      (tgDPsi (mu t) (sg t) (psi t) * psi' + tgDMu (mu t) (sg t) (psi t) * mu'
        + tgDSigma (mu t) (sg t) (psi t) * sg') t := by
  have hne : sg t ≠ 0 := hpos.ne'
  have hss : HasDerivAt (fun s => sg s * sg s) (sg' * sg t + sg t * sg') t := hsg.mul hsg
  have h2pi : (2 * Real.pi * (sg t * sg t)) ≠ 0 := by positivity
  have h1 := ((hss.const_mul (2 * Real.pi)).log h2pi).div_const 2
  have hd := hpsi.sub hmu
  have h2 := (hd.mul hd).div (hss.const_mul 2) (by positivity)
  have hu : HasDerivAt (fun s => -mu s / sg s) ((-mu' * sg t - -mu t * sg') / sg t ^ 2) t :=
    hmu.neg.div hsg hne
  have hPhi : HasDerivAt (fun s => Phi (-mu s / sg s))
      (gaussianPDFReal 0 1 (-mu t / sg t) * ((-mu' * sg t - -mu t * sg') / sg t ^ 2)) t :=
    (Phi_hasDerivAt (-mu t / sg t)).comp t hu
  have hlt : 0 < 1 - Phi (-mu t / sg t) := by linarith [Phi_lt_one (-mu t / sg t)]
  have h3 := (hPhi.const_sub 1).log hlt.ne'
  have h := ((h1.add h2).add h3).neg
  unfold truncTerm tgDPsi tgDMu tgDSigma
  simp only [log_real, pi_real, two_real, oneS_real, normCdf_real, normPdf_real, ofNat_real,
    Nat.cast_one]
  refine h.congr_deriv ?_
  simp only [Pi.mul_apply, Pi.sub_apply]
  rw [show -mu t / sg t = -(mu t / sg t) by ring, gaussianPDFReal_std_neg]
  rw [show -(mu t / sg t) = -mu t / sg t by ring]
  generalize gaussianPDFReal 0 1 (mu t / sg t) = ph
  generalize Phi (-mu t / sg t) = PH at hlt ⊢
  have hlt' : (1 - PH) ≠ 0 := hlt.ne'
  field_simp
  ring

/-- standard-normal term (non-centred models) -/
theorem stdNormalTerm_hasDerivAt (eta : ℝ → ℝ) (eta' t : ℝ) (heta : HasDerivAt eta eta' t) :
    HasDerivAt (fun s => -(Real.log (2 * Real.pi) / 2 + eta s * eta s / 2)) (-(eta t) * eta') t := by
  have h := (((heta.mul heta).div_const 2).const_add (Real.log (2 * Real.pi) / 2)).neg
  refine h.congr_deriv ?_
  ring

/-! ## `popLL` / `popSens` inside the support -/

theorem addUp_apply (up : Option (Nat → Nat → ℝ)) (g : Nat → Nat → ℝ) (i d : Nat) :
    addUp up g i d = g i d + upAt up i d := by
  cases up <;> simp [addUp, upAt]

theorem anyNeg_false (nIds nDim : Nat) (sg : Nat → Nat → ℝ)
    (hs : ∀ i d, i < nIds → d < nDim → 0 ≤ sg i d) :
    iany2 nIds nDim (fun i d => lt (sg i d) zero) = false :=
  iany2_false _ _ _ (fun i d hi hd => by simpa using hs i d hi hd)

theorem popLL_gauss_val (nIds nDim : Nat) (th : Nat → Nat → Nat → ℝ) (eta : Nat → Nat → ℝ)
    (hs : ∀ i d, i < nIds → d < nDim → 0 < th i 1 d) :
    popLL (.gauss true) nIds nDim th eta
      = .val (gaussCLLraw nIds nDim (fun i d => th i 0 d) (fun i d => th i 1 d) eta) := by
  have hg : iany2 nIds nDim (fun i d => le (th i 1 d) zero) = false :=
    iany2_false _ _ _ (fun i d hi hd => by simpa using hs i d hi hd)
  unfold popLL
  simp only [hg, Bool.false_eq_true, if_false]
  rfl

theorem popLL_logn_val (nIds nDim : Nat) (th : Nat → Nat → Nat → ℝ) (eta : Nat → Nat → ℝ)
    (hs : ∀ i d, i < nIds → d < nDim → 0 < th i 1 d)
    (hpsi : ∀ i d, i < nIds → d < nDim → 0 < eta i d) :
    popLL (.logn true) nIds nDim th eta
      = .val (lognCLLraw nIds nDim (fun i d => th i 0 d) (fun i d => th i 1 d) eta) := by
  have hg : iany2 nIds nDim (fun i d => le (th i 1 d) zero || le (eta i d) zero) = false :=
    iany2_false _ _ _ (fun i d hi hd => by
      have h1 := hs i d hi hd; have h2 := hpsi i d hi hd
      simp [not_le.mpr h1, not_le.mpr h2])
  unfold popLL
  simp only [hg, Bool.false_eq_true, if_false]
  rfl

theorem popLL_trunc_val (nIds nDim : Nat) (th : Nat → Nat → Nat → ℝ) (eta : Nat → Nat → ℝ)
    (hs : ∀ i d, i < nIds → d < nDim → 0 < th i 1 d)
    (hpsi : ∀ i d, i < nIds → d < nDim → 0 ≤ eta i d) :
    popLL .trunc nIds nDim th eta
      = .val (truncLLraw nIds nDim (fun i d => th i 0 d) (fun i d => th i 1 d) eta) := by
  have hg : iany2 nIds nDim (fun i d => le (th i 1 d) zero || lt (eta i d) zero) = false :=
    iany2_false _ _ _ (fun i d hi hd => by
      have h1 := hs i d hi hd; have h2 := hpsi i d hi hd
      simp [not_le.mpr h1, not_lt.mpr h2])
  unfold popLL
  simp only [hg, Bool.false_eq_true, if_false]
  rfl

theorem popLL_pooled_val (nIds nDim : Nat) (th : Nat → Nat → Nat → ℝ) (eta : Nat → Nat → ℝ)
    (h : ∀ i d, i < nIds → d < nDim → eta i d = th i 0 d) :
    popLL .pooled nIds nDim th eta = .val 0 := by
  have hg : iany2 nIds nDim
      (fun i d => !(le (eta i d) (th i 0 d) && le (th i 0 d) (eta i d))) = false :=
    iany2_false _ _ _ (fun i d hi hd => by simp [h i d hi hd])
  unfold popLL
  simp only [hg, Bool.false_eq_true, if_false, zero_real]

theorem popLL_hetero_val (nIds nDim : Nat) (th : Nat → Nat → Nat → ℝ) (eta : Nat → Nat → ℝ)
    (h : ∀ i d, i < nIds → d < nDim → eta i d = th i i d) :
    popLL .hetero nIds nDim th eta = .val 0 := by
  have hg : iany2 nIds nDim
      (fun i d => !(le (eta i d) (th i i d) && le (th i i d) (eta i d))) = false :=
    iany2_false _ _ _ (fun i d hi hd => by simp [h i d hi hd])
  unfold popLL
  simp only [hg, Bool.false_eq_true, if_false, zero_real]

theorem popSens_gauss (nIds nDim : Nat) (th : Nat → Nat → Nat → ℝ) (eta : Nat → Nat → ℝ)
    (up : Option (Nat → Nat → ℝ)) (hs : ∀ i d, i < nIds → d < nDim → 0 < th i 1 d) :
    popSens (.gauss true) nIds nDim th eta up
      = ⟨.val (gaussCLLraw nIds nDim (fun i d => th i 0 d) (fun i d => th i 1 d) eta), true,
         addUp up (fun i d => gcDPsi (th i 0 d) (th i 1 d) (eta i d)),
         fun i p d => if p = 0 then gcDMu (th i 0 d) (th i 1 d) (eta i d)
                      else gcDStd (th i 0 d) (th i 1 d) (eta i d)⟩ := by
  unfold popSens
  simp only [anyNeg_false nIds nDim (fun i d => th i 1 d) (fun i d hi hd => (hs i d hi hd).le),
    popLL_gauss_val nIds nDim th eta hs, Bool.false_eq_true, if_false]

theorem popSens_logn (nIds nDim : Nat) (th : Nat → Nat → Nat → ℝ) (eta : Nat → Nat → ℝ)
    (up : Option (Nat → Nat → ℝ)) (hs : ∀ i d, i < nIds → d < nDim → 0 < th i 1 d)
    (hpsi : ∀ i d, i < nIds → d < nDim → 0 < eta i d) :
    popSens (.logn true) nIds nDim th eta up
      = ⟨.val (lognCLLraw nIds nDim (fun i d => th i 0 d) (fun i d => th i 1 d) eta), true,
         addUp up (fun i d => lcDPsi (th i 0 d) (th i 1 d) (eta i d)),
         fun i p d => if p = 0 then lcDMu (th i 0 d) (th i 1 d) (eta i d)
                      else lcDStd (th i 0 d) (th i 1 d) (eta i d)⟩ := by
  unfold popSens
  simp only [anyNeg_false nIds nDim (fun i d => th i 1 d) (fun i d hi hd => (hs i d hi hd).le),
    popLL_logn_val nIds nDim th eta hs hpsi, Bool.false_eq_true, if_false]

theorem popSens_trunc (nIds nDim : Nat) (th : Nat → Nat → Nat → ℝ) (eta : Nat → Nat → ℝ)
    (up : Option (Nat → Nat → ℝ)) (hs : ∀ i d, i < nIds → d < nDim → 0 < th i 1 d)
    (hpsi : ∀ i d, i < nIds → d < nDim → 0 ≤ eta i d) :
    popSens .trunc nIds nDim th eta up
      = ⟨.val (truncLLraw nIds nDim (fun i d => th i 0 d) (fun i d => th i 1 d) eta), true,
         addUp up (fun i d => tgDPsi (th i 0 d) (th i 1 d) (eta i d)),
         fun i p d => if p = 0 then tgDMu (th i 0 d) (th i 1 d) (eta i d)
                      else tgDSigma (th i 0 d) (th i 1 d) (eta i d)⟩ := by
  unfold popSens
  simp only [popLL_trunc_val nIds nDim th eta hs hpsi]

theorem popSens_gaussNC (nIds nDim : Nat) (th : Nat → Nat → Nat → ℝ) (eta : Nat → Nat → ℝ)
    (up : Option (Nat → Nat → ℝ)) (hs : ∀ i d, i < nIds → d < nDim → 0 ≤ th i 1 d) :
    popSens (.gauss false) nIds nDim th eta up
      = ⟨.val (stdNormalLL nIds nDim eta), true,
         fun i d => upAt up i d * th i 1 d + (zero - eta i d) / oneS,
         fun i p d => if p = 0 then upAt up i d * oneS else upAt up i d * eta i d⟩ := by
  unfold popSens
  simp only [anyNeg_false nIds nDim (fun i d => th i 1 d) hs, Bool.false_eq_true, if_false]

theorem popSens_lognNC (nIds nDim : Nat) (th : Nat → Nat → Nat → ℝ) (eta : Nat → Nat → ℝ)
    (up : Option (Nat → Nat → ℝ)) (hs : ∀ i d, i < nIds → d < nDim → 0 ≤ th i 1 d) :
    popSens (.logn false) nIds nDim th eta up
      = ⟨.val (stdNormalLL nIds nDim eta), true,
         fun i d => upAt up i d * (th i 1 d * lnPsi (th i 0 d) (th i 1 d) (eta i d)) + Neg.neg (eta i d),
         fun i p d => if p = 0 then upAt up i d * lnPsi (th i 0 d) (th i 1 d) (eta i d)
                      else upAt up i d * (eta i d * lnPsi (th i 0 d) (th i 1 d) (eta i d))⟩ := by
  unfold popSens
  simp only [anyNeg_false nIds nDim (fun i d => th i 1 d) hs, Bool.false_eq_true, if_false]

theorem popSens_pooled (nIds nDim : Nat) (th : Nat → Nat → Nat → ℝ) (eta : Nat → Nat → ℝ)
    (up : Option (Nat → Nat → ℝ)) (h : ∀ i d, i < nIds → d < nDim → eta i d = th i 0 d) :
    popSens .pooled nIds nDim th eta up
      = ⟨.val 0, true, addUp up (fun _ _ => zero), fun _ _ _ => zero⟩ := by
  unfold popSens
  simp only [popLL_pooled_val nIds nDim th eta h]

theorem popSens_hetero (nIds nDim : Nat) (th : Nat → Nat → Nat → ℝ) (eta : Nat → Nat → ℝ)
    (up : Option (Nat → Nat → ℝ)) (h : ∀ i d, i < nIds → d < nDim → eta i d = th i i d) :
    popSens .hetero nIds nDim th eta up
      = ⟨.val 0, true, addUp up (fun _ _ => zero), fun _ _ _ => zero⟩ := by
  unfold popSens
  simp only [popLL_hetero_val nIds nDim th eta h]

theorem stdNormalLL_eq (nIds nDim : Nat) (eta : Nat → Nat → ℝ) :
    stdNormalLL nIds nDim eta
      = isum2 nIds nDim (fun i d => -(Real.log (2 * Real.pi) / 2 + eta i d * eta i d / 2)) := by
  unfold stdNormalLL
  show -(isum2 _ _ _) = _
  rw [neg_isum2]
  simp only [log_real, pi_real, two_real]

/-! ## mass of the truncation region -/
open Set in

theorem gaussian_affine_law (mu sigma : ℝ) :
    (gaussianReal 0 1).map (fun z => mu + sigma * z)
      = gaussianReal mu (NNReal.mk (sigma ^ 2) (sq_nonneg _)) := by
  have h1 : (gaussianReal 0 1).map (fun z => sigma * z)
      = gaussianReal (sigma * 0) ((NNReal.mk (sigma ^ 2) (sq_nonneg _)) * 1) :=
    gaussianReal_map_const_mul sigma
  have : (fun z => mu + sigma * z) = (fun x => mu + x) ∘ (fun z => sigma * z) := rfl
  rw [this, ← Measure.map_map (by fun_prop) (by fun_prop), h1, gaussianReal_map_const_add]
  simp

open Set in
/-- mass of `[0, ∞)` under `N(μ, σ²)` is `1 − Φ(−μ/σ)` -/
theorem gaussian_mass_Ici (mu sigma : ℝ) (hs : 0 < sigma) :
    ∫ x in Ici (0:ℝ), gaussianPDFReal mu (NNReal.mk (sigma ^ 2) (sq_nonneg _)) x
      = 1 - Phi (-mu / sigma) := by
  have hv := nnreal_sq_ne_zero hs
  have hnn : 0 ≤ ∫ x in Ici (0:ℝ), gaussianPDFReal mu (NNReal.mk (sigma ^ 2) (sq_nonneg _)) x :=
    setIntegral_nonneg measurableSet_Ici (fun t _ => gaussianPDFReal_nonneg _ _ _)
  have h1 : (gaussianReal mu (NNReal.mk (sigma ^ 2) (sq_nonneg _))).real (Ici 0)
      = ∫ x in Ici (0:ℝ), gaussianPDFReal mu (NNReal.mk (sigma ^ 2) (sq_nonneg _)) x := by
    rw [measureReal_def, gaussianReal_apply_eq_integral _ hv, ENNReal.toReal_ofReal hnn]
  rw [← h1, ← gaussian_affine_law mu sigma, measureReal_def,
    Measure.map_apply (by fun_prop) measurableSet_Ici]
  have hpre : (fun z => mu + sigma * z) ⁻¹' Ici 0 = Ici (-mu / sigma) := by
    ext z
    simp only [mem_preimage, mem_Ici]
    rw [div_le_iff₀ hs]
    constructor <;> intro h <;> nlinarith
  rw [hpre]
  have hcompl : (gaussianReal 0 1) (Ici (-mu / sigma)) = 1 - (gaussianReal 0 1) (Iio (-mu / sigma)) := by
    have := prob_compl_eq_one_sub (μ := gaussianReal 0 1) (measurableSet_Iio (a := -mu / sigma))
    rwa [compl_Iio] at this
  have : NullSingletonClass (gaussianReal 0 1) := nullSingletonClass_gaussianReal one_ne_zero
  have hIio : (gaussianReal 0 1) (Iio (-mu / sigma)) = (gaussianReal 0 1) (Iic (-mu / sigma)) :=
    measure_congr Iio_ae_eq_Iic
  rw [hcompl, hIio]
  have hle : (gaussianReal 0 1) (Iic (-mu / sigma)) ≤ 1 := prob_le_one
  rw [ENNReal.toReal_sub_of_le hle ENNReal.one_ne_top, ENNReal.toReal_one]
  unfold Phi
  rw [cdf_eq_real, measureReal_def]


end ChiModel
