import ChiProofs.Lemmas.PosteriorLoops
import ChiProofs.RealInst
import Mathlib.Algebra.BigOperators.Intervals
import Mathlib.Tactic.Ring
/-! # `_remove_duplicates` is the transpose of `_reshape_bottom_parameters` (C13): sums over the reals -/
set_option linter.unusedSectionVars false
set_option linter.unusedVariables false
set_option linter.unusedSimpArgs false
namespace ChiModel
namespace FP
open ScalarFns Finset
variable {α : Type} [Add α] [Sub α] [Mul α] [Div α] [Neg α] [ScalarFns α]

theorem below_pos (nS : Nat) (sp : Special) (sps : List Special) (lo n : Nat)
    (h : WFs nS lo (sp :: sps)) (hb : sp.b ≤ n) : 0 < below (sp :: sps) n := by
  obtain ⟨_, h2, _, _⟩ := h
  simp only [below]
  omega

theorem specials_nil_of_hdim (c : Cfg) (hs : c.Sound) (h : c.nHdim = c.nDim) : c.specials = [] := by
  obtain ⟨hwf, hb, hsum⟩ := specialsFrom_spec c.nS c.subs 0 0 hs
  cases hsp : specialsFrom c.subs 0 0 with
  | nil => exact hsp
  | cons sp sps =>
    exfalso
    rw [hsp] at hwf hb hsum
    have hbb := (hb sp List.mem_cons_self).1
    have := below_pos c.nS sp sps 0 _ hwf hbb
    simp only [Cfg.nHdim, Cfg.nDim] at h
    omega

/-- when every sub-model is detected, there is one special block per sub-model -/
theorem specialsFrom_length_all (p : Bool) : ∀ (us : List SubModel) (d0 t0 : Nat),
    (∀ u ∈ us, u.detect = some p) → (specialsFrom us d0 t0).length = us.length
  | [], _, _, _ => rfl
  | u :: us, d0, t0, h => by
    have hu := h u List.mem_cons_self
    simp only [specialsFrom, hu, List.length_cons]
    rw [specialsFrom_length_all p us _ _ (fun v hv => h v (List.mem_cons_of_mem _ hv))]

/-- C13_scatter, all four paths of `_reshape_bottom_parameters` -/
theorem reshapeBottom_spec (c : Cfg) (hs : c.Sound) (top : Nat → α) (bottom : Nat → Nat → α)
    (s d : Nat) (hd : d < c.nDim) :
    (∀ sp ∈ c.specials, sp.a ≤ d → d < sp.b →
      reshapeBottom c top bottom s d = fill top s sp d) ∧
    (¬ isSpecial c.specials d →
      reshapeBottom c top bottom s d = bottom s (d - below c.specials d)) := by
  have hposall : ∀ u ∈ c.subs, 0 < u.nDim := fun u hu => (hs u hu).1
  unfold reshapeBottom
  by_cases h1 : c.nHdim = c.nDim
  · rw [if_pos h1]
    have hnil := specials_nil_of_hdim c hs h1
    rw [hnil]
    exact ⟨fun sp h => (by cases h), fun _ => (by simp [below])⟩
  · rw [if_neg h1]
    by_cases h2 : c.pooledDim = c.nDim
    · rw [if_pos h2]
      have hall := all_detect true c.subs h2 hposall
      obtain ⟨hp1, hp2⟩ := specials_allPooled c.nS c.subs 0 0 (fun u hu => ⟨hs u hu, hall u hu⟩)
      constructor
      · intro sp hm ha hb
        obtain ⟨hpool, hta⟩ := hp1 sp hm
        simp only [fill, hpool, if_true]
        congr 1
        omega
      · intro hns
        exact absurd (hp2 d (Nat.zero_le _) (by simpa [Cfg.nDim] using hd)) hns
    · rw [if_neg h2]
      by_cases h3 : c.heteroDim = c.nDim ∧ c.specials.length = 1
      · rw [if_pos h3]
        have hall := all_detect false c.subs h3.1 hposall
        have hlen : c.subs.length ≤ 1 := by
          have := specialsFrom_length_all false c.subs 0 0 hall
          have h31 := h3.2
          simp only [Cfg.specials] at h31
          omega
        -- exactly one sub-model
        match hsub : c.subs, hlen with
        | [], _ =>
          simp [Cfg.nDim, hsub, sumBy] at hd
        | [u], _ =>
          have hu := hall u (by rw [hsub]; exact List.mem_cons_self)
          have hspec : c.specials = [⟨0, 0 + u.nDim, 0, 0 + u.nTop, false⟩] := by
            simp [Cfg.specials, hsub, specialsFrom, hu]
          have hnd : c.nDim = u.nDim := by simp [Cfg.nDim, hsub, sumBy]
          rw [hspec]
          constructor
          · intro sp hm ha hb
            simp only [List.mem_singleton] at hm
            subst hm
            simp only [fill, Bool.false_eq_true, if_false, hnd, Nat.zero_add, Nat.sub_zero]
          · intro hns
            exfalso
            apply hns
            exact ⟨_, List.mem_singleton.mpr rfl, Nat.zero_le _, by dsimp only; omega⟩
        | _ :: _ :: _, hl => simp at hl
      · rw [if_neg h3]
        exact reshapeGeneral_spec c hs top bottom s d hd

/-! ## elementary sum lemmas -/

/-- `Σ_{d<n} [a ≤ d < b] F d = Σ_{j<b-a} F (a+j)` -/
theorem sum_indicator_Ico (F : Nat → ℝ) (a b n : Nat) (hab : a ≤ b) (hb : b ≤ n) :
    ∑ d ∈ range n, (if a ≤ d ∧ d < b then F d else 0) = ∑ j ∈ range (b - a), F (a + j) := by
  have hn : n = a + ((b - a) + (n - b)) := by omega
  rw [hn, Finset.sum_range_add, Finset.sum_range_add]
  have h1 : ∑ x ∈ range a, (if a ≤ x ∧ x < b then F x else 0) = 0 :=
    Finset.sum_eq_zero fun x hx => by rw [if_neg]; have := mem_range.mp hx; omega
  have h3 : ∑ x ∈ range (n - b), (if a ≤ a + (b - a + x) ∧ a + (b - a + x) < b
      then F (a + (b - a + x)) else 0) = 0 :=
    Finset.sum_eq_zero fun x _ => by rw [if_neg]; omega
  rw [h1, h3, zero_add, add_zero]
  exact Finset.sum_congr rfl fun j hj => by rw [if_pos]; have := mem_range.mp hj; omega

/-- `Σ_{i<n·m} f i = Σ_{s<n} Σ_{j<m} f (s·m + j)` -/
theorem sum_range_mul (f : Nat → ℝ) (n m : Nat) :
    ∑ i ∈ range (n * m), f i = ∑ s ∈ range n, ∑ j ∈ range m, f (s * m + j) := by
  induction n with
  | zero => simp
  | succ k ih =>
    rw [Nat.succ_mul, Finset.sum_range_add, ih, Finset.sum_range_succ]

theorem div_mod_block (s j m : Nat) (hj : j < m) : (s * m + j) / m = s ∧ (s * m + j) % m = j := by
  have hm : 0 < m := by omega
  constructor
  · rw [Nat.mul_comm, Nat.mul_add_div hm, Nat.div_eq_of_lt hj, Nat.add_zero]
  · rw [Nat.mul_comm, Nat.mul_add_mod, Nat.mod_eq_of_lt hj]

/-! ## regular dimensions are enumerated by `d - below d` -/

def spB (sps : List Special) (d : Nat) : Bool := sps.any (fun sp => decide (sp.a ≤ d ∧ d < sp.b))

theorem spB_iff (sps : List Special) (d : Nat) : spB sps d = true ↔ isSpecial sps d := by
  simp [spB, isSpecial, List.any_eq_true]

theorem below_le (nS : Nat) : ∀ (sps : List Special) (lo : Nat), WFs nS lo sps → ∀ n,
    below sps n ≤ n - lo
  | [], _, _, n => by simp [below]
  | sp :: sps, lo, h, n => by
    obtain ⟨h1, h2, _, h3⟩ := h
    have := below_le nS sps sp.b h3 n
    simp only [below]
    omega

theorem rank_succ (nS : Nat) (sps : List Special) (h : WFs nS 0 sps) (n : Nat) :
    (n + 1) - below sps (n + 1) = (n - below sps n) + (if spB sps n then 0 else 1) := by
  have hs := below_succ nS sps 0 h n
  have hle := below_le nS sps 0 h n
  by_cases hsp : spB sps n = true
  · have : ∃ sp ∈ sps, sp.a ≤ n ∧ n < sp.b := (spB_iff sps n).1 hsp
    rw [if_pos this] at hs
    rw [if_pos hsp]
    omega
  · have : ¬ ∃ sp ∈ sps, sp.a ≤ n ∧ n < sp.b := fun hc => hsp ((spB_iff sps n).2 hc)
    rw [if_neg this] at hs
    rw [if_neg hsp]
    omega

theorem rank_mono (nS : Nat) (sps : List Special) (h : WFs nS 0 sps) (d n : Nat) (hdn : d ≤ n) :
    d - below sps d ≤ n - below sps n := by
  induction n with
  | zero => have : d = 0 := by omega
            subst this; exact Nat.le_refl _
  | succ k ih =>
    by_cases hk : d ≤ k
    · have := rank_succ nS sps h k
      have := ih hk
      omega
    · have : d = k + 1 := by omega
      subst this; exact Nat.le_refl _

/-- `Σ_{d<n, d regular} g (d - below d) = Σ_{c < n - below n} g c` -/
theorem sum_regular_reindex (nS : Nat) (sps : List Special) (h : WFs nS 0 sps) (g : Nat → ℝ)
    (n : Nat) :
    ∑ d ∈ range n, (if spB sps d then 0 else g (d - below sps d))
      = ∑ c ∈ range (n - below sps n), g c := by
  induction n with
  | zero => simp
  | succ k ih =>
    rw [Finset.sum_range_succ, ih, rank_succ nS sps h k]
    by_cases hsp : spB sps k = true
    · simp [hsp]
    · simp only [hsp, if_false, Bool.false_eq_true]
      rw [Finset.sum_range_succ]

/-- `Σ_{d<n, d special} F d = Σ_{blocks} Σ_{j < b-a} F (a+j)` -/
theorem sum_special_blocks (nS : Nat) (F : Nat → ℝ) (n : Nat) : ∀ (sps : List Special) (lo : Nat),
    WFs nS lo sps → (∀ sp ∈ sps, sp.b ≤ n) →
    ∑ d ∈ range n, (if spB sps d then F d else 0)
      = (sps.map (fun sp => ∑ j ∈ range (sp.b - sp.a), F (sp.a + j))).sum
  | [], _, _, _ => by simp [spB]
  | sp :: sps, lo, h, hb => by
    obtain ⟨h1, h2, _, h3⟩ := h
    have ih := sum_special_blocks nS F n sps sp.b h3 (fun sp' hm => hb sp' (List.mem_cons_of_mem _ hm))
    rw [List.map_cons, List.sum_cons, ← ih,
      ← sum_indicator_Ico F sp.a sp.b n (by omega) (hb sp List.mem_cons_self),
      ← Finset.sum_add_distrib]
    refine Finset.sum_congr rfl fun d _ => ?_
    by_cases hd : sp.a ≤ d ∧ d < sp.b
    · have hno : spB sps d = false := by
        rw [Bool.eq_false_iff]
        intro hc
        obtain ⟨sp', hm, hsp'⟩ := (spB_iff sps d).1 hc
        have := wf_block_ge nS sps sp.b h3 sp' hm
        omega
      have hyes : spB (sp :: sps) d = true :=
        (spB_iff _ d).2 ⟨sp, List.mem_cons_self, hd⟩
      simp [hno, hyes, hd]
    · have heq : spB (sp :: sps) d = spB sps d := by
        simp [spB, List.any_cons, hd]
      simp [heq, hd]

/-! ## what `_remove_duplicates` adds to the population block -/

/-- contribution of one special block to position `q` -/
noncomputable def contrib (nS : Nat) (D : Nat → Nat → ℝ) (sp : Special) (q : Nat) : ℝ :=
  if sp.ta ≤ q ∧ q < sp.tb then
    (if sp.pooled then isum nS (fun s => D s (sp.a + (q - sp.ta)))
     else D ((q - sp.ta) / (sp.b - sp.a)) (sp.a + (q - sp.ta) % (sp.b - sp.a)))
  else 0

noncomputable def contribAll (nS : Nat) (D : Nat → Nat → ℝ) (sps : List Special) (q : Nat) : ℝ :=
  (sps.map (fun sp => contrib nS D sp q)).sum

theorem gatherLoop_sens (nS : Nat) (D : Nat → Nat → ℝ) (q : Nat) :
    ∀ (sps : List Special) (cur shift : Nat) (sens : Nat → ℝ) (bs : Nat → Nat → ℝ),
      (gatherLoop nS D sps cur shift sens bs).1 q = sens q + contribAll nS D sps q
  | [], _, _, _, _ => by simp [gatherLoop, contribAll]
  | sp :: sps, cur, shift, sens, bs => by
    simp only [gatherLoop]
    rw [gatherLoop_sens nS D q sps]
    simp only [contribAll, List.map_cons, List.sum_cons, contrib]
    by_cases hq : sp.ta ≤ q ∧ q < sp.tb
    · rw [if_pos hq, if_pos hq]
      cases sp.pooled <;> simp <;> ring
    · rw [if_neg hq, if_neg hq]; ring

theorem contribAll_zero_of_ge (nS : Nat) (D : Nat → Nat → ℝ) (sps : List Special) (P q : Nat)
    (hP : ∀ sp ∈ sps, sp.tb ≤ P) (hq : P ≤ q) : contribAll nS D sps q = 0 := by
  unfold contribAll
  apply List.sum_eq_zero
  intro v hv
  obtain ⟨sp, hm, rfl⟩ := List.mem_map.mp hv
  unfold contrib
  rw [if_neg]
  have := hP sp hm
  omega

/-- one special block: pairing its contribution with `x` = pairing the filled columns with `D` -/
theorem contrib_pairing (nS : Nat) (D : Nat → Nat → ℝ) (x : Nat → ℝ) (sp : Special) (P : Nat)
    (hab : sp.a < sp.b)
    (htb : sp.tb = sp.ta + (if sp.pooled then sp.b - sp.a else nS * (sp.b - sp.a)))
    (hP : sp.tb ≤ P) :
    ∑ q ∈ range P, x q * contrib nS D sp q
      = ∑ s ∈ range nS, ∑ j ∈ range (sp.b - sp.a), fill x s sp (sp.a + j) * D s (sp.a + j) := by
  have hind : ∀ q ∈ range P, x q * contrib nS D sp q
      = if sp.ta ≤ q ∧ q < sp.tb then x q * contrib nS D sp q else 0 := by
    intro q _
    by_cases hq : sp.ta ≤ q ∧ q < sp.tb
    · rw [if_pos hq]
    · rw [if_neg hq]; unfold contrib; rw [if_neg hq, mul_zero]
  rw [Finset.sum_congr rfl hind, sum_indicator_Ico _ sp.ta sp.tb P (by omega) hP]
  cases hp : sp.pooled with
  | true =>
    rw [hp] at htb
    simp only [if_true] at htb
    have hw : sp.tb - sp.ta = sp.b - sp.a := by omega
    rw [hw, Finset.sum_comm]
    refine Finset.sum_congr rfl fun j hj => ?_
    have hj' := mem_range.mp hj
    unfold contrib fill
    rw [if_pos (by omega)]
    simp only [hp, if_true, isum_eq, Finset.mul_sum]
    refine Finset.sum_congr rfl fun s _ => ?_
    have e1 : sp.ta + j - sp.ta = j := by omega
    have e2 : sp.a + j - sp.a = j := by omega
    rw [e1, e2]
  | false =>
    rw [hp] at htb
    simp only [Bool.false_eq_true, if_false] at htb
    have hw : sp.tb - sp.ta = nS * (sp.b - sp.a) := by omega
    rw [hw, sum_range_mul]
    refine Finset.sum_congr rfl fun s hs => Finset.sum_congr rfl fun j hj => ?_
    have hj' := mem_range.mp hj
    have hs' := mem_range.mp hs
    obtain ⟨hdiv, hmod⟩ := div_mod_block s j (sp.b - sp.a) hj'
    have hlt : s * (sp.b - sp.a) + j < nS * (sp.b - sp.a) := by
      have : s * (sp.b - sp.a) + (sp.b - sp.a) ≤ nS * (sp.b - sp.a) := by
        rw [← Nat.succ_mul]; exact Nat.mul_le_mul_right _ hs'
      omega
    unfold contrib fill
    rw [if_pos (by omega)]
    simp only [hp, Bool.false_eq_true, if_false]
    have e1 : sp.ta + (s * (sp.b - sp.a) + j) - sp.ta = s * (sp.b - sp.a) + j := by omega
    have e2 : sp.a + j - sp.a = j := by omega
    rw [e1, e2, hdiv, hmod, Nat.add_assoc]

/-- all special blocks together -/
theorem contribAll_pairing (nS : Nat) (D : Nat → Nat → ℝ) (x : Nat → ℝ) (P : Nat) :
    ∀ (sps : List Special) (lo : Nat), WFs nS lo sps → (∀ sp ∈ sps, sp.tb ≤ P) →
    ∑ q ∈ range P, x q * contribAll nS D sps q
      = (sps.map (fun sp => ∑ s ∈ range nS, ∑ j ∈ range (sp.b - sp.a),
          fill x s sp (sp.a + j) * D s (sp.a + j))).sum
  | [], _, _, _ => by simp [contribAll]
  | sp :: sps, lo, h, hP => by
    obtain ⟨_, h2, h3, h4⟩ := h
    have ih := contribAll_pairing nS D x P sps sp.b h4 (fun sp' hm => hP sp' (List.mem_cons_of_mem _ hm))
    simp only [contribAll, List.map_cons, List.sum_cons, mul_add, Finset.sum_add_distrib]
    rw [contrib_pairing nS D x sp P h2 h3 (hP sp List.mem_cons_self)]
    congr 1

/-! ## the general path of `_remove_duplicates` -/

/-- `bottom_sens` after the loop and the trailing slice assignment -/
noncomputable def gatherBs (c : Cfg) (D : Nat → Nat → ℝ) (sens : Nat → ℝ) : Nat → Nat → ℝ :=
  let r := gatherLoop c.nS D c.specials 0 0 sens (fun _ _ => ofNat 0)
  fun s col =>
    if r.2.2.1 - r.2.2.2 ≤ col then D s (r.2.2.1 + (col - (r.2.2.1 - r.2.2.2))) else r.2.1 s col

/-- the column of rank `d - below d` receives the sensitivity of the regular dimension `d` -/
theorem gatherBs_spec (c : Cfg) (hs : c.Sound) (D : Nat → Nat → ℝ) (sens : Nat → ℝ) (s d : Nat)
    (hreg : ¬ isSpecial c.specials d) :
    gatherBs c D sens s (d - below c.specials d) = D s d := by
  have hwf := (specialsFrom_spec c.nS c.subs 0 0 hs).1
  have h := gatherLoop_spec c.nS D c.specials 0 0 sens (fun _ _ => ofNat 0) hwf (Nat.le_refl 0)
  obtain ⟨i1, _, i3, _, _, i5⟩ := h
  unfold gatherBs
  set r := gatherLoop c.nS D c.specials 0 0 sens (fun _ _ => ofNat 0) with hr
  have hsh : r.2.2.2 = below c.specials r.2.2.1 := by
    have := i3 r.2.2.1 (Nat.le_refl _); omega
  by_cases hlt : d < r.2.2.1
  · -- strictly smaller rank than the first trailing column
    have h1 := rank_succ c.nS c.specials hwf d
    have hnot : spB c.specials d = false := by
      rw [Bool.eq_false_iff]; exact fun hc => hreg ((spB_iff _ d).1 hc)
    rw [hnot] at h1
    simp only [Bool.false_eq_true, if_false] at h1
    have h2 := rank_mono c.nS c.specials hwf (d + 1) r.2.2.1 (by omega)
    rw [if_neg (by omega)]
    have := i5 s d (Nat.zero_le _) hlt hreg
    simpa using this
  · have hd' : r.2.2.1 ≤ d := by omega
    have := i3 d hd'
    rw [if_pos (by omega)]
    congr 1
    omega

theorem sum_list_comm {β : Type} (n : Nat) (l : List β) (f : Nat → β → ℝ) :
    ∑ s ∈ range n, (l.map (f s)).sum = (l.map (fun b => ∑ s ∈ range n, f s b)).sum := by
  induction l with
  | nil => simp
  | cons b bs ih => simp [List.map_cons, List.sum_cons, Finset.sum_add_distrib, ih]

theorem sum_split3 (F : Nat → ℝ) (a b e : Nat) :
    ∑ q ∈ range (a + b + e), F q
      = ∑ q ∈ range a, F q + ∑ i ∈ range b, F (a + i) + ∑ k ∈ range e, F (a + b + k) := by
  rw [Finset.sum_range_add, Finset.sum_range_add]

theorem nParameters_split (c : Cfg) :
    c.nParameters = c.nTop + c.nS * c.nHdim + c.nS * (c.T * c.R) := by
  simp only [Cfg.nParameters, Nat.mul_add, Nat.add_assoc]

theorem endBottom_eq (c : Cfg) : c.endBottom = c.nTop + c.nS * c.nHdim := rfl

theorem rhs_split (c : Cfg) (x sens : Nat → ℝ) :
    ∑ q ∈ range c.nParameters, (if c.nTop ≤ q ∧ q < c.endBottom then 0 else x q * sens q)
      = ∑ q ∈ range c.nTop, x q * sens q
        + ∑ k ∈ range (c.nS * (c.T * c.R)), x (c.endBottom + k) * sens (c.endBottom + k) := by
  rw [nParameters_split, sum_split3, ← endBottom_eq]
  have h1 : ∑ q ∈ range c.nTop, (if c.nTop ≤ q ∧ q < c.endBottom then 0 else x q * sens q)
      = ∑ q ∈ range c.nTop, x q * sens q :=
    Finset.sum_congr rfl fun q hq => by rw [if_neg]; have := mem_range.mp hq; omega
  have h2 : ∑ i ∈ range (c.nS * c.nHdim),
      (if c.nTop ≤ c.nTop + i ∧ c.nTop + i < c.endBottom then 0
        else x (c.nTop + i) * sens (c.nTop + i)) = 0 :=
    Finset.sum_eq_zero fun i hi => by
      rw [if_pos]; have := mem_range.mp hi; rw [endBottom_eq]; omega
  have h3 : ∑ k ∈ range (c.nS * (c.T * c.R)),
      (if c.nTop ≤ c.endBottom + k ∧ c.endBottom + k < c.endBottom then 0
        else x (c.endBottom + k) * sens (c.endBottom + k))
      = ∑ k ∈ range (c.nS * (c.T * c.R)), x (c.endBottom + k) * sens (c.endBottom + k) :=
    Finset.sum_congr rfl fun k _ => by rw [if_neg]; omega
  rw [h1, h2, h3, add_zero]

/-- a vector that is `sens + topAdd` on the top block, `bot` on the individual block and `sens` on the
    noise block, paired with `x` -/
theorem adjoint_of_regions (c : Cfg) (x sens G topAdd : Nat → ℝ) (bot : Nat → Nat → ℝ)
    (h1 : ∀ q, q < c.nTop → G q = sens q + topAdd q)
    (h2 : ∀ s, s < c.nS → ∀ j, j < c.nHdim → G (c.nTop + (s * c.nHdim + j)) = bot s j)
    (h3 : ∀ k, G (c.endBottom + k) = sens (c.endBottom + k)) :
    ∑ q ∈ range c.nParameters, x q * G q
      = ∑ q ∈ range c.nParameters, (if c.nTop ≤ q ∧ q < c.endBottom then 0 else x q * sens q)
        + ∑ q ∈ range c.nTop, x q * topAdd q
        + ∑ s ∈ range c.nS, ∑ j ∈ range c.nHdim, x (c.nTop + (s * c.nHdim + j)) * bot s j := by
  rw [rhs_split, nParameters_split, sum_split3, ← endBottom_eq, sum_range_mul]
  have e1 : ∑ q ∈ range c.nTop, x q * G q
      = ∑ q ∈ range c.nTop, x q * sens q + ∑ q ∈ range c.nTop, x q * topAdd q := by
    rw [← Finset.sum_add_distrib]
    exact Finset.sum_congr rfl fun q hq => by rw [h1 q (mem_range.mp hq)]; ring
  have e2 : ∑ s ∈ range c.nS, ∑ j ∈ range c.nHdim,
      x (c.nTop + (s * c.nHdim + j)) * G (c.nTop + (s * c.nHdim + j))
      = ∑ s ∈ range c.nS, ∑ j ∈ range c.nHdim, x (c.nTop + (s * c.nHdim + j)) * bot s j :=
    Finset.sum_congr rfl fun s hs => Finset.sum_congr rfl fun j hj => by
      rw [h2 s (mem_range.mp hs) j (mem_range.mp hj)]
  have e3 : ∑ k ∈ range (c.nS * (c.T * c.R)), x (c.endBottom + k) * G (c.endBottom + k)
      = ∑ k ∈ range (c.nS * (c.T * c.R)), x (c.endBottom + k) * sens (c.endBottom + k) :=
    Finset.sum_congr rfl fun k _ => by rw [h3 k]
  rw [e1, e2, e3]
  ring

theorem writeBottom_top (c : Cfg) (sens : Nat → ℝ) (bs : Nat → Nat → ℝ) (q : Nat) (hq : q < c.nTop) :
    writeBottom c sens bs q = sens q := by
  unfold writeBottom; rw [if_neg]; omega

theorem writeBottom_bottom (c : Cfg) (sens : Nat → ℝ) (bs : Nat → Nat → ℝ) (s j : Nat)
    (hs : s < c.nS) (hj : j < c.nHdim) :
    writeBottom c sens bs (c.nTop + (s * c.nHdim + j)) = bs s j := by
  unfold writeBottom
  have hlt : s * c.nHdim + j < c.nS * c.nHdim := by
    have : s * c.nHdim + c.nHdim ≤ c.nS * c.nHdim := by
      rw [← Nat.succ_mul]; exact Nat.mul_le_mul_right _ hs
    omega
  rw [if_pos (by rw [endBottom_eq]; omega)]
  have e : c.nTop + (s * c.nHdim + j) - c.nTop = s * c.nHdim + j := by omega
  obtain ⟨hd, hm⟩ := div_mod_block s j c.nHdim hj
  rw [e, hd, hm]

theorem writeBottom_after (c : Cfg) (sens : Nat → ℝ) (bs : Nat → Nat → ℝ) (k : Nat) :
    writeBottom c sens bs (c.endBottom + k) = sens (c.endBottom + k) := by
  unfold writeBottom; rw [if_neg]; omega

theorem sumBy_congr (f g : SubModel → Nat) (us : List SubModel) (h : ∀ u ∈ us, f u = g u) :
    sumBy f us = sumBy g us := by
  induction us with
  | nil => rfl
  | cons u us ih =>
    rw [sumBy_cons, sumBy_cons, h u List.mem_cons_self,
      ih (fun v hv => h v (List.mem_cons_of_mem _ hv))]

theorem sumBy_zero (us : List SubModel) : sumBy (fun _ => 0) us = 0 := by
  induction us with
  | nil => rfl
  | cons u us ih => rw [sumBy_cons, ih]

theorem sumBy_mul (k : Nat) (f : SubModel → Nat) (us : List SubModel) :
    sumBy (fun u => k * f u) us = k * sumBy f us := by
  induction us with
  | nil => simp [sumBy]
  | cons u us ih => rw [sumBy_cons, sumBy_cons, ih, Nat.mul_add]

theorem nHdim_zero_of_all (c : Cfg) (hs : c.Sound) (p : Bool) (hall : ∀ u ∈ c.subs, u.detect = some p) :
    c.nHdim = 0 := by
  unfold Cfg.nHdim
  rw [sumBy_congr _ (fun _ => 0) c.subs (fun u hu => by
    have := (hs u hu).2.1
    rw [hall u hu] at this
    simp [this]), sumBy_zero]

/-- `_remove_duplicates` is `sens` (outside the individual block) plus the transpose of
    `_reshape_bottom_parameters` applied to `dbottom` — on every one of its four paths -/
theorem removeDuplicates_adjoint (c : Cfg) (hs : c.Sound) (x sens : Nat → ℝ) (D : Nat → Nat → ℝ) :
    ∑ q ∈ range c.nParameters, x q * removeDuplicates c sens D q
      = ∑ q ∈ range c.nParameters, (if c.nTop ≤ q ∧ q < c.endBottom then 0 else x q * sens q)
        + ∑ s ∈ range c.nS, ∑ d ∈ range c.nDim,
            reshapeBottom c (popBlock c x) (bottomBlock c x) s d * D s d := by
  have hposall : ∀ u ∈ c.subs, 0 < u.nDim := fun u hu => (hs u hu).1
  have hPT : c.nPop ≤ c.nTop := by unfold Cfg.nTop; omega
  unfold removeDuplicates reshapeBottom
  by_cases h1 : c.nHdim = c.nDim
  · -- quick solution 1: nothing pooled or heterogeneous
    rw [if_pos h1, if_pos h1]
    rw [adjoint_of_regions c x sens (writeBottom c sens D) (fun _ => 0) D
      (fun q hq => by rw [writeBottom_top c sens D q hq, add_zero])
      (fun s hs' j hj => writeBottom_bottom c sens D s j hs' hj)
      (fun k => writeBottom_after c sens D k)]
    simp only [mul_zero, Finset.sum_const_zero, add_zero, bottomBlock, ← h1, Nat.add_assoc]
  · rw [if_neg h1, if_neg h1]
    by_cases h3 : c.heteroDim = c.nDim ∧ c.specials.length = 1
    · -- all heterogeneous, one block
      have hall := all_detect false c.subs h3.1 hposall
      have hH0 := nHdim_zero_of_all c hs false hall
      have hP : c.nPop = c.nS * c.nDim := by
        unfold Cfg.nPop Cfg.nDim
        rw [← sumBy_mul]
        exact sumBy_congr _ _ c.subs (fun u hu => (hs u hu).2.2.2 (hall u hu))
      have h2 : ¬ c.pooledDim = c.nDim := by
        intro h2
        have hallp := all_detect true c.subs h2 hposall
        have hn0 : c.nDim ≠ 0 := by rw [hH0] at h1; exact fun h => h1 h.symm
        cases hsub : c.subs with
        | nil => simp [Cfg.nDim, hsub, sumBy] at hn0
        | cons u us =>
          have a := hall u (by rw [hsub]; exact List.mem_cons_self)
          have b := hallp u (by rw [hsub]; exact List.mem_cons_self)
          rw [a] at b; cases b
      rw [if_pos h3, if_neg h2, if_pos h3]
      rw [adjoint_of_regions c x sens _ (fun q => if q < c.nPop then D (q / c.nDim) (q % c.nDim) else 0)
        (fun _ _ => 0)
        (fun q hq => by by_cases hqp : q < c.nPop <;> simp [hqp])
        (fun s hs' j hj => by omega)
        (fun k => by rw [if_neg]; rw [endBottom_eq]; omega)]
      simp only [mul_zero, Finset.sum_const_zero, add_zero, popBlock]
      congr 1
      have : ∑ q ∈ range c.nTop, x q * (if q < c.nPop then D (q / c.nDim) (q % c.nDim) else 0)
          = ∑ q ∈ range c.nTop, (if 0 ≤ q ∧ q < c.nPop then x q * D (q / c.nDim) (q % c.nDim) else 0) :=
        Finset.sum_congr rfl fun q _ => by by_cases hqp : q < c.nPop <;> simp [hqp]
      rw [this, sum_indicator_Ico _ 0 c.nPop c.nTop (Nat.zero_le _) hPT, Nat.sub_zero, hP,
        sum_range_mul]
      refine Finset.sum_congr rfl fun s _ => Finset.sum_congr rfl fun j hj => ?_
      obtain ⟨hd, hm⟩ := div_mod_block s j c.nDim (mem_range.mp hj)
      simp only [Nat.zero_add, hd, hm]
    · rw [if_neg h3]
      by_cases h2 : c.pooledDim = c.nDim
      · -- all pooled
        have hall := all_detect true c.subs h2 hposall
        have hH0 := nHdim_zero_of_all c hs true hall
        have hP : c.nPop = c.nDim := by
          unfold Cfg.nPop Cfg.nDim
          exact sumBy_congr _ _ c.subs (fun u hu => (hs u hu).2.2.1 (hall u hu))
        rw [if_pos h2, if_pos h2]
        rw [adjoint_of_regions c x sens _ (fun q => if q < c.nPop then isum c.nS (fun s => D s q) else 0)
          (fun _ _ => 0)
          (fun q hq => by by_cases hqp : q < c.nPop <;> simp [hqp])
          (fun s hs' j hj => by omega)
          (fun k => by rw [if_neg]; rw [endBottom_eq]; omega)]
        simp only [mul_zero, Finset.sum_const_zero, add_zero, popBlock]
        congr 1
        have : ∑ q ∈ range c.nTop, x q * (if q < c.nPop then isum c.nS (fun s => D s q) else 0)
            = ∑ q ∈ range c.nTop, (if 0 ≤ q ∧ q < c.nPop then x q * isum c.nS (fun s => D s q) else 0) :=
          Finset.sum_congr rfl fun q _ => by by_cases hqp : q < c.nPop <;> simp [hqp]
        rw [this, sum_indicator_Ico _ 0 c.nPop c.nTop (Nat.zero_le _) hPT, Nat.sub_zero, hP,
          Finset.sum_comm]
        refine Finset.sum_congr rfl fun d _ => ?_
        simp only [Nat.zero_add, isum_eq, Finset.mul_sum]
      · -- the loop over the special dimensions
        rw [if_neg h2, if_neg h2, if_neg h3]
        obtain ⟨hwf, hb, hsum⟩ := specialsFrom_spec c.nS c.subs 0 0 hs
        have hH : c.nDim - below c.specials c.nDim = c.nHdim := by
          have : below c.specials c.nDim + c.nHdim = c.nDim := by
            simpa [Cfg.specials, Cfg.nDim, Cfg.nHdim] using hsum
          omega
        have hbN : ∀ sp ∈ c.specials, sp.b ≤ c.nDim := fun sp hm => by
          have := (hb sp hm).1; simpa [Cfg.nDim] using this
        have htP : ∀ sp ∈ c.specials, sp.tb ≤ c.nPop := fun sp hm => by
          have := (hb sp hm).2.2; simpa [Cfg.nPop] using this
        show ∑ q ∈ range c.nParameters, x q * writeBottom c
            (gatherLoop c.nS D c.specials 0 0 sens (fun _ _ => ofNat 0)).1 (gatherBs c D sens) q = _
        rw [adjoint_of_regions c x sens _ (contribAll c.nS D c.specials) (gatherBs c D sens)
          (fun q hq => by rw [writeBottom_top c _ _ q hq, gatherLoop_sens])
          (fun s hs' j hj => writeBottom_bottom c _ _ s j hs' hj)
          (fun k => by
            rw [writeBottom_after, gatherLoop_sens,
              contribAll_zero_of_ge c.nS D c.specials c.nPop _ htP (by rw [endBottom_eq]; omega),
              add_zero])]
        rw [add_assoc]
        congr 1
        -- population block
        have htop : ∑ q ∈ range c.nTop, x q * contribAll c.nS D c.specials q
            = ∑ q ∈ range c.nPop, x q * contribAll c.nS D c.specials q := by
          have hn : c.nTop = c.nPop + (c.nTop - c.nPop) := by omega
          rw [hn, Finset.sum_range_add]
          have : ∑ k ∈ range (c.nTop - c.nPop), x (c.nPop + k) * contribAll c.nS D c.specials (c.nPop + k)
              = 0 := Finset.sum_eq_zero fun k _ => by
            rw [contribAll_zero_of_ge c.nS D c.specials c.nPop _ htP (by omega), mul_zero]
          rw [this, add_zero]
        rw [htop, contribAll_pairing c.nS D x c.nPop c.specials 0 hwf htP,
          ← sum_list_comm c.nS c.specials
            (fun s sp => ∑ j ∈ range (sp.b - sp.a), fill x s sp (sp.a + j) * D s (sp.a + j)),
          ← Finset.sum_add_distrib]
        refine Finset.sum_congr rfl fun s _ => ?_
        -- one simulated individual: split its dimensions into special and regular ones
        have hsplit : ∑ d ∈ range c.nDim, reshapeGeneral c (popBlock c x) (bottomBlock c x) s d * D s d
            = ∑ d ∈ range c.nDim, (if spB c.specials d
                then reshapeGeneral c (popBlock c x) (bottomBlock c x) s d * D s d else 0)
              + ∑ d ∈ range c.nDim, (if spB c.specials d then 0
                else reshapeGeneral c (popBlock c x) (bottomBlock c x) s d * D s d) := by
          rw [← Finset.sum_add_distrib]
          exact Finset.sum_congr rfl fun d _ => by cases spB c.specials d <;> simp
        show _ = ∑ d ∈ range c.nDim, reshapeGeneral c (popBlock c x) (bottomBlock c x) s d * D s d
        rw [hsplit, sum_special_blocks c.nS _ c.nDim c.specials 0 hwf hbN]
        congr 1
        · -- special dimensions
          apply congrArg List.sum
          apply List.map_congr_left
          intro sp hm
          refine Finset.sum_congr rfl fun j hj => ?_
          have hj' := mem_range.mp hj
          have hbn := hbN sp hm
          have := (reshapeGeneral_spec c hs (popBlock c x) (bottomBlock c x) s (sp.a + j)
            (by omega)).1 sp hm (by omega) (by omega)
          rw [this]
          rfl
        · -- regular dimensions
          have hre := sum_regular_reindex c.nS c.specials hwf
            (fun col => x (c.nTop + (s * c.nHdim + col)) * gatherBs c D sens s col) c.nDim
          rw [hH] at hre
          rw [← hre]
          refine Finset.sum_congr rfl fun d hd => ?_
          by_cases hsp : spB c.specials d = true
          · simp [hsp]
          · have hreg : ¬ isSpecial c.specials d := fun hc => hsp ((spB_iff _ d).2 hc)
            simp only [hsp, Bool.false_eq_true, if_false]
            rw [(reshapeGeneral_spec c hs (popBlock c x) (bottomBlock c x) s d (mem_range.mp hd)).2 hreg,
              gatherBs_spec c hs D sens s d hreg]
            simp only [bottomBlock, Nat.add_assoc]

end FP
end ChiModel
