import ChiProofs.Lemmas.MechConfigRefine
import Mathlib.Data.List.Perm.Basic
import Mathlib.Data.List.Nodup
/-!
# C11 lemmas, part 2: on well-ordered histories the machine before bcb3fc2 (`stepLegacy`) takes the same
steps as the code as it is (`step_legacy_eq`), with the invariant `Inv` tying the ghost flags of the history to
the configuration reached.
-/
set_option linter.unusedSectionVars false
set_option linter.unusedSimpArgs false
namespace ChiModel.MechConfig
variable (b : Base)

/-! ### sorting keeps the names -/
theorem insertName_perm (x : String) (l : List String) : (insertName x l).Perm (x :: l) := by
  induction l with
  | nil => simp [insertName]
  | cons y l ih =>
    unfold insertName
    split_ifs
    · exact List.Perm.refl _
    · exact (List.Perm.cons y ih).trans (List.Perm.swap x y l)

theorem sortNames_perm (l : List String) : (sortNames l).Perm l := by
  induction l with
  | nil => simp [sortNames]
  | cons x l ih =>
    unfold sortNames
    exact (insertName_perm x _).trans (List.Perm.cons x ih)

theorem tablesOf_depot (v v' : Variant) (h : v.depot = v'.depot) : tablesOf b v = tablesOf b v' := by
  unfold tablesOf vStates vConsts; rw [h]

theorem paramNames_nodup (v : Variant) (hv : v.depot = false) (hw : b.WF) :
    (tablesOf b v).paramNames.Nodup := by
  unfold tablesOf vStates vConsts
  simp only [hv, Bool.false_eq_true, if_false]
  exact ((sortNames_perm b.states).append (sortNames_perm b.consts)).nodup_iff.mpr hw

theorem stateNames_nodup_vanilla (hw : b.WF) : (tablesOf b .vanilla).stateNames.Nodup := by
  unfold tablesOf vStates
  simp only [Variant.depot, Bool.false_eq_true, if_false]
  exact (sortNames_perm b.states).nodup_iff.mpr (List.Nodup.of_append_left hw)

/-! ### dictionaries -/
theorem lookup_idMap (l : List String) (k : String) :
    (idMap l).lookup k = if k ∈ l then some k else none := by
  induction l with
  | nil => simp [idMap]
  | cons a l ih =>
    simp only [idMap, List.map_cons, List.lookup_cons] at ih ⊢
    by_cases h : k = a
    · subst h; simp
    · have : (k == a) = false := by simpa using h
      simp only [this, List.mem_cons, h, false_or]
      exact ih

theorem rekey_idMap (keys l : List String) : rekey keys (idMap l) = idMap keys := by
  unfold rekey idMap
  apply List.map_congr_left
  intro k _
  have := lookup_idMap l k
  unfold idMap at this
  rw [this]
  split_ifs <;> rfl

theorem lookup_of_nodup (m : List (String × String)) (hn : (m.map Prod.fst).Nodup) (p : String × String)
    (hp : p ∈ m) : m.lookup p.1 = some p.2 := by
  induction m with
  | nil => simp at hp
  | cons q m ih =>
    simp only [List.map_cons, List.nodup_cons] at hn
    rcases List.mem_cons.mp hp with h | h
    · subst h; rw [List.lookup_cons]; simp
    · have hne : p.1 ≠ q.1 := by
        intro he; apply hn.1; rw [← he]; exact List.mem_map_of_mem (f := Prod.fst) h
      have : (p.1 == q.1) = false := by simpa using hne
      rw [List.lookup_cons, this]
      exact ih hn.2 h

theorem rekey_self (m : List (String × String)) (hn : (m.map Prod.fst).Nodup) :
    rekey (m.map Prod.fst) m = m := by
  unfold rekey
  rw [List.map_map]
  conv_rhs => rw [← List.map_id m]
  apply List.map_congr_left
  intro p hp
  simp only [Function.comp, lookup_of_nodup m hn p hp, Option.getD_some, id]

theorem dedup_nodup (l : List String) (h : l.Nodup) : dedup l = l := by
  induction l with
  | nil => rfl
  | cons a l ih =>
    simp only [List.nodup_cons] at h
    unfold dedup
    rw [ih h.2]
    congr 1
    apply List.filter_eq_self.mpr
    intro x hx
    simp only [ne_eq, decide_not, Bool.not_eq_eq_eq_not, Bool.not_true, decide_eq_false_iff_not]
    intro he; subst he; exact h.1 hx

theorem translate_idMap (l outs : List String) : translate (idMap l) outs = outs := by
  unfold translate idMap
  induction l generalizing outs with
  | nil => rfl
  | cons a l ih =>
    simp only [List.map_cons, List.foldl_cons]
    have : (if a ∈ outs then outs.set (outs.idxOf a) a else outs) = outs := by
      split_ifs with h
      · apply List.ext_getElem (by simp)
        intro i h1 h2
        rw [List.getElem_set]
        split_ifs with h3
        · subst h3; exact (List.getElem_idxOf _).symm
        · rfl
      · rfl
    rw [this]
    exact ih outs

/-! ### outputs that are valid stay valid when no variable disappears -/
theorem firstErr_none {α} (f : α → Option Err) (l : List α) :
    firstErr f l = none ↔ ∀ x ∈ l, f x = none := by
  induction l with
  | nil => simp [firstErr]
  | cons a l ih =>
    unfold firstErr
    cases h : f a with
    | some e => simp [h]
    | none => simp [h, ih]

theorem outputCheck_mono (v v' : Variant) (h : v.depot = true → v'.depot = true) (x : String)
    (hx : outputCheck b v x = none) : outputCheck b v' x = none := by
  unfold outputCheck at hx ⊢
  split_ifs at hx with h1
  · have : x ∈ vStates b v' ∨ x ∈ b.inters := by
      rcases h1 with h1 | h1
      · left
        unfold vStates at h1 ⊢
        by_cases hd : v.depot = true
        · simp only [hd, h hd, if_true] at h1 ⊢; exact h1
        · simp only [hd, if_false] at h1
          split_ifs
          · exact List.mem_append_left _ h1
          · exact h1
      · right; exact h1
    simp [this]


/-- what the ghost flags of a history guarantee about the configuration it has reached -/
structure Inv (h : Hist) (c : Config) : Prop where
  keys : c.pmap.map Prod.fst = (cfgTables b c).paramNames
  outs : firstErr (outputCheck b (variantOf c.admin)) c.outputs = none
  reg : h.regimenSeen = false → c.regimen = none
  adm : h.indirectSeen = false → (variantOf c.admin).depot = false
  ren : h.renameSeen = false →
    c.pmap = idMap (cfgTables b c).paramNames ∧ c.omap = idMap (dedup c.outputs)

theorem setAdmin_legacy_eq (h : Hist) (c : Config) (a : Admin) (hw : b.WF) (hi : Inv b h c)
    (hal : h.allows (.setAdmin a) = true) :
    setAdminLegacy b (buildM b c) a = setAdminM b (buildM b c) a := by
  unfold setAdminLegacy setAdminM
  cases hv : validAdmin b a with
  | some e => rfl
  | none =>
    simp only []
    simp only [Hist.allows, Bool.and_eq_true, Bool.not_eq_true'] at hal
    obtain ⟨hreg, hal⟩ := hal
    have hregimen : c.regimen = none := hi.reg hreg
    by_cases hd : a.direct = true
    · -- direct route: the code leaves the tables alone
      simp only [hd, if_true, Bool.not_eq_true'] at hal ⊢
      have hdep : (variantOf c.admin).depot = false := hi.adm hal
      have hdep' : (Variant.dosed a).depot = false := by simp [Variant.depot, hd]
      have hvalid : firstErr (outputCheck b (.dosed a)) (buildM b c).outputNames = none := by
        rw [firstErr_none]
        intro x hx
        exact outputCheck_mono b _ _ (by simp [hdep]) x ((firstErr_none _ _).mp hi.outs x hx)
      rw [hvalid]
      simp only []
      have ht : tablesOf b (.dosed a) = tablesOf b (variantOf c.admin) :=
        tablesOf_depot b _ _ (by rw [hdep, hdep'])
      have hp : rekey (tablesOf b (variantOf c.admin)).paramNames c.pmap = c.pmap := by
        have hk : c.pmap.map Prod.fst = (tablesOf b (variantOf c.admin)).paramNames := hi.keys
        rw [← hk]
        exact rekey_self _ (by rw [hk]; exact paramNames_nodup b _ hdep hw)
      simp [buildM, ht, hp, hregimen]
    · -- indirect route: `_add_dose_compartment` resets the tables; nothing had been renamed
      have hd' : a.direct = false := by simpa using hd
      simp only [hd', Bool.false_eq_true, if_false, Bool.not_eq_true'] at hal ⊢
      obtain ⟨hpm, hom⟩ := hi.ren hal
      have hvalid : firstErr (outputCheck b (.dosed a)) (buildM b c).outputNames = none := by
        rw [firstErr_none]
        intro x hx
        exact outputCheck_mono b _ _ (by simp [Variant.depot, hd']) x ((firstErr_none _ _).mp hi.outs x hx)
      rw [hvalid]
      simp only []
      have ht : tablesOf b (.depotOnly a) = tablesOf b (.dosed a) :=
        tablesOf_depot b _ _ (by simp [Variant.depot, hd'])
      unfold setOutputsM refreshTables
      simp only [translate_idMap]
      have hv2 : firstErr (outputCheck b (buildM b c).sim.variant) (buildM b c).outputNames = none := hi.outs
      simp only [hv2]
      unfold enableSensM
      cases hs : c.sens <;>
        simp [buildM, hs, ht, rekey_idMap, hregimen, hpm, hom]


/-! ### the invariant is established by construction and kept by every call -/

theorem map_fst_idMap (l : List String) : (idMap l).map Prod.fst = l := by
  unfold idMap; rw [List.map_map]; conv_rhs => rw [← List.map_id l]
  rfl

theorem map_fst_rekey (keys : List String) (m) : (rekey keys m).map Prod.fst = keys := by
  unfold rekey; rw [List.map_map]; conv_rhs => rw [← List.map_id keys]
  rfl

theorem map_fst_setKey (k v : String) (m : List (String × String)) :
    (setKey k v m).map Prod.fst = m.map Prod.fst := by
  induction m with
  | nil => rfl
  | cons p m ih =>
    obtain ⟨a, c⟩ := p
    unfold setKey
    split_ifs <;> simp [ih]

theorem map_fst_renameLoop (names : List (String × String)) :
    ∀ (keys : List String) (m : List (String × String)),
      (renameLoop names keys m).1.map Prod.fst = m.map Prod.fst := by
  intro keys
  induction keys with
  | nil => intro m; rfl
  | cons k ks ih =>
    intro m
    unfold renameLoop
    cases hk : m.lookup k with
    | none => rfl
    | some old =>
      cases hn : names.lookup old with
      | none => simpa [hn] using ih m
      | some new => simp only [hn]; rw [ih, map_fst_setKey]

theorem map_fst_renameM (names) (keys : List String) (m : List (String × String)) :
    (renameM names keys m).1.map Prod.fst = m.map Prod.fst := by
  unfold renameM
  simp only []
  split_ifs
  · rfl
  · rfl
  · exact map_fst_renameLoop names keys m

theorem inv_init (hw : b.WF) : Inv b ⟨false, false, false⟩ (initCfg b) where
  keys := map_fst_idMap _
  outs := by
    rw [firstErr_none]
    intro x hx
    have hx' : x ∈ b.states := (sortNames_perm b.states).mem_iff.mp (by simpa [initCfg, tablesOf, vStates, Variant.depot] using hx)
    simp [outputCheck, variantOf, initCfg, vStates, Variant.depot, hx']
  reg := fun _ => rfl
  adm := fun _ => rfl
  ren := fun _ => ⟨rfl, by
    show idMap (tablesOf b .vanilla).stateNames = idMap (dedup (tablesOf b .vanilla).stateNames)
    rw [dedup_nodup _ (stateNames_nodup_vanilla b hw)]⟩

/-- the invariant only looks at these five settings -/
def core5 (c : Config) := (c.admin, c.regimen, c.outputs, c.pmap, c.omap)

theorem inv_congr (h : Hist) (c c' : Config) (hc : core5 c' = core5 c) (hi : Inv b h c) : Inv b h c' := by
  simp only [core5, Prod.mk.injEq] at hc
  obtain ⟨h1, h2, h3, h4, h5⟩ := hc
  constructor
  · unfold cfgTables; rw [h1, h4]; exact hi.keys
  · rw [h1, h3]; exact hi.outs
  · rw [h2]; exact hi.reg
  · rw [h1]; exact hi.adm
  · unfold cfgTables; rw [h1, h3, h4, h5]; exact hi.ren

theorem inv_weaken (h h' : Hist) (c : Config) (hi : Inv b h c)
    (h1 : h'.regimenSeen = false → h.regimenSeen = false)
    (h2 : h'.indirectSeen = false → h.indirectSeen = false)
    (h3 : h'.renameSeen = false → h.renameSeen = false) : Inv b h' c :=
  ⟨hi.keys, hi.outs, fun x => hi.reg (h1 x), fun x => hi.adm (h2 x), fun x => hi.ren (h3 x)⟩

theorem cfgSens_core5 (c : Config) (on names) : core5 (cfgSens b c on names).1 = core5 c := by
  unfold cfgSens core5; cases on <;> simp <;> split_ifs <;> simp

theorem cfgSensR_core5 (c : Config) (r on) : core5 (cfgSensR b c r on).1 = core5 c := by
  unfold cfgSensR
  simp only []
  split_ifs <;> exact cfgSens_core5 b c _ _

theorem cfgFix_core5 (c : Config) (r d) : core5 (cfgFix b c r d).1 = core5 c := by
  unfold cfgFix
  simp only []
  split_ifs
  · rw [cfgSensR_core5]; rfl
  · rfl

theorem inv_cfgOutputs (h : Hist) (c : Config) (outs) (hi : Inv b h c) : Inv b h (cfgOutputs b c outs).1 := by
  unfold cfgOutputs
  cases he : firstErr (outputCheck b (variantOf c.admin)) (translate c.omap outs) with
  | some e => simpa [he] using hi
  | none =>
    simp only [he]
    refine ⟨hi.keys, he, hi.reg, hi.adm, fun hr => ⟨(hi.ren hr).1, ?_⟩⟩
    show rekey (dedup (translate c.omap outs)) c.omap = idMap (dedup (translate c.omap outs))
    rw [(hi.ren hr).2, rekey_idMap]

theorem inv_cfgRegimen (h : Hist) (c : Config) (r) (hi : Inv b h c) :
    Inv b { h with regimenSeen := true } (cfgRegimen c r).1 := by
  unfold cfgRegimen
  split
  · exact inv_weaken b h _ c hi (by simp) (by simp) (by simp)
  · exact ⟨hi.keys, hi.outs, by simp, hi.adm, hi.ren⟩

theorem inv_cfgAdmin (h : Hist) (c : Config) (a) (hi : Inv b h c) :
    Inv b { h with indirectSeen := h.indirectSeen || !a.direct } (cfgAdmin b c a).1 := by
  unfold cfgAdmin
  cases hv : validAdmin b a with
  | some e => simp only [hv]; exact inv_weaken b h _ c hi (by simp) (by simp; tauto) (by simp)
  | none =>
    simp only [hv]
    cases he : firstErr (outputCheck b (.dosed a)) c.outputs with
    | some e => simp only [he]; exact inv_weaken b h _ c hi (by simp) (by simp; tauto) (by simp)
    | none =>
      simp only [he]
      refine ⟨map_fst_rekey _ _, he, hi.reg, ?_, fun hr => ⟨?_, (hi.ren hr).2⟩⟩
      · intro hx
        simp only [Bool.or_eq_false_iff, Bool.not_eq_false'] at hx
        simp [variantOf, Variant.depot, hx.2]
      · show rekey (tablesOf b (.dosed a)).paramNames c.pmap = idMap (tablesOf b (.dosed a)).paramNames
        rw [(hi.ren hr).1, rekey_idMap]

theorem inv_apply (h : Hist) (c : Config) (op : Op) (hi : Inv b h c) :
    Inv b (h.next op) (applyCfg b c op).1 := by
  unfold applyCfg Hist.next
  cases op with
  | setAdmin a =>
    cases hr : c.red with
    | some r => simp only [hr]; exact inv_weaken b h _ c hi (by simp) (by simp; tauto) (by simp)
    | none =>
      simp only [hr]
      split_ifs
      · exact inv_weaken b h _ c hi (by simp) (by simp; tauto) (by simp)
      · exact inv_cfgAdmin b h c a hi
  | setRegimen r =>
    cases hr : c.red <;> simp only [hr] <;> split_ifs <;>
      first
        | exact inv_weaken b h _ c hi (by simp) (by simp) (by simp)
        | exact inv_cfgRegimen b h c r hi
  | setOutputs outs =>
    cases hr : c.red with
    | none => simp only [hr]; exact inv_cfgOutputs b h c outs hi
    | some r =>
      simp only [hr]
      split
      · exact inv_congr b h (cfgOutputs b c outs).1 _ rfl (inv_cfgOutputs b h c outs hi)
      · exact inv_cfgOutputs b h c outs hi
  | setParamNames names =>
    cases hr : c.red <;> simp only [hr] <;>
      exact ⟨(map_fst_renameM names _ _).trans hi.keys, hi.outs, hi.reg, hi.adm, by simp⟩
  | setOutputNames names =>
    cases hr : c.red <;> simp only [hr] <;> exact ⟨hi.keys, hi.outs, hi.reg, hi.adm, by simp⟩
  | enableSens on names =>
    cases hr : c.red with
    | none => simp only [hr]; exact inv_congr b h c _ (cfgSens_core5 b c on names) hi
    | some r =>
      cases names with
      | none => simp only [hr]; exact inv_congr b h c _ (cfgSensR_core5 b c r on) hi
      | some ns => simpa [hr] using hi
  | wrap => cases hr : c.red <;> simp only [hr] <;> exact inv_congr b h c _ rfl hi
  | fix d =>
    cases hr : c.red with
    | none => simpa [hr] using hi
    | some r => simp only [hr]; exact inv_congr b h c _ (cfgFix_core5 b c r d) hi
  | copy => cases hr : c.red <;> simp only [hr] <;> exact inv_congr b h c _ rfl hi

theorem good_of_inv (h : Hist) (c : Config) (hi : Inv b h c) : Good b c := by
  intro k hk
  rw [← hi.keys] at hk
  obtain ⟨p, hp, rfl⟩ := List.mem_map.mp hk
  clear hk hi
  generalize c.pmap = m at hp
  induction m with
  | nil => simp at hp
  | cons q m ih =>
    rw [List.lookup_cons]
    by_cases he : p.1 == q.1
    · simp [he]
    · simp only [he]
      rcases List.mem_cons.mp hp with h1 | h1
      · subst h1; simp at he
      · exact ih h1

/-- on an allowed call the machine before bcb3fc2 and the code as it is coincide -/
theorem step_legacy_eq (h : Hist) (c : Config) (op : Op) (hw : b.WF) (hi : Inv b h c)
    (hal : h.allows op = true) : stepLegacy b (build b c) op = step b (build b c) op := by
  cases op with
  | setAdmin a =>
    cases hr : c.red with
    | some r => rw [build_some b c r hr]; rfl
    | none =>
      rw [build_none b c hr]
      simp only [stepLegacy, step, stepPlain]
      by_cases hp : b.pkpd
      · simp only [hp, Bool.not_true, Bool.false_eq_true, if_false, if_true]
        rw [setAdmin_legacy_eq b h c a hw hi hal]
      · simp [hp]
  | _ => cases hr : c.red <;> first | (rw [build_none b c hr]; rfl) | (rw [build_some b c _ hr]; rfl)

end ChiModel.MechConfig
