import ChiModel.MechConfig
import Mathlib.Tactic.SplitIfs
/-!
# C11 lemmas, part 1: the object machine with the intended `set_administration` refines the
configuration machine (`step_build`).  Helper lemmas only; the property theorems are in `Props/C11.lean`.
-/
set_option linter.unusedSectionVars false
set_option linter.unusedSimpArgs false
namespace ChiModel.MechConfig
variable (b : Base)

theorem mapMOpt_isSome {α β} (f : α → Option β) (l : List α) (h : ∀ k ∈ l, (f k).isSome) :
    (mapMOpt f l).isSome := by
  induction l with
  | nil => simp [mapMOpt]
  | cons a l ih =>
    have ha := h a (by simp)
    have hl := ih (fun k hk => h k (by simp [hk]))
    unfold mapMOpt
    cases hfa : f a with
    | none => simp [hfa] at ha
    | some x =>
      cases hml : mapMOpt f l with
      | none => simp [hml] at hl
      | some xs => simp

theorem lookup_setKey_isSome (k v k' : String) (m : List (String × String)) :
    ((setKey k v m).lookup k').isSome = (m.lookup k').isSome := by
  induction m with
  | nil => simp [setKey]
  | cons p m ih =>
    obtain ⟨a, c⟩ := p
    unfold setKey
    by_cases h : a = k
    · subst h
      simp only [if_true, List.lookup_cons]
      by_cases h2 : k' == a <;> simp [h2]
    · simp only [h, if_false, List.lookup_cons]
      by_cases h2 : k' == a <;> simp [h2, ih]

/-- every listed parameter has a displayed name -/
def Keyed (keys : List String) (m : List (String × String)) : Prop := ∀ k ∈ keys, (m.lookup k).isSome

theorem renameLoop_keyed (names : List (String × String)) (keys0 : List String) :
    ∀ (keys : List String) (m : List (String × String)), Keyed keys0 m →
      Keyed keys0 (renameLoop names keys m).1 := by
  intro keys
  induction keys with
  | nil => intro m h; simpa [renameLoop] using h
  | cons k ks ih =>
    intro m h
    unfold renameLoop
    cases hk : m.lookup k with
    | none => simpa using h
    | some old =>
      cases hn : names.lookup old with
      | none => simpa [hn] using ih m h
      | some new =>
        simp only [hn]
        apply ih
        intro k' hk'
        rw [lookup_setKey_isSome]; exact h k' hk'

theorem renameLoop_noErr (names : List (String × String)) :
    ∀ (keys : List String) (m : List (String × String)), Keyed keys m →
      (renameLoop names keys m).2 = none := by
  intro keys
  induction keys with
  | nil => intro m _; simp [renameLoop]
  | cons k ks ih =>
    intro m h
    unfold renameLoop
    have hk := h k (by simp)
    cases hk' : m.lookup k with
    | none => simp [hk'] at hk
    | some old =>
      cases hn : names.lookup old with
      | none => simpa [hn] using ih m (fun k' hk' => h k' (by simp [hk']))
      | some new =>
        simp only [hn]
        apply ih
        intro k' hk'
        rw [lookup_setKey_isSome]; exact h k' (by simp [hk'])

theorem renameM_keyed (names) (keys0 keys : List String) (m : List (String × String)) (h : Keyed keys0 m) :
    Keyed keys0 (renameM names keys m).1 := by
  unfold renameM
  simp only []
  split_ifs
  · exact h
  · exact h
  · exact renameLoop_keyed names keys0 keys m h

/-- under `Keyed`, `renameM` fails only in its up-front checks, which leave the dictionary untouched -/
theorem renameM_err_unchanged (names) (keys : List String) (m : List (String × String)) (h : Keyed keys m)
    (e : Err) (he : (renameM names keys m).2 = some e) : (renameM names keys m).1 = m := by
  unfold renameM at he ⊢
  simp only [] at he ⊢
  split_ifs at he ⊢
  · rfl
  · rfl
  · rw [renameLoop_noErr names keys m h] at he; cases he


theorem enableSensM_build (c : Config) (on : Bool) (names : Option (List String)) :
    enableSensM (buildM b c) on names = (buildM b (cfgSens b c on names).1, (cfgSens b c on names).2) := by
  unfold enableSensM cfgSens
  cases on <;> cases hs : c.sens <;> simp only [buildM, hs, cfgTables] <;> split_ifs <;> simp_all

theorem setOutputsM_build (c : Config) (outs : List String) :
    setOutputsM b (buildM b c) outs = (buildM b (cfgOutputs b c outs).1, (cfgOutputs b c outs).2) := by
  unfold setOutputsM cfgOutputs
  have hv : (buildM b c).sim.variant = variantOf c.admin := rfl
  have ho : (buildM b c).omap = c.omap := rfl
  rw [hv, ho]
  cases h : firstErr (outputCheck b (variantOf c.admin)) (translate c.omap outs) with
  | some e => simp [h]
  | none =>
    simp only [h]
    unfold enableSensM
    cases hs : c.sens <;> simp [buildM, hs]

theorem setAdminM_build (c : Config) (a : Admin) :
    setAdminM b (buildM b c) a = (buildM b (cfgAdmin b c a).1, (cfgAdmin b c a).2) := by
  unfold setAdminM cfgAdmin
  cases h : validAdmin b a with
  | some e => simp [h]
  | none =>
    simp only [h]
    have ho : (buildM b c).outputNames = c.outputs := rfl
    rw [ho]
    cases h2 : firstErr (outputCheck b (.dosed a)) c.outputs with
    | some e => simp [h2]
    | none => simp [h2, buildM, variantOf]

theorem setRegimenM_build (c : Config) (r : Nat) :
    setRegimenM (buildM b c) r = (buildM b (cfgRegimen c r).1, (cfgRegimen c r).2) := by
  unfold setRegimenM cfgRegimen
  have ha : (buildM b c).admin = c.admin := rfl
  rw [ha]
  cases h : c.admin <;> simp [buildM, h]

theorem copyM_build (c : Config) : copyM (buildM b c) = buildM b { c with sens := none } := by
  simp [copyM, buildM]


/-! ## `Good`: every parameter of the configuration has a displayed name -/

def Good (c : Config) : Prop := Keyed (cfgTables b c).paramNames c.pmap

theorem lookup_idMap_isSome (l : List String) (k : String) (h : k ∈ l) : ((idMap l).lookup k).isSome := by
  induction l with
  | nil => simp at h
  | cons a l ih =>
    simp only [idMap, List.map_cons, List.lookup_cons]
    by_cases h2 : k == a
    · simp [h2]
    · simp only [h2]
      have : k ≠ a := by simpa using h2
      rcases List.mem_cons.mp h with h3 | h3
      · exact absurd h3 this
      · exact ih h3

theorem lookup_rekey_isSome (keys : List String) (old : List (String × String)) (k : String) (h : k ∈ keys) :
    ((rekey keys old).lookup k).isSome := by
  induction keys with
  | nil => simp at h
  | cons a l ih =>
    simp only [rekey, List.map_cons, List.lookup_cons]
    by_cases h2 : k == a
    · simp [h2]
    · simp only [h2]
      have : k ≠ a := by simpa using h2
      rcases List.mem_cons.mp h with h3 | h3
      · exact absurd h3 this
      · exact ih h3

theorem good_init : Good b (initCfg b) := by
  intro k hk
  exact lookup_idMap_isSome _ k hk

theorem cfgSens_frame (c : Config) (on names) :
    (cfgSens b c on names).1.admin = c.admin ∧ (cfgSens b c on names).1.pmap = c.pmap
      ∧ (cfgSens b c on names).1.red = c.red := by
  unfold cfgSens; cases on <;> simp <;> split_ifs <;> simp

theorem cfgOutputs_frame (c : Config) (outs) :
    (cfgOutputs b c outs).1.admin = c.admin ∧ (cfgOutputs b c outs).1.pmap = c.pmap
      ∧ (cfgOutputs b c outs).1.red = c.red := by
  unfold cfgOutputs
  cases h : firstErr (outputCheck b (variantOf c.admin)) (translate c.omap outs) <;> simp [h]

theorem cfgRegimen_frame (c : Config) (r) :
    (cfgRegimen c r).1.admin = c.admin ∧ (cfgRegimen c r).1.pmap = c.pmap
      ∧ (cfgRegimen c r).1.red = c.red := by
  unfold cfgRegimen; cases h : c.admin <;> simp [h]

theorem cfgSensR_frame (c : Config) (r on) :
    (cfgSensR b c r on).1.admin = c.admin ∧ (cfgSensR b c r on).1.pmap = c.pmap := by
  unfold cfgSensR
  simp only []
  split_ifs <;> exact ⟨(cfgSens_frame b _ _ _).1, (cfgSens_frame b _ _ _).2.1⟩

theorem cfgFix_frame (c : Config) (r d) :
    (cfgFix b c r d).1.admin = c.admin ∧ (cfgFix b c r d).1.pmap = c.pmap := by
  unfold cfgFix
  simp only []
  split_ifs <;> first | exact cfgSensR_frame b _ _ _ | exact ⟨rfl, rfl⟩

theorem good_of_frame (c c' : Config) (h : Good b c) (ha : c'.admin = c.admin) (hp : c'.pmap = c.pmap) :
    Good b c' := by
  unfold Good cfgTables at *; rw [ha, hp]; exact h

theorem good_apply (c : Config) (op : Op) (h : Good b c) : Good b (applyCfg b c op).1 := by
  unfold applyCfg
  cases op with
  | setAdmin a =>
    cases hr : c.red with
    | some r => simpa [hr] using h
    | none =>
      simp only [hr]
      split_ifs
      · exact h
      · unfold cfgAdmin
        cases hv : validAdmin b a with
        | some e => simpa [hv] using h
        | none =>
          simp only [hv]
          cases h2 : firstErr (outputCheck b (.dosed a)) c.outputs with
          | some e => simpa [h2] using h
          | none =>
            simp only [h2]
            intro k hk
            exact lookup_rekey_isSome _ _ k hk
  | setRegimen r =>
    cases hr : c.red <;> simp only [hr] <;> split_ifs <;> first | exact h | exact good_of_frame b c _ h (cfgRegimen_frame c r).1 (cfgRegimen_frame c r).2.1
  | setOutputs outs =>
    cases hr : c.red with
    | none =>
      simp only [hr]
      exact good_of_frame b c _ h (cfgOutputs_frame b c outs).1 (cfgOutputs_frame b c outs).2.1
    | some r =>
      simp only [hr]
      split <;>
        exact good_of_frame b c _ h (cfgOutputs_frame b c outs).1 (cfgOutputs_frame b c outs).2.1
  | setParamNames names =>
    cases hr : c.red <;> simp only [hr] <;> exact renameM_keyed names _ _ _ h
  | setOutputNames names =>
    cases hr : c.red <;> simp only [hr] <;> exact good_of_frame b c _ h rfl rfl
  | enableSens on names =>
    cases hr : c.red with
    | none => simp only [hr]; exact good_of_frame b c _ h (cfgSens_frame b c on names).1 (cfgSens_frame b c on names).2.1
    | some r =>
      cases names with
      | none =>
        simp only [hr]
        exact good_of_frame b c _ h (cfgSensR_frame b c r on).1 (cfgSensR_frame b c r on).2
      | some ns => simpa [hr] using h
  | wrap => cases hr : c.red <;> simp only [hr] <;> exact good_of_frame b c _ h rfl rfl
  | fix d =>
    cases hr : c.red with
    | none => simpa [hr] using h
    | some r => simp only [hr]; exact good_of_frame b c _ h (cfgFix_frame b c r d).1 (cfgFix_frame b c r d).2
  | copy => cases hr : c.red <;> simp only [hr] <;> exact good_of_frame b c _ h rfl rfl


/-! ## one step of the object machine on a built state = one step of the configuration machine -/

theorem buildM_congr_red (c : Config) (r : Option RedCfg) : buildM b { c with red := r } = buildM b c := rfl

theorem buildR_congr (c c' : Config) (r : RedCfg) (ha : c'.admin = c.admin) (hp : c'.pmap = c.pmap) :
    buildR b c' r = buildR b c r := by
  unfold buildR cfgPublic cfgTables; rw [ha, hp]

theorem parametersM_buildM (c : Config) : parametersM (buildM b c) = cfgPublic b c := rfl

theorem freeNames_buildR (c : Config) (r : RedCfg) : freeNames (buildR b c r) = cfgFree b c r := by
  unfold freeNames cfgFree buildR; cases r.mask <;> rfl

theorem cfgPublic_isSome (c : Config) (h : Good b c) : (cfgPublic b c).isSome :=
  mapMOpt_isSome _ _ h

theorem build_eq_of (c c' : Config) (m : MState) (hm : m = buildM b c') (ha : c'.admin = c.admin)
    (hp : c'.pmap = c.pmap) (hr : c'.red = c.red) :
    (⟨m, c.red.map (buildR b c)⟩ : Obj) = build b c' := by
  subst hm
  unfold build
  rw [hr]
  cases c.red with
  | none => rfl
  | some r => simp [buildR_congr b c c' r ha hp]


theorem cfgAdmin_red (c : Config) (a : Admin) : (cfgAdmin b c a).1.red = c.red := by
  unfold cfgAdmin
  cases hv : validAdmin b a with
  | some e => simp [hv]
  | none =>
    simp only [hv]
    cases h2 : firstErr (outputCheck b (.dosed a)) c.outputs <;> simp [h2]

theorem build_none (c : Config) (h : c.red = none) : build b c = ⟨buildM b c, none⟩ := by
  simp [build, h]

theorem build_some (c : Config) (r : RedCfg) (h : c.red = some r) :
    build b c = ⟨buildM b c, some (buildR b c r)⟩ := by
  simp [build, h]

theorem step_build_plain (c : Config) (op : Op) (h : Good b c) (hr : c.red = none) :
    step b (build b c) op = (build b (applyCfg b c op).1, (applyCfg b c op).2) := by
  rw [build_none b c hr]
  cases op with
  | setAdmin a =>
    simp only [step, stepPlain, applyCfg, hr]
    by_cases hp : b.pkpd
    · simp only [hp, setAdminM_build, Bool.not_true, Bool.false_eq_true, if_false]
      rw [build_none b _ (by rw [cfgAdmin_red, hr])]
    · simp [hp, build_none b c hr]
  | setRegimen r =>
    simp only [step, stepPlain, applyCfg, hr]
    by_cases hp : b.pkpd
    · simp only [hp, setRegimenM_build, Bool.not_true, Bool.false_eq_true, if_false]
      rw [build_none b _ (by rw [(cfgRegimen_frame c r).2.2, hr])]
    · simp [hp, build_none b c hr]
  | setOutputs outs =>
    simp only [step, stepPlain, applyCfg, hr, setOutputsM_build]
    rw [build_none b _ (by rw [(cfgOutputs_frame b c outs).2.2, hr])]
  | setParamNames names =>
    simp only [step, stepPlain, applyCfg, hr]
    rw [build_none b _ (by simp [hr])]
    rfl
  | setOutputNames names =>
    simp only [step, stepPlain, applyCfg, hr]
    rw [build_none b _ (by simp [hr])]
    rfl
  | enableSens on names =>
    simp only [step, stepPlain, applyCfg, hr, enableSensM_build]
    rw [build_none b _ (by rw [(cfgSens_frame b c on names).2.2, hr])]
  | wrap =>
    simp only [step, applyCfg, hr, wrapM, parametersM_buildM]
    have hs := cfgPublic_isSome b c h
    cases hp : cfgPublic b c with
    | none => simp [hp] at hs
    | some ns =>
      simp only [Option.map_some]
      unfold build
      simp only [Option.map_some, buildM_congr_red]
      have : cfgPublic b { c with red := some ⟨none, none, false⟩ } = some ns := hp
      simp [buildR, this, cfgTables, buildM]
  | fix d =>
    simp only [step, stepPlain, applyCfg, hr]
    rw [build_none b c hr]
  | copy =>
    simp only [step, stepPlain, applyCfg, hr, copyM_build]
    rw [build_none b _ (by simp [hr])]


theorem buildR_emptySens (c c' : Config) (r : RedCfg) (e : Bool) (ha : c'.admin = c.admin)
    (hp : c'.pmap = c.pmap) :
    buildR b c' { r with emptySens := e } = { buildR b c r with emptySens := e } := by
  unfold buildR cfgPublic cfgTables; rw [ha, hp]

/-- `enable_sensitivities` through the wrapper -/
theorem enableSensR_build (c : Config) (r : RedCfg) (on : Bool) :
    ((⟨(enableSensR (buildM b c) (buildR b c r) on).1.1,
        some (enableSensR (buildM b c) (buildR b c r) on).1.2⟩ : Obj),
      (enableSensR (buildM b c) (buildR b c r) on).2)
      = (build b (cfgSensR b c r on).1, (cfgSensR b c r on).2) := by
  unfold enableSensR cfgSensR
  rw [freeNames_buildR]
  simp only []
  split_ifs
  all_goals
    simp only [enableSensM_build, Prod.mk.injEq, and_true]
    rw [build_some b _ _ rfl]
    simp only [Obj.mk.injEq, Option.some.injEq]
    exact ⟨rfl, (buildR_emptySens b c _ r _ (cfgSens_frame b c _ _).1 (cfgSens_frame b c _ _).2.1).symm⟩

theorem hasSensR_buildR (c : Config) (r : RedCfg) (m v) :
    hasSensR (buildM b c) { buildR b c r with mask := m, values := v }
      = (r.emptySens || c.sens.isSome) := rfl

theorem fixR_build (c : Config) (r : RedCfg) (d : List (String × Option Nat)) :
    ((⟨(fixR (buildM b c) (buildR b c r) d).1.1, some (fixR (buildM b c) (buildR b c r) d).1.2⟩ : Obj),
      (fixR (buildM b c) (buildR b c r) d).2)
      = (build b (cfgFix b c r d).1, (cfgFix b c r d).2) := by
  unfold fixR cfgFix
  have hmv : fixMask (buildR b c r).names (buildR b c r).nParams (buildR b c r).mask (buildR b c r).values d
      = fixMask ((cfgPublic b c).getD []) (cfgTables b c).nParams r.mask r.values d := rfl
  simp only [hmv]
  generalize fixMask ((cfgPublic b c).getD []) (cfgTables b c).nParams r.mask r.values d = mv
  obtain ⟨m1, v1⟩ := mv
  simp only [hasSensR_buildR]
  by_cases hs : (r.emptySens || c.sens.isSome) = true
  · simp only [hs, if_true]
    have hb : ({ buildR b c r with mask := m1, values := v1 } : Red)
        = buildR b { c with red := some { r with mask := m1, values := v1 } }
            { r with mask := m1, values := v1 } := rfl
    rw [hb]
    have := enableSensR_build b { c with red := some { r with mask := m1, values := v1 } }
      { r with mask := m1, values := v1 } true
    rw [buildM_congr_red] at this
    exact this
  · simp only [hs, if_false, Bool.false_eq_true]
    rw [build_some b _ { r with mask := m1, values := v1 } rfl]
    rfl

theorem build_some_of (c c' : Config) (r : RedCfg) (m : MState) (hm : m = buildM b c')
    (ha : c'.admin = c.admin) (hp : c'.pmap = c.pmap) (hr : c'.red = some r) :
    (⟨m, some (buildR b c r)⟩ : Obj) = build b c' := by
  subst hm
  rw [build_some b c' r hr, buildR_congr b c c' r ha hp]

theorem step_build_wrapped (c : Config) (op : Op) (h : Good b c) (r : RedCfg) (hr : c.red = some r) :
    step b (build b c) op = (build b (applyCfg b c op).1, (applyCfg b c op).2) := by
  rw [build_some b c r hr]
  cases op with
  | setAdmin a => simp only [step, applyCfg, hr, build_some b c r hr]
  | wrap => simp only [step, applyCfg, hr, build_some b c r hr]
  | setRegimen x =>
    simp only [step, applyCfg, hr]
    by_cases hp : b.pkpd
    · simp only [hp, setRegimenM_build, Bool.not_true, Bool.false_eq_true, if_false, Prod.mk.injEq, and_true]
      exact build_some_of b c _ r _ rfl (cfgRegimen_frame c x).1 (cfgRegimen_frame c x).2.1
        (by rw [(cfgRegimen_frame c x).2.2, hr])
    · simp [hp, build_some b c r hr]
  | setOutputs outs =>
    simp only [step, applyCfg, hr, setOutputsM_build]
    cases he : (cfgOutputs b c outs).2 with
    | some e =>
      simp only [Prod.mk.injEq, and_true]
      exact build_some_of b c _ r _ rfl (cfgOutputs_frame b c outs).1 (cfgOutputs_frame b c outs).2.1
        (by rw [(cfgOutputs_frame b c outs).2.2, hr])
    | none =>
      simp only [Prod.mk.injEq, and_true]
      rw [build_some b _ _ rfl]
      simp only [Obj.mk.injEq, Option.some.injEq]
      exact ⟨rfl, (buildR_emptySens b c _ r _ (cfgOutputs_frame b c outs).1
        (cfgOutputs_frame b c outs).2.1).symm⟩
  | setOutputNames names =>
    simp only [step, applyCfg, hr, Prod.mk.injEq]
    exact ⟨build_some_of b c _ r _ rfl rfl rfl rfl, rfl⟩
  | setParamNames names =>
    simp only [step, applyCfg, hr]
    have hk : Keyed (buildM b c).tabs.paramNames (buildM b c).pmap := h
    cases he : (renameM names (buildM b c).tabs.paramNames (buildM b c).pmap).2 with
    | some e =>
      have hu := renameM_err_unchanged names _ _ hk e he
      have he' : (renameM names (cfgTables b c).paramNames c.pmap).2 = some e := he
      have hu' : (renameM names (cfgTables b c).paramNames c.pmap).1 = c.pmap := hu
      simp only [he', hu', Prod.mk.injEq, and_true]
      simp only [hu]
      exact build_some_of b c _ r _ rfl rfl rfl rfl
    | none =>
      have he' : (renameM names (cfgTables b c).paramNames c.pmap).2 = none := he
      simp only [he']
      have hg : Good b { c with pmap := (renameM names (cfgTables b c).paramNames c.pmap).1 } :=
        renameM_keyed names _ _ _ h
      have hs := cfgPublic_isSome b _ hg
      cases hp : cfgPublic b { c with pmap := (renameM names (cfgTables b c).paramNames c.pmap).1 } with
      | none => simp [hp] at hs
      | some ns =>
        have hp' : parametersM { buildM b c with pmap := (renameM names (buildM b c).tabs.paramNames (buildM b c).pmap).1 }
            = some ns := hp
        simp only [hp', Prod.mk.injEq, and_true]
        rw [build_some b _ r rfl]
        simp only [Obj.mk.injEq, Option.some.injEq]
        refine ⟨rfl, ?_⟩
        have hp2 : cfgPublic b { c with pmap := (renameM names (cfgTables b c).paramNames c.pmap).1, red := some r }
            = some ns := hp
        simp only [buildR, hp2, Option.getD_some]
        rfl
  | enableSens on names =>
    cases names with
    | some ns => simp only [step, applyCfg, hr, build_some b c r hr]
    | none =>
      simp only [step, applyCfg, hr]
      exact enableSensR_build b c r on
  | fix d =>
    simp only [step, applyCfg, hr]
    exact fixR_build b c r d
  | copy =>
    simp only [step, applyCfg, hr, copyM_build, Prod.mk.injEq, and_true]
    rw [build_some b _ _ rfl]
    rfl

/-- **refinement**: a call on the object with configuration `c` yields the object with configuration
`applyCfg c op` and raises exactly when the configuration machine does -/
theorem step_build (c : Config) (op : Op) (h : Good b c) :
    step b (build b c) op = (build b (applyCfg b c op).1, (applyCfg b c op).2) := by
  cases hr : c.red with
  | none => exact step_build_plain b c op h hr
  | some r => exact step_build_wrapped b c op h r hr

end ChiModel.MechConfig
