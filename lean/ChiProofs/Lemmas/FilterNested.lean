import ChiProofs.Lemmas.FilterPerm

/-! # Nested compositions of population filters and common shifts / scales (C12)

Lemmas behind `C12_nested_*`, `C12_shift_invariant*`, `C12_scale_lognormal` in `Props/C12.lean`. -/
set_option linter.unusedSectionVars false
set_option linter.unusedSimpArgs false
set_option linter.unusedVariables false
namespace ChiModel
open ScalarFns Finset PF

/-! ## nested compositions -/

theorem shiftT_zero (y : Nat → Nat → Nat → ℝ) : shiftT y 0 = y := by
  funext s r j; simp [shiftT]

theorem compValFrom_append (n : Nat) : ∀ (Fs Gs : List (Filt ℝ)) (off : Nat) (y : Nat → Nat → Nat → ℝ),
    compValFrom n (Fs ++ Gs) off y
      = compValFrom n Fs off y + compValFrom n Gs (off + (Fs.map (·.T)).sum) y
  | [], Gs, off, y => by simp [compValFrom]
  | F :: Fs, Gs, off, y => by
    simp only [List.cons_append, compValFrom, List.map_cons, List.sum_cons]
    rw [compValFrom_append n Fs Gs (off + F.T) y, Nat.add_assoc, add_assoc]

/-- only the columns `off ≤ j < off + Σ T` are read -/
theorem compValFrom_congr_range (n : Nat) : ∀ (Fs : List (Filt ℝ)) (off : Nat)
    (y y' : Nat → Nat → Nat → ℝ),
    (∀ s r j, off ≤ j → j < off + (Fs.map (·.T)).sum → y s r j = y' s r j) →
    compValFrom n Fs off y = compValFrom n Fs off y'
  | [], _, _, _, _ => rfl
  | F :: Fs, off, y, y', h => by
    simp only [compValFrom, Filt.val]
    rw [compValFrom_congr_range n Fs (off + F.T) y y' (fun s r j h1 h2 => h s r j (by omega) (by
        simp only [List.map_cons, List.sum_cons]; omega)),
      filterVal_congr F.kind F.m n F.R F.T F.obs (shiftT y off) (shiftT y' off) (fun s r j hj => by
        simp only [shiftT]; exact h s r (off + j) (by omega) (by
          simp only [List.map_cons, List.sum_cons]; omega))]

/-- moving the window: a list of filters that starts at column `off` of `y` is the list that starts at
    column `0` of the shifted array -/
theorem compValFrom_shift (n : Nat) : ∀ (Fs : List (Filt ℝ)) (off a : Nat) (y : Nat → Nat → Nat → ℝ),
    compValFrom n Fs (a + off) y = compValFrom n Fs off (shiftT y a)
  | [], _, _, _ => rfl
  | F :: Fs, off, a, y => by
    simp only [compValFrom]
    have h1 : shiftT y (a + off) = shiftT (shiftT y a) off := by
      funext s r j; simp only [shiftT, Nat.add_assoc]
    rw [h1, Nat.add_assoc, compValFrom_shift n Fs (off + F.T) a y]

mutual

theorem FTree.leaves_T : ∀ (t : FTree ℝ), (t.leaves.map (·.T)).sum = t.T
  | .leaf F => by simp [FTree.leaves, FTree.T]
  | .node cs _ => by simp only [FTree.leaves, FTree.T]; exact FTree.leavesL_T cs

theorem FTree.leavesL_T : ∀ (cs : List (FTree ℝ)), ((FTree.leavesL cs).map (·.T)).sum = FTree.sumT cs
  | [] => by simp [FTree.leavesL, FTree.sumT]
  | c :: cs => by
    simp only [FTree.leavesL, FTree.sumT, List.map_append, List.sum_append]
    rw [FTree.leaves_T c, FTree.leavesL_T cs]
end

mutual

/-- a nested composition evaluates the FLAT list of its simple filters on the input columns given by its
    index map `col` -/
theorem FTree.val_flat (n : Nat) : ∀ (t : FTree ℝ) (y : Nat → Nat → Nat → ℝ),
    t.val n y = compValFrom n t.leaves 0 (fun s r k => y s r (t.col k))
  | .leaf F, y => by
    simp only [FTree.val, FTree.leaves, compValFrom, FTree.col, shiftT_zero]
    simp
  | .node cs none, y => by
    simp only [FTree.val, FTree.leaves, FTree.col, presortOrd]
    exact FTree.valFrom_flat n cs 0 y
  | .node cs (some o), y => by
    simp only [FTree.val, FTree.leaves, FTree.col, presortOrd]
    exact FTree.valFrom_flat n cs 0 _

theorem FTree.valFrom_flat (n : Nat) : ∀ (cs : List (FTree ℝ)) (off : Nat) (y : Nat → Nat → Nat → ℝ),
    FTree.valFrom n cs off y
      = compValFrom n (FTree.leavesL cs) off (fun s r k => y s r (FTree.colL cs off k))
  | [], off, y => by simp [FTree.valFrom, FTree.leavesL, compValFrom]
  | c :: cs, off, y => by
    simp only [FTree.valFrom, FTree.leavesL]
    rw [compValFrom_append, FTree.leaves_T c, FTree.val_flat n c (shiftT y off),
      FTree.valFrom_flat n cs (off + c.T) y]
    congr 1
    · have := compValFrom_shift n c.leaves 0 off (fun s r k => y s r (FTree.colL (c :: cs) off k))
      rw [Nat.add_zero] at this
      rw [this]
      refine compValFrom_congr_range n c.leaves 0 _ _ (fun s r j _ hj => ?_)
      rw [FTree.leaves_T c, Nat.zero_add] at hj
      simp only [shiftT, FTree.colL]
      rw [if_pos (by omega)]
      simp
    · refine compValFrom_congr_range n _ _ _ _ (fun s r j h1 _ => ?_)
      simp only [FTree.colL]
      rw [if_neg (by omega)]
end

theorem argsort_getD_lt (T : Nat) (o : List Nat) (h : o.Perm (List.range T)) (k : Nat) (hk : k < T) :
    (argsortNat o).getD k 0 < T := by
  have hlen : o.length = T := by simpa using h.length_eq
  have hp := argsortNat_perm o
  rw [hlen] at hp
  exact getD_lt_of_perm T _ hp k hk

mutual

/-- a (well-formed) nested composition reads the first `T` columns of its input only -/
theorem FTree.val_congr (n : Nat) : ∀ (t : FTree ℝ) (y y' : Nat → Nat → Nat → ℝ), t.WF →
    (∀ s r j, j < t.T → y s r j = y' s r j) → t.val n y = t.val n y'
  | .leaf F, y, y', _, h => by
    simp only [FTree.val, Filt.val]
    exact filterVal_congr F.kind F.m n F.R F.T F.obs y y' h
  | .node cs none, y, y', hw, h => by
    simp only [FTree.val, presortOrd]
    exact FTree.valFrom_congr n cs 0 y y' hw (fun s r j _ hj => h s r j (by
      simpa [FTree.T] using hj))
  | .node cs (some o), y, y', hw, h => by
    simp only [FTree.val, presortOrd]
    refine FTree.valFrom_congr n cs 0 _ _ hw.1 (fun s r j _ hj => ?_)
    rw [Nat.zero_add] at hj
    exact h s r _ (by simpa [FTree.T] using argsort_getD_lt _ o hw.2 j hj)

theorem FTree.valFrom_congr (n : Nat) : ∀ (cs : List (FTree ℝ)) (off : Nat)
    (y y' : Nat → Nat → Nat → ℝ), FTree.WFL cs →
    (∀ s r j, off ≤ j → j < off + FTree.sumT cs → y s r j = y' s r j) →
    FTree.valFrom n cs off y = FTree.valFrom n cs off y'
  | [], _, _, _, _, _ => rfl
  | c :: cs, off, y, y', hw, h => by
    simp only [FTree.valFrom]
    rw [FTree.val_congr n c (shiftT y off) (shiftT y' off) hw.1 (fun s r j hj => by
        simp only [shiftT]; exact h s r (off + j) (by omega) (by simp only [FTree.sumT]; omega)),
      FTree.valFrom_congr n cs (off + c.T) y y' hw.2 (fun s r j h1 h2 => h s r j (by omega) (by
        simp only [FTree.sumT]; omega))]
end

mutual

theorem FTree.grad_congr (n : Nat) : ∀ (t : FTree ℝ) (y y' : Nat → Nat → Nat → ℝ), t.WF →
    (∀ s r j, j < t.T → y s r j = y' s r j) → ∀ s r j, j < t.T → t.grad n y s r j = t.grad n y' s r j
  | .leaf F, y, y', _, h, s, r, j, hj => by
    simp only [FTree.grad, Filt.grad, filterGrad]
    have : (fun s' => y s' r j) = fun s' => y' s' r j := by funext s'; exact h s' r j hj
    rw [this]
  | .node cs none, y, y', hw, h, s, r, j, hj => by
    simp only [FTree.grad]
    exact FTree.gradFrom_congr n cs 0 y y' hw (fun s r j _ hj => h s r j (by
      simpa [FTree.T] using hj)) s r j (Nat.zero_le _) (by simpa [FTree.T] using hj)
  | .node cs (some o), y, y', hw, h, s, r, j, hj => by
    simp only [FTree.grad, presortOrd]
    simp only [FTree.T] at hj
    refine FTree.gradFrom_congr n cs 0 _ _ hw.1 (fun s r j _ hj => ?_) s r _ (Nat.zero_le _) (by
      rw [Nat.zero_add]; exact getD_lt_of_perm _ o hw.2 j hj)
    rw [Nat.zero_add] at hj
    exact h s r _ (by simpa [FTree.T] using argsort_getD_lt _ o hw.2 j hj)

theorem FTree.gradFrom_congr (n : Nat) : ∀ (cs : List (FTree ℝ)) (off : Nat)
    (y y' : Nat → Nat → Nat → ℝ), FTree.WFL cs →
    (∀ s r j, off ≤ j → j < off + FTree.sumT cs → y s r j = y' s r j) →
    ∀ s r k, off ≤ k → k < off + FTree.sumT cs →
      FTree.gradFrom n cs off y s r k = FTree.gradFrom n cs off y' s r k
  | [], _, _, _, _, _, _, _, _, _, _ => rfl
  | c :: cs, off, y, y', hw, h, s, r, k, hk1, hk2 => by
    simp only [FTree.gradFrom]
    simp only [FTree.sumT] at hk2
    split
    · exact FTree.grad_congr n c (shiftT y off) (shiftT y' off) hw.1 (fun s r j hj => by
        simp only [shiftT]; exact h s r (off + j) (by omega) (by simp only [FTree.sumT]; omega))
        s r (k - off) (by omega)
    · exact FTree.gradFrom_congr n cs (off + c.T) y y' hw.2 (fun s r j h1 h2 => h s r j (by omega) (by
        simp only [FTree.sumT]; omega)) s r k (by omega) (by omega)
end

theorem argsort_swap : argsortNat [1, 0] = [1, 0] := by
  simp [argsortNat, List.mergeSort, List.range, List.range.loop, List.MergeSort.Internal.splitInTwo]

/-! ## common shift / common scale of measurements and simulated values -/

theorem meanI_shift (n : Nat) (hn : 0 < n) (y : Nat → ℝ) (c : ℝ) :
    meanI n (fun s => y s + c) = meanI n y + c := by
  have h : (n : ℝ) ≠ 0 := by exact_mod_cast hn.ne'
  simp only [meanI, isum_eq, ofNat_real, Finset.sum_add_distrib, Finset.sum_const, Finset.card_range,
    nsmul_eq_mul]
  field_simp

theorem varI_shift (n : Nat) (hn : 0 < n) (y : Nat → ℝ) (c : ℝ) :
    varI n (fun s => y s + c) = varI n y := by
  simp only [varI, meanI_shift n hn y c, add_sub_add_right_eq_sub]

theorem msum_map (m : Nat) (o : Nat → Option ℝ) (g f : ℝ → ℝ) :
    msum m (fun i => (o i).map g) f = msum m o (fun v => f (g v)) := by
  simp only [msum]
  congr 1
  funext i
  cases o i <;> rfl

theorem msum_add (m : Nat) (o : Nat → Option ℝ) (f g : ℝ → ℝ) :
    msum m o (fun v => f v + g v) = msum m o f + msum m o g := by
  simp only [msum, isum_eq, ← Finset.sum_add_distrib]
  refine Finset.sum_congr rfl fun i _ => ?_
  cases o i <;> simp

theorem msum_const (m : Nat) (o : Nat → Option ℝ) (d : ℝ) :
    msum m o (fun _ => d) = mcount m o * d := by
  simp only [mcount, msum, isum_eq, Finset.sum_mul, oneS]
  refine Finset.sum_congr rfl fun i _ => ?_
  cases o i <;> simp

theorem gfTerm_shift (mu var v c : ℝ) : gfTerm (mu + c) var (v + c) = gfTerm mu var v := by
  simp only [gfTerm, add_sub_add_right_eq_sub]

theorem kdeScore_shift (bw2 : ℝ) (y : Nat → ℝ) (v c : ℝ) :
    kdeScore bw2 (fun s => y s + c) (v + c) = kdeScore bw2 y v := by
  funext s; simp only [kdeScore, add_sub_add_right_eq_sub]

theorem kdeTerm_shift (n : Nat) (hn : 0 < n) (y : Nat → ℝ) (v c : ℝ) :
    kdeTerm n (fun s => y s + c) (v + c) = kdeTerm n y v := by
  simp only [kdeTerm, kdeBw2, varI_shift n hn, kdeScore_shift]

theorem mixScore_shift (p : Nat) (hp : 0 < p) (y : Nat → ℝ) (v c : ℝ) :
    mixScore p (fun s => y s + c) (v + c) = mixScore p y v := by
  funext k
  have hb : blk p k (fun s => y s + c) = fun s => blk p k y s + c := rfl
  simp only [mixScore, hb, meanI_shift p hp, varI_shift p hp, add_sub_add_right_eq_sub]

theorem mixTerm_shift (K p : Nat) (hp : 0 < p) (y : Nat → ℝ) (v c : ℝ) :
    mixTerm K p (fun s => y s + c) (v + c) = mixTerm K p y v := by
  simp only [mixTerm, mixScore_shift p hp]

end ChiModel
