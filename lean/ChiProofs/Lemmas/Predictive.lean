import ChiModel.Predictive
import ChiProofs.RealInst
import ChiProofs.Lemmas.SeedsPrior
import Mathlib.Probability.Distributions.Gaussian.Real
import Mathlib.Data.List.Perm.Basic
import Mathlib.Data.List.Count
import Mathlib.Data.List.Sort
set_option linter.unusedSectionVars false
set_option linter.unusedSimpArgs false
namespace ChiModel.Pred
open ChiModel ChiModel.Seeds ScalarFns MeasureTheory ProbabilityTheory
open scoped NNReal

/-! ## laws of the transformations of one standard-normal variate -/

theorem affine_law (a b : ℝ) :
    (gaussianReal 0 1).map (fun z => a + b * z) = gaussianReal a (NNReal.mk (b ^ 2) (sq_nonneg _)) := by
  have h1 : (gaussianReal 0 1).map (fun z => b * z)
      = gaussianReal (b * 0) ((NNReal.mk (b ^ 2) (sq_nonneg _)) * 1) := gaussianReal_map_const_mul b
  have : (fun z => a + b * z) = (fun x => a + x) ∘ (fun z => b * z) := rfl
  rw [this, ← Measure.map_map (by fun_prop) (by fun_prop), h1, gaussianReal_map_const_add]
  simp

theorem emTransform_gauss (sigma ybar z : ℝ) : emTransform .gauss [sigma] ybar [z] = ybar + sigma * z := by
  simp [emTransform]

theorem emTransform_mult (sigma ybar z : ℝ) : emTransform .mult [sigma] ybar [z] = ybar + (ybar * sigma) * z := by
  simp [emTransform]; ring

theorem emTransform_ln (sigma ybar z : ℝ) :
    emTransform .ln [sigma] ybar [z] = ybar * Real.exp (-(sigma * sigma) / 2 + sigma * z) := by
  simp [emTransform]

theorem emTransform_cm (sb sr ybar z0 z1 : ℝ) :
    emTransform .cm [sb, sr] ybar [z0, z1] = ybar + sb * z0 + ybar * (sr * z1) := by
  simp [emTransform]

/-! ## labels of the entries of `PredictiveModel.sample` -/

def labelsOf (o : Out) : List (Nat × Nat × Nat) := o.cells.map (fun c => (c.unit, c.out, c.time))

theorem labels_err (k : EM) (nT nS : Nat) (sd : SeedArg) (w : World) :
    labelsOf (errSample k nT nS sd w).1.1 = (List.range (nT * nS)).map (fun p => (p % nS, 0, p / nS)) := by
  cases sd <;> simp [labelsOf, errSample, withRng, defaultRng, errBody, drawS, gridCells, List.map_map,
    Function.comp_def]

theorem labels_skip (sd : SeedArg) (w : World) : labelsOf (skipS sd w).1.1 = [] := rfl

theorem labels_loop {ι : Type} (body : ι → Sampler) (L : ι → List (Nat × Nat × Nat))
    (h : ∀ x sd w, labelsOf (body x sd w).1.1 = L x) :
    ∀ xs sd w, labelsOf (loopS body xs sd w).1.1 = xs.flatMap L := by
  intro xs
  induction xs with
  | nil => intro sd w; rfl
  | cons x xs ih =>
    intro sd w
    have h1 := h x sd w
    have h2 := ih (body x sd w).1.2 (body x sd w).2
    simp only [labelsOf] at h1 h2 ⊢
    simp only [loopS, seqS, Out.append, List.map_append, List.flatMap_cons, h1, h2]

theorem labels_pred (v : Variant) (kinds : List EM) (nT nS : Nat) (sd : SeedArg) (w : World) :
    labelsOf (predSample v kinds nT nS sd w).1.1
      = kinds.zipIdx.flatMap (fun ko => (List.range (nT * nS)).map (fun p => (p % nS, ko.2, p / nS))) := by
  have hb : ∀ (ko : EM × Nat) sd w,
      labelsOf (mapCells (fun c => { c with out := ko.2 }) (errSample ko.1 nT nS) sd w).1.1
        = (List.range (nT * nS)).map (fun p => (p % nS, ko.2, p / nS)) := by
    intro ko sd w
    have := labels_err ko.1 nT nS sd w
    simp only [labelsOf, mapCells, List.map_map] at this ⊢
    have h2 := congrArg (List.map (fun l : Nat × Nat × Nat => (l.1, ko.2, l.2.2))) this
    simpa [List.map_map, Function.comp_def] using h2
  have hl := labels_loop (fun ko : EM × Nat => mapCells (fun c => { c with out := ko.2 }) (errSample ko.1 nT nS))
    _ hb kinds.zipIdx
  unfold predSample
  split
  · exact hl sd w
  · simp only [withRng]
    exact hl _ _

theorem mem_grid {nT nS s t : Nat} :
    (∃ p, p < nT * nS ∧ s = p % nS ∧ t = p / nS) ↔ s < nS ∧ t < nT := by
  constructor
  · rintro ⟨p, hp, rfl, rfl⟩
    have hS : 0 < nS := by
      rcases Nat.eq_zero_or_pos nS with h | h
      · subst h; simp at hp
      · exact h
    exact ⟨Nat.mod_lt _ hS, (Nat.div_lt_iff_lt_mul hS).mpr hp⟩
  · rintro ⟨hs, ht⟩
    refine ⟨t * nS + s, ?_, ?_, ?_⟩
    · calc t * nS + s < t * nS + nS := by omega
        _ = (t + 1) * nS := by ring
        _ ≤ nT * nS := Nat.mul_le_mul_right _ ht
    · rw [Nat.mul_comm, Nat.mul_add_mod, Nat.mod_eq_of_lt hs]
    · have hS : 0 < nS := by omega
      rw [Nat.add_comm, Nat.add_mul_div_right _ _ hS, Nat.div_eq_of_lt hs, Nat.zero_add]

theorem mem_zipIdx_snd (kinds : List EM) (o : Nat) :
    (∃ ko ∈ kinds.zipIdx, ko.2 = o) ↔ o < kinds.length := by
  constructor
  · rintro ⟨⟨k, j⟩, hmem, rfl⟩
    have := List.mem_zipIdx hmem
    simpa using this.2.1
  · intro h
    have hm : (kinds[o], o) ∈ kinds.zipIdx :=
      (List.mk_mem_zipIdx_iff_getElem? (l := kinds) (x := kinds[o]) (i := o)).mpr (by simp [h])
    exact ⟨(kinds[o], o), hm, rfl⟩


theorem labels_pred_range (v : Variant) (kinds : List EM) (nT nS : Nat) (sd : SeedArg) (w : World) :
    labelsOf (predSample v kinds nT nS sd w).1.1
      = (List.range kinds.length).flatMap (fun o => (List.range (nT * nS)).map (fun p => (p % nS, o, p / nS))) := by
  rw [labels_pred]
  have : kinds.zipIdx.flatMap (fun ko => (List.range (nT * nS)).map (fun p => (p % nS, ko.2, p / nS)))
      = (kinds.zipIdx.map Prod.snd).flatMap (fun o => (List.range (nT * nS)).map (fun p => (p % nS, o, p / nS))) := by
    rw [List.flatMap_map]
  rw [this, List.zipIdx_map_snd, ← List.range_eq_range']

/-! ## generic facts about nested loops over ranges -/

theorem nodup_flatMap_range {β : Type} (n : Nat) (f : Nat → List β) (h1 : ∀ i, i < n → (f i).Nodup)
    (h2 : ∀ i j, i < n → j < n → i ≠ j → ∀ x ∈ f i, x ∉ f j) : ((List.range n).flatMap f).Nodup := by
  rw [List.nodup_flatMap]
  refine ⟨fun i hi => h1 i (List.mem_range.mp hi), ?_⟩
  exact List.Nodup.pairwise_of_forall_ne List.nodup_range
    (fun i hi j hj hne => by
      intro x hx hx'
      exact h2 i j (List.mem_range.mp hi) (List.mem_range.mp hj) hne x hx hx')

theorem divmod_inj {m p q : Nat} (h1 : p % m = q % m) (h2 : p / m = q / m) : p = q := by
  rw [← Nat.div_add_mod p m, ← Nat.div_add_mod q m, h1, h2]

/-! ## insertion sort of the times -/

section sort
variable {τ : Type} [LinearOrder τ]

theorem insertTime_perm (x : τ) (l : List τ) :
    (insertTime (fun a b => decide (a < b)) x l).Perm (x :: l) := by
  induction l with
  | nil => simp [insertTime]
  | cons y ys ih =>
    unfold insertTime
    split
    · exact (List.Perm.cons y ih).trans (List.Perm.swap x y ys)
    · exact List.Perm.refl _

theorem insertTime_sorted (x : τ) (l : List τ) (h : l.Pairwise (· ≤ ·)) :
    (insertTime (fun a b => decide (a < b)) x l).Pairwise (· ≤ ·) := by
  induction l with
  | nil => simp [insertTime]
  | cons y ys ih =>
    unfold insertTime
    rw [List.pairwise_cons] at h
    split
    · rename_i hlt
      have hyx : y < x := by simpa using hlt
      refine List.pairwise_cons.mpr ⟨?_, ih h.2⟩
      intro a ha
      rcases List.mem_cons.mp ((insertTime_perm x ys).subset ha) with rfl | ha
      · exact le_of_lt hyx
      · exact h.1 a ha
    · rename_i hnlt
      have hxy : x ≤ y := by
        have : ¬ y < x := by simpa using hnlt
        exact not_lt.mp this
      refine List.pairwise_cons.mpr ⟨?_, List.pairwise_cons.mpr h⟩
      intro a ha
      rcases List.mem_cons.mp ha with rfl | ha
      · exact hxy
      · exact le_trans hxy (h.1 a ha)

theorem sortTimes_perm (ts : List τ) : (sortTimes (fun a b => decide (a < b)) ts).Perm ts := by
  induction ts with
  | nil => exact List.Perm.refl _
  | cons x xs ih =>
    simp only [sortTimes, List.foldr_cons]
    exact (insertTime_perm x _).trans (List.Perm.cons x ih)

theorem sortTimes_sorted (ts : List τ) : (sortTimes (fun a b => decide (a < b)) ts).Pairwise (· ≤ ·) := by
  induction ts with
  | nil => exact List.Pairwise.nil
  | cons x xs ih =>
    simp only [sortTimes, List.foldr_cons]
    exact insertTime_sorted x _ ih

end sort

/-! ## PAM: counting sort is a permutation -/

theorem count_pamIdModels (k : Nat) (draws : List Nat) (a : Nat) :
    (pamIdModels k draws).count a = if a < k then draws.count a else 0 := by
  induction k with
  | zero => simp [pamIdModels]
  | succ k ih =>
    have hsplit : pamIdModels (k + 1) draws = pamIdModels k draws ++ List.replicate (draws.count k) k := by
      simp [pamIdModels, List.range_succ]
    rw [hsplit, List.count_append, ih, List.count_replicate]
    by_cases h1 : a < k
    · have : ¬ (k = a) := by omega
      simp [h1, this, show a < k + 1 by omega]
    · by_cases h2 : a = k
      · subst h2; simp
      · have : ¬ (k = a) := fun h => h2 h.symm
        simp [h1, this, show ¬ a < k + 1 by omega]

theorem pamIdModels_perm (k : Nat) (draws : List Nat) (h : ∀ d ∈ draws, d < k) :
    (pamIdModels k draws).Perm draws := by
  rw [List.perm_iff_count]
  intro a
  rw [count_pamIdModels]
  split
  · rfl
  · rename_i ha
    symm
    exact List.count_eq_zero_of_not_mem (fun hm => ha (h a hm))


/-! ## the posterior parameter matrix -/

theorem length_flatMap_const {β γ : Type} (l : List β) (f : β → List γ) (m : Nat)
    (h : ∀ x ∈ l, (f x).length = m) : (l.flatMap f).length = l.length * m := by
  induction l with
  | nil => simp
  | cons x xs ih =>
    rw [List.flatMap_cons, List.length_append, h x List.mem_cons_self,
      ih (fun y hy => h y (List.mem_cons_of_mem _ hy)), List.length_cons]
    ring

theorem getD_map_of_lt {β γ : Type} (f : β → γ) (l : List β) (i : Nat) (d : γ) (h : i < l.length) :
    (l.map f).getD i d = f l[i] := by
  simp [List.getD_eq_getElem?_getD, List.getElem?_map, h]

variable {α : Type}

/-- the joint layout: the `(chain, draw)` positions in the order in which a variable's values are
    flattened, when its draws are those kept by the whole dataset -/
def jointLayout (drawMajor : Bool) (nC : Nat) (kept : List Nat) : List (Nat × Nat) :=
  if drawMajor then kept.flatMap (fun d => (List.range nC).map (fun c => (c, d)))
  else (List.range nC).flatMap (fun c => kept.map (fun d => (c, d)))

theorem length_jointLayout (b : Bool) (nC : Nat) (kept : List Nat) :
    (jointLayout b nC kept).length = nC * kept.length := by
  unfold jointLayout
  split
  · rw [length_flatMap_const _ _ nC (fun _ _ => by simp)]; ring
  · rw [length_flatMap_const _ _ kept.length (fun _ _ => by simp)]; simp

theorem mem_jointLayout {b : Bool} {nC : Nat} {kept : List Nat} {cd : Nat × Nat}
    (h : cd ∈ jointLayout b nC kept) : cd.1 < nC ∧ cd.2 ∈ kept := by
  unfold jointLayout at h
  split at h
  · simp only [List.mem_flatMap, List.mem_map, List.mem_range] at h
    obtain ⟨d, hd, c, hc, rfl⟩ := h
    exact ⟨hc, hd⟩
  · simp only [List.mem_flatMap, List.mem_map, List.mem_range] at h
    obtain ⟨c, hc, d, hd, rfl⟩ := h
    exact ⟨hc, hd⟩

theorem layout_eq (v : PostVar α) (i : Nat) : v.layout i = jointLayout v.drawMajor v.nChains (v.kept i) := by
  unfold PostVar.layout jointLayout
  rfl

theorem keptAll_sublist (vars : List (PostVar α)) (i : Nat) (nD : Nat) (hD : ∀ v ∈ vars, v.nDraws = nD)
    (v : PostVar α) (hv : v ∈ vars) : (keptAll vars i).Sublist (v.kept i) := by
  cases vars with
  | nil => simp at hv
  | cons v0 rest =>
    simp only [keptAll, PostVar.kept]
    rw [hD v0 List.mem_cons_self, hD v hv]
    apply List.monotone_filter_right
    intro d hd
    rw [List.all_eq_true] at hd
    exact hd v hv

/-- selection succeeded, all variables share chain / draw counts and the dimension order: every
    column is the same list of `(chain, draw)` positions read off its own variable -/
theorem columns_joint (vars : List (PostVar α)) (i : Nat) (nC nD : Nat) (b : Bool)
    (hC : ∀ v ∈ vars, v.nChains = nC) (hD : ∀ v ∈ vars, v.nDraws = nD) (hB : ∀ v ∈ vars, v.drawMajor = b)
    (hpos : 0 < nC) (cols : List (List (Option α))) (hok : posteriorColumnsLegacy vars i = some cols) :
    cols = vars.map (fun v => (jointLayout b nC (keptAll vars i)).map (fun cd => v.sel i cd.1 cd.2)) := by
  simp only [posteriorColumnsLegacy] at hok
  split at hok
  · rename_i hall
    cases hok
    apply List.map_congr_left
    intro v hv
    rw [List.all_eq_true] at hall
    have hlen := hall v hv
    simp only [beq_iff_eq, PostVar.column, List.length_map, layout_eq, length_jointLayout] at hlen
    have hhead : (vars.headD ⟨false, false, []⟩).nChains = nC := by
      cases vars with
      | nil => simp at hv
      | cons v0 rest => exact hC v0 List.mem_cons_self
    rw [hhead, hC v hv] at hlen
    have hk : (v.kept i).length = (keptAll vars i).length := Nat.eq_of_mul_eq_mul_left hpos hlen
    have heq : keptAll vars i = v.kept i :=
      (keptAll_sublist vars i nD hD v hv).eq_of_length hk.symm
    simp only [PostVar.column, layout_eq, hB v hv, hC v hv, heq]
  · cases hok

theorem keptAll_isSome (vars : List (PostVar α)) (i : Nat) (d : Nat) (hd : d ∈ keptAll vars i)
    (v : PostVar α) (hv : v ∈ vars) (c : Nat) (hc : c < v.nChains) : (v.sel i c d).isSome = true := by
  cases vars with
  | nil => simp at hv
  | cons v0 rest =>
    simp only [keptAll, List.mem_filter] at hd
    have h1 := hd.2
    rw [List.all_eq_true] at h1
    have h2 := h1 v hv
    rw [List.all_eq_true] at h2
    exact h2 c (List.mem_range.mpr hc)

/-- Whenever the pre-fix selection code succeeds on a dataset whose
    variables share chain and draw counts and their dimension order (for any number of variables,
    chains, draws, individuals, any pattern of NaN-padded draws): every row of the parameter matrix —
    hence every drawn parameter vector — is ONE `(chain, draw)` position of the posterior restricted to
    the requested individual: the same position for every parameter, a draw that the dataset kept,
    and no entry is NaN. -/
theorem posterior_joint_same_order {α : Type} (vars : List (PostVar α)) (i nC nD : Nat) (b : Bool)
    (hC : ∀ v ∈ vars, v.nChains = nC) (hD : ∀ v ∈ vars, v.nDraws = nD) (hB : ∀ v ∈ vars, v.drawMajor = b)
    (cols : List (List (Option α))) (hok : posteriorColumnsLegacy vars i = some cols)
    (idx : Nat) (hidx : idx < nC * (keptAll vars i).length) :
    ∃ c d, c < nC ∧ d ∈ keptAll vars i ∧
      posteriorRow cols idx = vars.map (fun v => v.sel i c d) ∧
      ∀ v ∈ vars, (v.sel i c d).isSome = true := by
  have hpos : 0 < nC := by
    rcases Nat.eq_zero_or_pos nC with h | h
    · subst h; simp at hidx
    · exact h
  have hcols := columns_joint vars i nC nD b hC hD hB hpos cols hok
  have hlt : idx < (jointLayout b nC (keptAll vars i)).length := by rw [length_jointLayout]; exact hidx
  have hmem := mem_jointLayout (List.getElem_mem hlt)
  refine ⟨(jointLayout b nC (keptAll vars i))[idx].1, (jointLayout b nC (keptAll vars i))[idx].2,
    hmem.1, hmem.2, ?_, ?_⟩
  · rw [hcols]
    simp only [posteriorRow, List.map_map]
    apply List.map_congr_left
    intro v _
    simp only [Function.comp]
    exact getD_map_of_lt _ _ _ _ hlt
  · intro v hv
    exact keptAll_isSome vars i _ hmem.2 v hv _ (by rw [hC v hv]; exact hmem.1)


/-! ## tables -/

theorem mem_predictiveTable (nOut nT nS : Nat) (r : Row) :
    r ∈ predictiveTable nOut nT nS ↔ 1 ≤ r.id ∧ r.id ≤ nS ∧ r.time < nT ∧ r.obs < nOut := by
  obtain ⟨id, time, obs⟩ := r
  simp only [predictiveTable, List.mem_flatMap, List.mem_map, List.mem_range, Row.mk.injEq]
  constructor
  · rintro ⟨o, ho, t, ht, s, hs, rfl, rfl, rfl⟩
    exact ⟨by omega, by omega, ht, ho⟩
  · rintro ⟨h1, h2, h3, h4⟩
    exact ⟨obs, h4, time, h3, id - 1, by omega, by omega, rfl, rfl⟩

theorem nodup_predictiveTable (nOut nT nS : Nat) : (predictiveTable nOut nT nS).Nodup := by
  refine nodup_flatMap_range _ _ ?_ ?_
  · intro o _
    refine nodup_flatMap_range _ _ ?_ ?_
    · intro t _
      refine List.Nodup.map_on ?_ List.nodup_range
      intro s _ s' _ h
      simpa using h
    · intro t t' _ _ hne x hx hx'
      simp only [List.mem_map] at hx hx'
      obtain ⟨s, _, rfl⟩ := hx
      obtain ⟨s', _, h⟩ := hx'
      simp only [Row.mk.injEq] at h
      exact hne h.2.1.symm
  · intro o o' _ _ hne x hx hx'
    simp only [List.mem_flatMap, List.mem_map] at hx hx'
    obtain ⟨t, _, s, _, rfl⟩ := hx
    obtain ⟨t', _, s', _, h⟩ := hx'
    simp only [Row.mk.injEq] at h
    exact hne h.2.2.symm

theorem mem_averagedTable (nOut nT n : Nat) (r : Row) :
    r ∈ averagedTable nOut nT n ↔ 1 ≤ r.id ∧ r.id ≤ n ∧ r.time < nT ∧ r.obs < nOut := by
  obtain ⟨id, time, obs⟩ := r
  simp only [averagedTable, List.mem_flatMap, List.mem_map, List.mem_range, Row.mk.injEq]
  constructor
  · rintro ⟨k, hk, o, ho, t, ht, rfl, rfl, rfl⟩
    exact ⟨by omega, by omega, ht, ho⟩
  · rintro ⟨h1, h2, h3, h4⟩
    exact ⟨id - 1, by omega, obs, h4, time, h3, by omega, rfl, rfl⟩

theorem nodup_averagedTable (nOut nT n : Nat) : (averagedTable nOut nT n).Nodup := by
  refine nodup_flatMap_range _ _ ?_ ?_
  · intro k _
    refine nodup_flatMap_range _ _ ?_ ?_
    · intro o _
      refine List.Nodup.map_on ?_ List.nodup_range
      intro t _ t' _ h
      simpa using h
    · intro o o' _ _ hne x hx hx'
      simp only [List.mem_map] at hx hx'
      obtain ⟨t, _, rfl⟩ := hx
      obtain ⟨t', _, h⟩ := hx'
      simp only [Row.mk.injEq] at h
      exact hne h.2.2.symm
  · intro k k' _ _ hne x hx hx'
    simp only [List.mem_flatMap, List.mem_map] at hx hx'
    obtain ⟨o, _, t, _, rfl⟩ := hx
    obtain ⟨o', _, t', _, h⟩ := hx'
    simp only [Row.mk.injEq] at h
    exact hne (by omega)

theorem replicate_mul {β : Type} (a b : Nat) (x : β) :
    List.replicate (a * b) x = (List.range a).flatMap (fun _ => (List.range b).map (fun _ => x)) := by
  induction a with
  | zero => simp
  | succ k ih =>
    rw [List.range_succ, List.flatMap_append, ← ih, Nat.succ_mul, List.replicate_add]
    simp

theorem zipWith_flatMap_map {β γ δ : Type} (l : List Nat) (m : Nat → List Nat) (f : Nat → Nat → β)
    (g : Nat → Nat → γ) (h : β → γ → δ) :
    List.zipWith h (l.flatMap (fun a => (m a).map (f a))) (l.flatMap (fun a => (m a).map (g a)))
      = l.flatMap (fun a => (m a).map (fun b => h (f a b) (g a b))) := by
  induction l with
  | nil => rfl
  | cons a l ih =>
    simp only [List.flatMap_cons]
    rw [List.zipWith_append (by simp), ih, List.zipWith_map]
    congr 1
    induction (m a) with
    | nil => rfl
    | cons b bs ihb => simp [ihb]

/-- The four separately flattened columns of `PopulationPredictiveModel.sample` line up: row `r` of
    the table is labelled with the (sample, time, output) whose array entry its value column holds. -/
theorem popTable_rows (nOut nT n : Nat) :
    popTable nOut nT n = (popValueColumn nOut nT n).map (fun ots => (⟨ots.2.2 + 1, ots.2.1, ots.1⟩, ots)) := by
  have hname : popNameColumn nOut nT n
      = (List.range nOut).flatMap (fun o => (List.range nT).flatMap (fun _ => (List.range n).map (fun _ => o))) := by
    unfold popNameColumn
    congr 1
    funext o
    exact replicate_mul nT n o
  -- all columns as one flat loop over (o, (t, s))
  have flat : ∀ {β : Type} (f : Nat → Nat → Nat → β),
      (List.range nOut).flatMap (fun o => (List.range nT).flatMap (fun t => (List.range n).map (fun s => f o t s)))
        = (List.range nOut).flatMap (fun o =>
            ((List.range nT).flatMap (fun t => (List.range n).map (fun s => t * (n + 1) + s))).map
              (fun q => f o (q / (n + 1)) (q % (n + 1)))) := by
    intro β f
    congr 1
    funext o
    rw [List.map_flatMap]
    congr 1
    funext t
    rw [List.map_map]
    apply List.map_congr_left
    intro s hs
    have hs' : s < n + 1 := by have := List.mem_range.mp hs; omega
    simp only [Function.comp]
    rw [Nat.mul_comm t, Nat.mul_add_div (by omega), Nat.div_eq_of_lt hs', Nat.add_zero,
      Nat.mul_add_mod, Nat.mod_eq_of_lt hs']
  unfold popTable popIdColumn popTimeColumn popValueColumn
  rw [hname, flat (fun _ _ s => s + 1), flat (fun _ t _ => t), flat (fun o _ _ => o), flat (fun o t s => (o, t, s))]
  rw [List.zip, zipWith_flatMap_map, zipWith_flatMap_map, zipWith_flatMap_map, List.map_flatMap]
  congr 1
  funext o
  rw [List.map_map]
  apply List.map_congr_left
  intro q _
  rfl


end ChiModel.Pred
