import ChiProofs.Lemmas.SeedsIndep
set_option linter.unusedSectionVars false
set_option linter.unusedSimpArgs false
namespace ChiModel.Seeds

/-! ### the entropy meter: runs without a seed draw from fresh entropy streams -/

def rootU : StreamId → Option Nat
  | .entropy u => some u
  | .legacyEntropy u => some u
  | .legacyDerived p _ => rootU p
  | _ => none

def noneM : Meter where
  ok sd := sd = .none
  pos _ w := w.freshU
  tok r := rootU r.stream

theorem rootU_of_tokG {S : StreamId} {r : Read} {t : Nat} (h : tokG S r = some t) :
    rootU r.stream = rootU S := by
  unfold tokG at h
  split at h
  · rename_i hs; rw [hs]
  · split at h
    · rename_i p k heq
      split at h
      · rename_i hp; rw [heq, ← hp]; rfl
      · exact absurd h (by simp)
    · exact absurd h (by simp)

theorem detS_freshU {P : Sampler} (h : DetS P) (sd : SeedArg) (hsd : sd ≠ .none) (w : World) :
    (P sd w).2.freshU = w.freshU := by
  obtain ⟨o, sd', e, _, h1⟩ := h sd hsd
  rw [h1]; simp

theorem good_withRng_none {body : Sampler} (h : ∀ S, Good (genM S) body) (hd : DetS body) :
    Good noneM (withRng body) := by
  have hf : ∀ w : World, (body (.gen ⟨.entropy w.freshU, 0⟩) { w with freshU := w.freshU + 1 }).2.freshU
      = w.freshU + 1 := fun w => detS_freshU hd _ (by simp) _
  refine ⟨?_, ?_, ?_, ?_⟩
  · rintro sd w rfl
    simp [noneM, withRng, finalSeed]
  · rintro sd w rfl
    simp only [noneM, withRng, defaultRng, hf]; omega
  · rintro sd w rfl c hc r hr
    simp only [withRng, defaultRng] at hc
    obtain ⟨t, ht, _, _⟩ := (h (.entropy w.freshU)).within (.gen ⟨.entropy w.freshU, 0⟩) _ ⟨_, rfl, rfl⟩ c hc r hr
    refine ⟨w.freshU, ?_, Nat.le_refl _, ?_⟩
    · simp only [noneM]; rw [rootU_of_tokG ht]; rfl
    · simp only [noneM, withRng, defaultRng, hf]; omega
  · rintro sd w rfl
    simp only [withRng, defaultRng]
    exact (h (.entropy w.freshU)).indep (.gen ⟨.entropy w.freshU, 0⟩) _ ⟨_, rfl, rfl⟩

theorem good_trunc_none (nDim n : Nat) : Good noneM (truncSample nDim n) := by
  refine ⟨?_, ?_, ?_, ?_⟩
  · rintro sd w rfl; rfl
  · rintro sd w rfl; simp [noneM, truncSample]
  · rintro sd w rfl c hc r hr
    simp only [truncSample, popCells, List.mem_map, List.mem_range] at hc
    obtain ⟨p, _, rfl⟩ := hc
    simp only [cellReads, List.append_nil, List.mem_singleton] at hr
    subst hr
    exact ⟨w.freshU, rfl, Nat.le_refl _, by simp [noneM, truncSample]⟩
  · rintro sd w rfl
    simp only [truncSample]
    exact (mkOK_normal n nDim).indep (.legacyEntropy w.freshU) 0

theorem good_elem_none (e : Elem) (nDim n : Nat) : Good noneM (elemSample e nDim n) := by
  cases e
  · exact good_withRng_none (fun S => good_drawS S _ _ (mkOK_normal n nDim)) (detS_drawS _ _)
  · exact good_withRng_none (fun S => good_drawS S _ _ (mkOK_normal n nDim)) (detS_drawS _ _)
  · exact good_pooled _ nDim n
  · exact good_withRng_none (fun S => good_drawS S _ _ (mkOK_choice n nDim)) (detS_drawS _ _)
  · exact good_trunc_none nDim n

theorem good_covLoop (S : StreamId) (m : SubModel) (n : Nat) :
    Good (genM S) (loopS (fun i => mapCells (fun c => { c with unit := i }) (elemSample m.elem m.nDim 1))
      (List.range n)) :=
  good_loop (fun i => good_mapCells (fun c => { c with unit := i })
      (good_elem S m.elem m.nDim 1) (fun _ => rfl) (fun _ => rfl) (fun _ _ h => absurd rfl h)) _

theorem good_sub_none (m : SubModel) (n : Nat) : Good noneM (subSample m n) := by
  unfold subSample
  split
  · exact good_withRng_none (fun S => good_covLoop S m n)
      (detS_loop (fun i => detS_mapCells _ (detS_elem _ _ _)) _)
  · exact good_elem_none _ _ _

theorem good_composedLoop (S : StreamId) (ms : List (SubModel × Nat)) (n : Nat) :
    Good (genM S) (loopS (fun mo : SubModel × Nat =>
      mapCells (fun c => { c with out := c.out + mo.2 }) (subSample mo.1 n)) ms) :=
  good_loop (fun mo : SubModel × Nat =>
      good_mapCells (fun c => { c with out := c.out + mo.2 }) (good_sub S mo.1 n) (fun _ => rfl) (fun _ => rfl)
      (fun _ _ h => h)) _

theorem good_pop_none (p : Pop) (n : Nat) : Good noneM (popSample p n) := by
  cases p with
  | single m => exact good_sub_none m n
  | composed ms =>
    exact good_withRng_none (fun S => good_composedLoop S _ n)
      (detS_loop (fun mo => detS_mapCells _ (detS_sub _ _)) _)

theorem good_err_none (k : EM) (nT nS : Nat) : Good noneM (errSample k nT nS) :=
  good_withRng_none (fun S => good_errBody S k nT nS) (detS_drawS _ _)

theorem good_pred_none (v : Variant) (kinds : List EM) (nT nS : Nat) :
    Good noneM (predSample v kinds nT nS) := by
  unfold predSample
  split
  · exact good_loop (fun ko : EM × Nat => good_mapCells (fun c => { c with out := ko.2 })
      (good_err_none ko.1 nT nS) (fun _ => rfl) (fun _ => rfl) (fun _ _ h => h)) _
  · exact good_withRng_none (fun S => good_predLoop S _ nT nS)
      (detS_loop (fun ko => detS_mapCells _ (detS_err _ _ _)) _)

theorem good_popPredCore_none (v : Variant) (p : Pop) (kinds : List EM) (nT n : Nat) :
    Good noneM (popPredCore v p kinds nT n) :=
  good_popPredCore v p kinds nT n (good_pop_none p n) (good_pred_none v kinds nT 1)

/-! ### independence of the entries, entry point by entry point, for every kind of seed -/

theorem indep_withRng {body : Sampler} (h : ∀ S, Good (genM S) body) (sd : SeedArg) (w : World) :
    Indep (withRng body sd w).1.1.cells := by
  simp only [withRng]
  exact (h _).indep _ _ ⟨_, rfl, rfl⟩

theorem indep_err (k : EM) (nT nS : Nat) (sd : SeedArg) (w : World) :
    Indep (errSample k nT nS sd w).1.1.cells :=
  indep_withRng (fun S => good_errBody S k nT nS) sd w

theorem indep_elem (e : Elem) (nDim n : Nat) (sd : SeedArg) (w : World) :
    Indep (elemSample e nDim n sd w).1.1.cells := by
  cases sd with
  | none => exact (good_elem_none e nDim n).indep .none w rfl
  | gen g => exact (good_elem g.stream e nDim n).indep (.gen g) w ⟨g, rfl, rfl⟩
  | int s =>
    cases e
    · exact indep_withRng (fun S => good_drawS S _ _ (mkOK_normal n nDim)) _ w
    · exact indep_withRng (fun S => good_drawS S _ _ (mkOK_normal n nDim)) _ w
    · exact (good_pooled noneM nDim n).indep .none w rfl
    · exact indep_withRng (fun S => good_drawS S _ _ (mkOK_choice n nDim)) _ w
    · exact (mkOK_normal n nDim).indep (.legacySeeded s) 0

theorem indep_pop (p : Pop) (n : Nat) (sd : SeedArg) (w : World) :
    Indep (popSample p n sd w).1.1.cells := by
  cases p with
  | single m =>
    simp only [popSample, subSample]
    split
    · exact indep_withRng (fun S => good_covLoop S m n) sd w
    · exact indep_elem _ _ _ sd w
  | composed ms => exact indep_withRng (fun S => good_composedLoop S _ n) sd w

/-- `PredictiveModel.sample`: independent entries for every seed in the intended variant, and for a
    `Generator` or no seed in the code as it is -/
theorem indep_pred (v : Variant) (kinds : List EM) (nT nS : Nat) (sd : SeedArg) (w : World)
    (h : v.sharedSeed = true → ∀ s, sd ≠ .int s) : Indep (predSample v kinds nT nS sd w).1.1.cells := by
  cases sd with
  | none => exact (good_pred_none v kinds nT nS).indep .none w rfl
  | gen g => exact (good_pred g.stream v kinds nT nS).indep (.gen g) w ⟨g, rfl, rfl⟩
  | int s =>
    have hv : v.sharedSeed = false := by
      cases hh : v.sharedSeed
      · rfl
      · exact absurd rfl (h hh s)
    simp only [predSample, hv]
    exact indep_withRng (fun S => good_predLoop S _ nT nS) _ w

theorem indep_popPred (v : Variant) (p : Pop) (kinds : List EM) (nT n : Nat) (sd : SeedArg) (w : World) :
    Indep (popPredSample v p kinds nT n sd w).1.1.cells := by
  have hg : ∀ S, Good (genM S) (popPredCore v p kinds nT n) := fun S =>
    good_popPredCore v p kinds nT n (good_pop S p n) (good_pred S v kinds nT 1)
  cases sd with
  | none => exact (good_popPredCore_none v p kinds nT n).indep .none w rfl
  | gen g => exact (hg g.stream).indep (.gen g) w ⟨g, rfl, rfl⟩
  | int s => exact (hg (.seeded s)).indep (.gen ⟨.seeded s, 0⟩) w ⟨_, rfl, rfl⟩

theorem indep_postPred (v : Variant) (spec : PredSpec) (nT n : Nat) (sd : SeedArg) (w : World) :
    Indep (postPredSample v spec nT n sd w).1.1.cells :=
  indep_withRng (fun S => good_loop (fun k => good_postIter S v spec nT n k) _) sd w


theorem indep_pam (v : Variant) (models : List (PredSpec × Nat)) (nT : Nat) (sd : SeedArg) (w : World) :
    Indep (pamSample v models nT sd w).1.1.cells := by
  simp only [pamSample]
  split
  · exact (good_pamLoop _ v nT models 0).indep _ _ ⟨_, rfl, rfl⟩
  · exact (good_pamLoop _ v nT models 0).indep _ _ ⟨_, rfl, rfl⟩

/-- intended variant: the reads that decide the allocation are used by no entry -/
theorem pam_alloc_disjoint (v : Variant) (hv : v.globalChoice = false) (models : List (PredSpec × Nat))
    (nT : Nat) (sd : SeedArg) (w : World) :
    ∀ r ∈ (pamSample v models nT sd w).1.1.alloc, ∀ c ∈ (pamSample v models nT sd w).1.1.cells,
      r ∉ cellReads c := by
  intro r hr c hc hrc
  simp only [pamSample, hv] at hr hc
  simp only [Bool.false_eq_true, if_false, List.mem_map] at hr hc
  obtain ⟨k, _, rfl⟩ := hr
  obtain ⟨t, ht, h3, _⟩ := (good_pamLoop (defaultRng sd w).1.stream v nT models 0).within
    (.gen ⟨(defaultRng sd w).1.stream, (defaultRng sd w).1.ctr + 1⟩) (defaultRng sd w).2 ⟨_, rfl, rfl⟩ c hc _ hrc
  simp only [genM] at ht h3
  rw [tokG_self] at ht
  cases ht
  omega

theorem indep_initLogPosterior (n : Nat) (sd : SeedArg) (w : World) :
    Indep (initLogPosterior n sd w).1.1.cells := by
  have key : ∀ (S : StreamId) (c : Nat), Indep ((List.range n).map (fun k => (⟨k, 0, 0, [⟨S, c, k⟩], []⟩ : Cell))) := by
    intro S c
    refine indep_range_map _ _ ?_ ?_ ?_
    · intro p q _ _ _; exact disj_nil_left _
    · intro p q _ _; exact disj_nil_right _
    · intro p q _ _ hne r hr hr'
      simp only [List.mem_singleton] at hr hr'
      subst hr
      simp only [Read.mk.injEq, true_and] at hr'
      exact hne hr'
  cases sd with
  | gen g => simp only [initLogPosterior, seedGlobal]; exact indep_nil
  | int s => simp only [initLogPosterior, seedGlobal, globCall]; exact key _ _
  | none => simp only [initLogPosterior, seedGlobal, globCall]; exact key _ _

theorem flat_inj {m j j' k k' : Nat} (hj : j < m) (hj' : j' < m) (h : k * m + j = k' * m + j') : k = k' := by
  have hm : 0 < m := by omega
  have h1 : (k * m + j) / m = k := by
    rw [Nat.add_comm, Nat.add_mul_div_right _ _ hm, Nat.div_eq_of_lt hj, Nat.zero_add]
  have h2 : (k' * m + j') / m = k' := by
    rw [Nat.add_comm, Nat.add_mul_div_right _ _ hm, Nat.div_eq_of_lt hj', Nat.zero_add]
  rw [← h1, ← h2, h]

theorem good_epsDraw (S : StreamId) (nIds nEps n : Nat) : Good (genM S) (epsDraw nIds nEps n) := by
  unfold epsDraw
  split
  · exact good_skip _
  · refine good_drawS S _ _ ⟨?_, ?_⟩
    · intro S c cell hcell r hr
      simp only [List.mem_map, List.mem_range] at hcell
      obtain ⟨k, _, rfl⟩ := hcell
      simp only [cellReads, List.nil_append, List.mem_map] at hr
      obtain ⟨j, _, rfl⟩ := hr
      exact ⟨rfl, Nat.le_refl _, by simp⟩
    · intro S c
      refine indep_range_map _ _ ?_ ?_ ?_
      · intro p q _ _ hne r hr hr'
        simp only [List.mem_map, List.mem_range] at hr hr'
        obtain ⟨j, hj, rfl⟩ := hr
        obtain ⟨j', hj', h'⟩ := hr'
        simp only [Read.mk.injEq, true_and] at h'
        exact hne (flat_inj hj' hj h').symm
      · intro p q _ _; exact disj_nil_left _
      · intro p q _ _ _; exact disj_nil_left _

theorem good_initIter (S : StreamId) (p : Pop) (nIds k : Nat) : Good (genM S) (initIter p nIds k) := by
  have hp := good_pop S p nIds
  refine ⟨hp.ok, hp.mono, ?_, ?_⟩
  · intro sd w h c hc r hr
    simp only [initIter, List.mem_map] at hc
    obtain ⟨i, _, rfl⟩ := hc
    simp only [cellReads, List.nil_append] at hr
    obtain ⟨c1, hc1, _, hr1⟩ := (mem_patientReads _ _ _).mp hr
    exact hp.within sd w h c1 hc1 r (List.mem_append_left _ hr1)
  · intro sd w h
    simp only [initIter]
    refine indep_range_map _ _ ?_ ?_ ?_
    · intro i j _ _ hne r hr hr'
      obtain ⟨c1, hc1, hu1, hr1⟩ := (mem_patientReads _ _ _).mp hr
      obtain ⟨c2, hc2, hu2, hr2⟩ := (mem_patientReads _ _ _).mp hr'
      exact (hp.indep sd w h).par c1 hc1 c2 hc2 (by rw [hu1, hu2]; exact hne) r hr1 hr2
    · intro i j _ _; exact disj_nil_left _
    · intro i j _ _ _; exact disj_nil_left _

theorem stream_of_tokG {S : StreamId} {r : Read} {t : Nat} (h : tokG S r = some t) :
    r.stream = S ∨ ∃ k, r.stream = .legacyDerived S k := by
  unfold tokG at h
  split at h
  · left; assumption
  · split at h
    · rename_i p k heq
      split at h
      · rename_i hp; right; exact ⟨k, by rw [heq, hp]⟩
      · exact absurd h (by simp)
    · exact absurd h (by simp)

/-- the assembly of `sample_initial_parameters`: top-level entries read the legacy stream `T`, the
    bottom-level entries an independent family `inner` on a generator stream `S` of another kind -/
theorem indep_initAssembly (n nIds : Nat) (T S : StreamId) (c0 : Nat) (inner : List Cell)
    (hI : Indep inner)
    (hS : ∀ c ∈ inner, ∀ r ∈ cellReads c, r.stream = S ∨ ∃ k, r.stream = .legacyDerived S k)
    (hTS : T ≠ S) (hTD : ∀ k, T ≠ .legacyDerived S k) :
    Indep ((List.range n).map (fun k => (⟨k, 0, 0, [⟨T, c0, k⟩], []⟩ : Cell))
      ++ inner.map (fun c => if c.out ≤ nIds then { c with par := [⟨T, c0, c.unit⟩] } else c)) := by
  have hnoT : ∀ c ∈ inner, ∀ r ∈ cellReads c, r.stream ≠ T := by
    intro c hc r hr hT
    rcases hS c hc r hr with h | ⟨k, h⟩
    · exact hTS (by rw [← hT, h])
    · exact hTD k (by rw [← hT, h])
  have patch_noise : ∀ c : Cell, (if c.out ≤ nIds then { c with par := [⟨T, c0, c.unit⟩] } else c).noise = c.noise := by
    intro c; split <;> rfl
  have patch_unit : ∀ c : Cell, (if c.out ≤ nIds then { c with par := [⟨T, c0, c.unit⟩] } else c).unit = c.unit := by
    intro c; split <;> rfl
  have patch_par : ∀ c : Cell, ∀ r ∈ (if c.out ≤ nIds then { c with par := [⟨T, c0, c.unit⟩] } else c).par,
      r = ⟨T, c0, c.unit⟩ ∨ r ∈ c.par := by
    intro c r hr
    split at hr
    · left; simpa using hr
    · right; exact hr
  -- every parameter read of the assembled list: the top read of its unit, or an inner parameter read
  have par_cases : ∀ a ∈ (List.range n).map (fun k => (⟨k, 0, 0, [⟨T, c0, k⟩], []⟩ : Cell))
      ++ inner.map (fun c => if c.out ≤ nIds then { c with par := [⟨T, c0, c.unit⟩] } else c),
      ∀ r ∈ a.par, r = ⟨T, c0, a.unit⟩ ∨ ∃ c ∈ inner, c.unit = a.unit ∧ r ∈ c.par := by
    intro a ha r hr
    rcases List.mem_append.mp ha with ha | ha
    · obtain ⟨k, _, rfl⟩ := List.mem_map.mp ha
      left; simpa using hr
    · obtain ⟨c, hc, rfl⟩ := List.mem_map.mp ha
      rcases patch_par c r hr with h | h
      · left; rw [patch_unit]; exact h
      · right; exact ⟨c, hc, (patch_unit c).symm, h⟩
  have noise_cases : ∀ b ∈ (List.range n).map (fun k => (⟨k, 0, 0, [⟨T, c0, k⟩], []⟩ : Cell))
      ++ inner.map (fun c => if c.out ≤ nIds then { c with par := [⟨T, c0, c.unit⟩] } else c),
      ∀ r ∈ b.noise, ∃ c ∈ inner, r ∈ c.noise := by
    intro b hb r hr
    rcases List.mem_append.mp hb with hb | hb
    · obtain ⟨k, _, rfl⟩ := List.mem_map.mp hb
      simp at hr
    · obtain ⟨c, hc, rfl⟩ := List.mem_map.mp hb
      rw [patch_noise] at hr
      exact ⟨c, hc, hr⟩
  refine ⟨?_, ?_, ?_⟩
  · refine List.pairwise_append.mpr ⟨?_, ?_, ?_⟩
    · rw [List.pairwise_map]
      exact List.pairwise_of_forall_mem_list (fun a _ b _ => disj_nil_left _)
    · rw [List.pairwise_map]
      exact hI.noise.imp (fun {a b} hab => by rw [patch_noise, patch_noise]; exact hab)
    · intro x hx y _
      obtain ⟨k, _, rfl⟩ := List.mem_map.mp hx
      exact disj_nil_left _
  · intro a ha b hb r hra hrb
    obtain ⟨cb, hcb, hrb'⟩ := noise_cases b hb r hrb
    rcases par_cases a ha r hra with h | ⟨ca, hca, _, h⟩
    · exact hnoT cb hcb r (List.mem_append_right _ hrb') (by rw [h])
    · exact hI.parNoise ca hca cb hcb r h hrb'
  · intro a ha b hb hne r hra hrb
    rcases par_cases a ha r hra with h | ⟨ca, hca, hua, h⟩ <;>
      rcases par_cases b hb r hrb with h' | ⟨cb, hcb, hub, h'⟩
    · rw [h] at h'
      simp only [Read.mk.injEq, true_and] at h'
      exact hne h'
    · exact hnoT cb hcb r (List.mem_append_left _ h') (by rw [h])
    · exact hnoT ca hca r (List.mem_append_left _ h) (by rw [h'])
    · exact hI.par ca hca cb hcb (by rw [hua, hub]; exact hne) r h h'

theorem indep_initHier (p : Pop) (nIds nEps n : Nat) (sd : SeedArg) (w : World) :
    Indep (initHier p nIds nEps n sd w).1.1.cells := by
  have hg : ∀ S, Good (genM S) (seqS (loopS (initIter p nIds) (List.range n)) (epsDraw nIds nEps n)) :=
    fun S => good_seq (good_loop (fun k => good_initIter S p nIds k) _) (good_epsDraw S nIds nEps n)
  cases sd with
  | gen g => simp only [initHier, seedGlobal]; exact indep_nil
  | int s =>
    simp only [initHier, seedGlobal, globCall]
    refine indep_initAssembly n nIds (.legacySeeded s) (.seeded (s + 1)) 0 _ (indep_withRng hg _ _) ?_
      (by simp) (by simp)
    intro c hc r hr
    simp only [withRng, defaultRng] at hc
    obtain ⟨t, ht, _, _⟩ := (hg (.seeded (s + 1))).within (.gen ⟨.seeded (s + 1), 0⟩) _ ⟨_, rfl, rfl⟩ c hc r hr
    exact stream_of_tokG ht
  | none =>
    simp only [initHier, seedGlobal, globCall]
    refine indep_initAssembly n nIds (.legacyEntropy w.freshU) (.entropy (w.freshU + 1)) 0 _
      (indep_withRng hg _ _) ?_ (by simp) (by simp)
    intro c hc r hr
    simp only [withRng, defaultRng] at hc
    obtain ⟨t, ht, _, _⟩ := (hg (.entropy (w.freshU + 1))).within
      (.gen ⟨.entropy (w.freshU + 1), 0⟩) _ ⟨_, rfl, rfl⟩ c hc r hr
    exact stream_of_tokG ht

end ChiModel.Seeds
