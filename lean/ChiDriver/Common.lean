import ChiModel.Wire
import ChiModel.Scalar
/-! helpers shared by the per-property op tables -/
open Wire
namespace ChiDriver

abbrev Op := List Val → Option (List Val)

def vecF (l : List Float) : Nat → Float := fun j => l.getD j 0.0
def matF (l : List (List Float)) : Nat → Nat → Float := fun i j => (l.getD i []).getD j 0.0

def scoreVal : Score Float → Val
  | .negInf => .str "neginf"
  | .undefined => .str "undef"
  | .val x => .flt x

def errVal (k : String) : Val := .str ("err:" ++ k)

end ChiDriver
