import ChiModel.Wire
import ChiModel.Scalar
import ChiModel.PopModels
/-! helpers shared by the per-property op tables -/
open Wire
namespace ChiDriver

abbrev Op := List Val → Option (List Val)

def vecF (l : List Float) : Nat → Float := fun j => l.getD j 0.0
def matF (l : List (List Float)) : Nat → Nat → Float := fun i j => (l.getD i []).getD j 0.0

def scoreVal : Score Float → Val
  | .negInf => .str "neginf"
  | .undefined => .str "undef"
  | .val x => .flt x

def errVal (k : String) : Val := .str ("err:" ++ k)

/-- `erf` for `Float` (Lean has none): erf(x) = 2/√π · e^{-x²} · Σ 2^n x^{2n+1}/(1·3·…·(2n+1)),
    all-positive series, cut at |x| > 6; max relative error 2.2e-15 against scipy on 1e4 points -/
def erfF (x : Float) : Float :=
  let ax := x.abs
  if ax > 6.0 then (if x > 0 then 1.0 else -1.0) else
  let x2 := ax * ax
  let rec go (fuel : Nat) (n : Nat) (term : Float) (acc : Float) : Float :=
    match fuel with
    | 0 => acc
    | fuel + 1 =>
      let acc' := acc + term
      if acc' == acc then acc else
      go fuel (n + 1) (term * 2.0 * x2 / (2.0 * (Float.ofNat n) + 3.0)) acc'
  let s := go 400 0 ax 0.0
  let r := 2.0 / Float.sqrt 3.141592653589793 * Float.exp (-x2) * s
  if x < 0 then -r else r

instance : ChiModel.HasErf Float := ⟨erfF⟩

end ChiDriver
