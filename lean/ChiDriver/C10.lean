import ChiDriver.Common
import ChiModel.Dosing
open Wire ChiModel.Dosing
namespace ChiDriver.C10

/-- the exact rational value of a finite IEEE double -/
def floatToRat (x : Float) : Option Rat :=
  let b : Nat := x.toBits.toNat
  let sign : Nat := b / 2 ^ 63
  let ex : Nat := (b / 2 ^ 52) % 2048
  let man : Nat := b % 2 ^ 52
  if ex = 2047 then none
  else
    let num : Nat := if ex = 0 then man else if ex ≥ 1075 then (man + 2 ^ 52) * 2 ^ (ex - 1075)
      else man + 2 ^ 52
    let den : Nat := if ex = 0 then 2 ^ 1074 else if ex ≥ 1075 then 1 else 2 ^ (1075 - ex)
    let v : Rat := (num : Rat) / (den : Rat)
    some (if sign = 1 then -v else v)

def ratVal (q : Rat) : Val := .list [.int q.num, .int q.den]

def Val.rat? : Val → Option Rat
  | .flt x => floatToRat x
  | .int n => some (n : Rat)
  | _ => none

def errName : Err → String
  | .zeroDivision => "ZeroDivisionError"
  | .protocolEvent => "ProtocolEventError"
  | .simultaneous => "SimultaneousProtocolEventError"
  | .nonFinite => "nonFinite"
  | .keyError => "KeyError"

def eventVal (e : Event) : Val :=
  .list [ratVal e.level, ratVal e.start, ratVal e.duration, ratVal e.period, .int e.multiplier]

def parseEvent : Val → Option Event
  | .list [l, s, d, p, .int m] => do
    if m < 0 then none
    some ⟨← Val.rat? l, ← Val.rat? s, ← Val.rat? d, ← Val.rat? p, m.toNat⟩
  | _ => none

def parseEvents (v : Val) : Option (List Event) := v.list? >>= (·.mapM parseEvent)

/-- `C10.event dose start duration period|n num|n` -/
def event : Op
  | [dv, sv, duv, pv, nv] => do
    let dose ← Val.rat? dv
    let start ← Val.rat? sv
    let dur ← Val.rat? duv
    let period ← Val.opt? Val.rat? pv
    let num ← Val.opt? Val.int? nv
    match regimenToEvent dose start dur period num with
    | .error e => some [errVal (errName e)]
    | .ok e => some [.str "ok", eventVal e]
  | [.str "reduced", dv, sv, duv, pv, nv] => do
    let dose ← Val.rat? dv
    let start ← Val.rat? sv
    let dur ← Val.rat? duv
    let period ← Val.opt? Val.rat? pv
    let num ← Val.opt? Val.int? nv
    match reducedRegimenToEvent dose start dur period num with
    | .error e => some [errVal (errName e)]
    | .ok e => some [.str "ok", eventVal e]
  | _ => none

/-- `C10.pace event times` → pace, delivered, nStarted at every time -/
def paceOp : Op
  | [ev, tv] => do
    let e ← parseEvent ev
    let ts ← (← tv.list?).mapM Val.rat?
    some [.list (ts.map (fun t => ratVal (pace e t))),
          .list (ts.map (fun t => ratVal (delivered e t))),
          .list (ts.map (fun t => .int (nStarted e t)))]
  | _ => none

/-- `C10.pacemulti events times` → pace, summed delivered -/
def paceMultiOp : Op
  | [ev, tv] => do
    let es ← parseEvents ev
    let ts ← (← tv.list?).mapM Val.rat?
    some [.list (ts.map (fun t => ratVal (paceMulti es t))),
          .list (ts.map (fun t => ratVal (deliveredMulti es t)))]
  | _ => none

def rowVal (r : Row) : Val := .list [ratVal r.time, ratVal r.duration, ratVal r.dose]

/-- `C10.table legacy events final|n` -/
def table : Op
  | [.bool legacy, ev, fv] => do
    let es ← parseEvents ev
    let final ← Val.opt? Val.rat? fv
    match regimenTable legacy es final with
    | none => some [.none]
    | some rows => some [.list (rows.map rowVal)]
  | _ => none

/-- `C10.rows default_duration rows` with rows `[time|n dose|n duration|n]` -/
def rows : Op
  | [dv, rv] => do
    let dflt ← Val.rat? dv
    let rl ← rv.list?
    let rs ← rl.mapM (fun r => match r with
      | .list [t, a, d] => do
        some (⟨← Val.opt? Val.rat? t, ← Val.opt? Val.rat? a, ← Val.opt? Val.rat? d⟩ : DoseRow)
      | _ => none)
    match rowsToProtocol dflt rs [] with
    | .error e => some [errVal (errName e)]
    | .ok es => some [.str "ok", .list (es.map eventVal)]
  | _ => none

/-- `C10.surgery amount depot ka doseRate direct` on a model whose dosed state has the opaque
    right-hand side `$old` → rendered rhs of the dosed state, of the depot (or n), pace variable -/
def surgery : Op
  | [.str amount, .str depot, .str ka, .str rate, .bool direct] =>
    let m0 : Eqs := { rhs := [(amount, .var "$old")], paceVar := none }
    let m := setAdministration m0 amount depot ka rate direct
    let r (s : String) : Val := match m.get s with | some e => .str e.render | none => .none
    some [r amount, r depot, match m.paceVar with | some p => .str p | none => .none,
          .int m.rhs.length]
  | _ => none

def parseRows (rv : Val) : Option (List DoseRow) := do
  let rl ← rv.list?
  rl.mapM (fun r => match r with
    | .list [t, a, d] => do
      some (⟨← Val.opt? Val.rat? t, ← Val.opt? Val.rat? a, ← Val.opt? Val.rat? d⟩ : DoseRow)
    | _ => none)

/-- `C10.setdata default_duration datasets`: a sequence of `set_data` calls; a dataset is `n`
    (no dose information) or a list of `[id rows]` → the regimens held afterwards -/
def setData : Op
  | [dv, dsv] => do
    let dflt ← Val.rat? dv
    let dl ← dsv.list?
    let ds ← dl.mapM (fun d => match d with
      | .none => some (none : Option (List (String × List DoseRow)))
      | .list inds => do
        let l ← inds.mapM (fun x => match x with
          | .list [.str label, rows] => do some (label, ← parseRows rows)
          | _ => none)
        some (some l)
      | _ => none)
    match setDataRun dflt none ds with
    | .error e => some [errVal (errName e)]
    | .ok none => some [.str "ok", .none]
    | .ok (some r) => some [.str "ok", .list (r.map (fun (label, evs) =>
        .list [.str label, .list (evs.map eventVal)]))]
  | _ => none

def regimensVal (r : List (String × List Event)) : Val :=
  .list (r.map (fun (label, evs) => .list [.str label, .list (evs.map eventVal)]))

/-- `C10.frame default_duration rows` with rows `[row_label id time|n dose|n duration|n]` (the whole
    frame, in frame order, any row labels) → the regimens `set_data` derives -/
def frame : Op
  | [dv, rv] => do
    let dflt ← Val.rat? dv
    let rl ← rv.list?
    let fr ← rl.mapM (fun r => match r with
      | .list [.int l, .str id, t, a, d] => do
        some (⟨l, id, ⟨← Val.opt? Val.rat? t, ← Val.opt? Val.rat? a, ← Val.opt? Val.rat? d⟩⟩ :
          FrameRow)
      | _ => none)
    match frameRegimens dflt fr with
    | .error e => some [errVal (errName e)]
    | .ok none => some [.str "ok", .none]
    | .ok (some r) => some [.str "ok", regimensVal r]
  | _ => none

def parseRegimens (v : Val) : Option (List (String × List Event)) := do
  let l ← v.list?
  l.mapM (fun x => match x with
    | .list [.str label, evs] => do some (label, ← parseEvents evs)
    | _ => none)

/-- `C10.likelihoods regimens|n own|n ids`: the regimens the controller holds, the events of the
    regimen its mechanistic model was created with, the individuals of one `get_log_posterior` call
    → per individual the events its likelihood simulates with (`n` = never dosed) -/
def likelihoods : Op
  | [rv, ov, iv] => do
    let regs ← Val.opt? parseRegimens rv
    let own ← Val.opt? parseEvents ov
    let ids ← (← iv.list?).mapM Val.str?
    match likelihoodRegimens regs own ids with
    | .error e => some [errVal (errName e)]
    | .ok out => some [.str "ok", .list (out.map (fun (id, reg) =>
        .list [.str id, match reg with | none => .none | some evs => .list (evs.map eventVal)]))]
  | _ => none

/-- one step of `C10.derived`: `["copy", h]`, `["wrap", h]`, `["set", h, dose, start, duration,
    period|n, num|n]`; a handle that does not exist yet is a malformed request -/
def parseDeriveOp (σ : Heap) : Val → Option (Except Err DeriveOp)
  | .list [.str "copy", .int h] =>
    if h < 0 ∨ h.toNat ≥ σ.nHandles then none else some (.ok (.copy h.toNat))
  | .list [.str "wrap", .int h] =>
    if h < 0 ∨ h.toNat ≥ σ.nHandles then none else some (.ok (.wrap h.toNat))
  | .list [.str "set", .int h, dv, sv, duv, pv, nv] => do
    if h < 0 ∨ h.toNat ≥ σ.nHandles then none
    let dose ← Val.rat? dv
    let start ← Val.rat? sv
    let dur ← Val.rat? duv
    let period ← Val.opt? Val.rat? pv
    let num ← Val.opt? Val.int? nv
    match regimenToEvent dose start dur period num with
    | .error e => some (.error e)
    | .ok e => some (.ok (.set h.toNat (some [e])))
  | _ => none

def runDerived : Heap → List Val → Option (Except Err Heap)
  | σ, [] => some (.ok σ)
  | σ, v :: rest =>
    match parseDeriveOp σ v with
    | none => none
    | some (.error e) => some (.error e)
    | some (.ok op) => runDerived (σ.step op) rest

/-- `C10.derived ops`: one never-dosed model with one handle (handle 0), then the operations →
    per handle what it reports (`n` = never dosed, else the events) -/
def derived : Op
  | [ov] => do
    let ol ← ov.list?
    match ← runDerived (Heap.init none) ol with
    | .error e => some [errVal (errName e)]
    | .ok σ => some [.str "ok", .list ((List.range σ.nHandles).map (fun h =>
        match σ.regimenOf h with
        | none => .none
        | some evs => .list (evs.map eventVal)))]
  | _ => none

/-- one call of `C10.resim`: `["set", dose, start, duration, period|n, num|n]`, `["protocol", events]`,
    `["solve", q]` -/
def parseSimCall : Val → Option (Except Err SimCall)
  | .list [.str "set", dv, sv, duv, pv, nv] => do
    let dose ← Val.rat? dv
    let start ← Val.rat? sv
    let dur ← Val.rat? duv
    let period ← Val.opt? Val.rat? pv
    let num ← Val.opt? Val.int? nv
    match regimenToEvent dose start dur period num with
    | .error e => some (.error e)
    | .ok e => some (.ok (.set (some [e])))
  | .list [.str "protocol", ev] => do
    let es ← parseEvents ev
    some (.ok (.set (some es)))
  | .list [.str "solve", .int q] => if q < 0 then none else some (.ok (.solve q.toNat))
  | _ => none

def parseSimCalls : List Val → Option (Except Err (List SimCall))
  | [] => some (.ok [])
  | v :: rest =>
    match parseSimCall v with
    | none => none
    | some (.error e) => some (.error e)
    | some (.ok c) =>
      match parseSimCalls rest with
      | none => none
      | some (.error e) => some (.error e)
      | some (.ok cs) => some (.ok (c :: cs))

/-- `C10.resim calls`: ONE never-dosed object, then the calls → per solve `[q, events | n]` (what that
    solve is run with), and the regimen in force at the end -/
def resim : Op
  | [cv] => do
    let cl ← cv.list?
    let regVal : Regimen → Val := fun r =>
      match r with
      | none => .none
      | some evs => .list (evs.map eventVal)
    match ← parseSimCalls cl with
    | .error e => some [errVal (errName e)]
    | .ok cs => some [.str "ok",
        .list ((simTrace none cs).map (fun (q, r) => .list [.int q, regVal r])),
        regVal (simRegimen none cs)]
  | _ => none

def ops : List (String × Op) :=
  [("C10.event", event), ("C10.pace", paceOp), ("C10.pacemulti", paceMultiOp),
   ("C10.table", table), ("C10.rows", rows), ("C10.setdata", setData), ("C10.surgery", surgery),
   ("C10.frame", frame), ("C10.likelihoods", likelihoods), ("C10.derived", derived), ("C10.resim", resim)]

end ChiDriver.C10
