import ChiDriver.Common
import ChiDriver.C12
import ChiModel.FilterPosterior
open Wire ChiModel ChiModel.PF ChiModel.FP
namespace ChiDriver.C13

def parseSub (v : Val) : Option SubModel :=
  match v with
  | .list [.int nDim, .int nTop, .bool hier, det] => do
    let d ← Val.opt? Val.bool? det
    some ⟨nDim.toNat, nTop.toNat, hier, d⟩
  | _ => none

/-- `[subs, nS, R, T, sigmaFree, logScale]` -/
def parseCfg (v : Val) : Option Cfg :=
  match v with
  | .list [subsV, .int nS, .int R, .int T, .bool sf, .bool ls] => do
    let l ← subsV.list?
    let subs ← l.mapM parseSub
    some ⟨subs, nS.toNat, R.toNat, T.toNat, sf, ls⟩
  | _ => none

def parseAnyFilt (v : Val) : Option (AnyFilt Float) :=
  match v with
  | .list [.str "simple", f] => (C12.parseFilt f).map .simple
  | .list [.str "comp", fs] => do
    let l ← fs.list?
    let fl ← l.mapM C12.parseFilt
    match Comp.mk? fl with
    | .ok C => some (.comp C)
    | .error _ => none
  | _ => none

def vecOfList (l : List Float) : Nat → Float := fun i => l.getD i (0.0 / 0.0)
def matOfList (l : List (List Float)) : Nat → Nat → Float := fun i j => (l.getD i []).getD j (0.0 / 0.0)

def specialVal (sp : Special) : Val :=
  .list [.int sp.a, .int sp.b, .int sp.ta, .int sp.tb, .bool sp.pooled]

/-- `C13.layout cfg` → nPop, nTop, nHdim, endBottom, nParameters, nDim, pooledDim, heteroDim, specials -/
def layout : Op
  | [cv] => do
    let c ← parseCfg cv
    some [.int c.nPop, .int c.nTop, .int c.nHdim, .int c.endBottom, .int c.nParameters, .int c.nDim,
      .int c.pooledDim, .int c.heteroDim, .list (c.specials.map specialVal)]
  | _ => none

/-- `C13.reshape cfg x sigmaFixed` → pop block, sigma, B (nS × nDim), eps (nS × R × T) -/
def reshape : Op
  | [cv, xv, sv] => do
    let c ← parseCfg cv
    let xl ← xv.flts?
    let sl ← sv.flts?
    if xl.length ≠ c.nParameters then return [errVal "valueError"]
    let x := vecOfList xl
    let B := reshapeBottom c (popBlock c x) (bottomBlock c x)
    some [ofFlts ((List.range c.nPop).map (popBlock c x)),
      ofFlts ((List.range c.R).map (sigmaOf c (vecOfList sl) x)),
      .list ((List.range c.nS).map (fun s => ofFlts ((List.range c.nDim).map (B s)))),
      C12.grid c.nS c.R c.T (epsBlock c x)]
  | _ => none

/-- `C13.gather cfg sens dbottom` → `_remove_duplicates(sens, dbottom)` -/
def gather : Op
  | [cv, sv, dv] => do
    let c ← parseCfg cv
    let sl ← sv.flts?
    let dl ← dv.fltss?
    let out := removeDuplicates c (vecOfList sl) (matOfList dl)
    some [ofFlts ((List.range c.nParameters).map out)]
  | _ => none

def unescSp (s : String) : String := s.replace "%20" " "
def escSp (s : String) : String := s.replace " " "%20"

/-- `C13.names cfg topNames mechNames outputs` → names, ids, names with ids -/
def names : Op
  | [cv, tv, mv, ov] => do
    let c ← parseCfg cv
    let tn ← tv.strs?
    let mn ← mv.strs?
    let on ← ov.strs?
    let nm := getNames c (tn.map unescSp) (mn.map unescSp) (on.map unescSp)
    let ids := getId c
    some [ofStrs (nm.map escSp), .list (ids.map (fun i => match i with
      | some k => .int k
      | none => .none)), ofStrs ((withIds nm ids).map escSp)]
  | _ => none

/-- table `[s][r]` of `[time, value]` pairs -/
def parseTable (v : Val) : Option (Nat → Nat → Float → Float) := do
  let l ← v.list?
  let tab ← l.mapM (fun a => do
    let b ← a.list?
    b.mapM (fun c => do
      let d ← c.list?
      d.mapM (fun e => match e with
        | .list [.flt t, .flt x] => some (t, x)
        | _ => none)))
  some (fun s r t => ((((tab.getD s []).getD r []).find? (fun p => p.1 == t)).map (·.2)).getD (0.0 / 0.0))

/-- `[s][j][r][k]` -/
def parseS (v : Val) : Option (Nat → Nat → Nat → Nat → Float) := do
  let l ← v.list?
  let t ← l.mapM (fun a => do
    let b ← a.list?
    b.mapM (fun c => c.fltss?))
  some (fun s j r k => ((((t.getD s []).getD j []).getD r []).getD k (0.0 / 0.0)))

def parseScore (v : Val) : Option (Score Float) :=
  match v with
  | .flt x => if x.isNaN then some .undefined else if x.isInf && x < 0 then some .negInf else some (.val x)
  | _ => none

/-- `C13.eval cfg filt times x sigmaFixed prior priorGrad popLL ybarTable S dbottom|n dtheta|n`
    → constructor verdict | score, y, filter gradient, B, ds_dpsi, gradient | n -/
def eval : Op
  | [cv, fv, tv, xv, sv, pv, pgv, plv, yv, Sv, dbv, dtv] => do
    let c ← parseCfg cv
    let f0 ← parseAnyFilt fv
    let times ← tv.flts?
    let xl ← xv.flts?
    let sl ← sv.flts?
    let prior ← parseScore pv
    let pg ← pgv.flts?
    let popll ← parseScore plv
    let tab ← parseTable yv
    let S ← parseS Sv
    let db ← Val.opt? Val.fltss? dbv
    let dt ← Val.opt? Val.flts? dtv
    match construct (fun a b => a < b) (0.0 / 0.0) f0 times with
    | .error e => some [errVal (C12.errName e)]
    | .ok (filt, sorted) =>
      if xl.length ≠ c.nParameters then some [errVal "valueError"] else
      let x := vecOfList xl
      -- the individual's index travels in psi[0]
      let E : Env Float Float := {
        prior := fun _ => prior
        popLL := fun _ _ => popll
        indiv := fun _ _ s _ => Float.ofNat s
        mech := fun psi r t => tab (psi 0).toUInt64.toNat r t
        sigmaFixed := vecOfList sl }
      let y := simulated c E sorted x
      let fgrad := filt.grad c.nS y
      let B := reshapeBottom c (popBlock c x) (bottomBlock c x)
      let G : GradEnv Float := {
        priorGrad := vecOfList pg
        mechS := S
        dbottom := fun _ => matOfList (db.getD [])
        dtheta := fun _ => vecOfList (dt.getD []) }
      let g := dsDpsi c E G fgrad x
      let grad : Val := match db with
        | none => .none
        | some _ => ofFlts ((List.range c.nParameters).map (gradRaw c E G filt sorted x))
      some [C12.llVal (call c E filt sorted x), C12.grid c.nS c.R c.T y, C12.grid c.nS c.R c.T fgrad,
        .list ((List.range c.nS).map (fun s => ofFlts ((List.range c.nDim).map (B s)))),
        .list ((List.range c.nS).map (fun s => ofFlts ((List.range c.nDim).map (g s)))), grad,
        ofFlts ((List.range c.T).map sorted)]
  | _ => none

/-- `C13.construct_seq filt times probe` : two constructor calls on the SAME filter object →
    caller's filter on `probe` before / after, first and second posterior's own filter on the probe at
    the sorted times -/
def constructSeq : Op
  | [fv, tv, pv] => do
    let f0 ← parseAnyFilt fv
    let times ← tv.flts?
    let (n, y) ← C12.parseSim pv
    let lt : Float → Float → Bool := fun a b => a < b
    let h0 : Heap Float := [f0]
    let ll (g : Option (AnyFilt Float)) (z : Nat → Nat → Nat → Float) : Val := match g with
      | some g => C12.llVal (g.ll n z)
      | none => errVal "indexError"
    match constructHeap lt (0.0 / 0.0) h0 0 times with
    | .error e => some [errVal (C12.errName e)]
    | .ok (h1, q1, _) =>
      match constructHeap lt (0.0 / 0.0) h1 0 times with
      | .error e => some [errVal (C12.errName e)]
      | .ok (h2, q2, _) =>
        let ord := argsortBy lt times (0.0 / 0.0)
        let ys : Nat → Nat → Nat → Float := fun s r j => y s r (ord.getD j 0)
        some [ll h0[0]? y, ll h2[0]? y, ll h1[q1]? ys, ll h2[q2]? ys]
  | _ => none

/-- `C13.s1_history events` : a call history on ONE posterior object.  Events: `[s1, out]` (an
    `evaluateS1` call; `out` = the array it produced at that moment), `[call]`, `[scribble, k, v]` (the
    caller overwrites the array of the `k`-th `evaluateS1` call) → the content of every handed-out
    array at the END of the history -/
def s1History : Op
  | [ev] => do
    let l ← ev.list?
    let evs ← l.mapM (fun e => match e with
      | .list [.str "s1", out] => out.flts?.map Ev.s1
      | .list [.str "call"] => some (Ev.call [])
      | .list [.str "scribble", .int k, v] => v.flts?.map (Ev.scribble k.toNat)
      | _ => none)
    some [.list ((hist (fun o => o) [] evs).map ofFlts)]
  | _ => none

def ops : List (String × Op) :=
  [("C13.layout", layout), ("C13.reshape", reshape), ("C13.gather", gather), ("C13.names", names),
   ("C13.eval", eval), ("C13.construct_seq", constructSeq),
   ("C13.s1_history", s1History)]
end ChiDriver.C13
