import ChiDriver.Common
import ChiModel.Plots
open Wire ChiModel ChiModel.Plots
namespace ChiDriver.C20

/-! frames travel as lists of rows; IDs and observables as integer codes of their equality classes,
    times / values of the routing ops as the bit patterns of the doubles (payload, never computed
    with), samples of the band ops as doubles. `n` = missing. -/

abbrev R := Row Nat Nat Nat Nat

def optNat : Val → Option (Option Nat) := Val.opt? Val.nat?
def optFlt : Val → Option (Option Float) := Val.opt? Val.flt?

def parseRow : Val → Option R
  | .list [i, o, t, v, d, u] => do
    some ⟨← optNat i, ← optNat o, ← t.nat?, ← v.nat?, ← optNat d, ← u.nat?⟩
  | _ => none

def parseRows (v : Val) : Option (List R) := do (← v.list?).mapM parseRow

def errName : PErr → String
  | .typeError => "typeError"
  | .valueError => "valueError"
  | .indexError => "indexError"

def optNatVal : Option Nat → Val
  | none => .none
  | some n => .int n
def optFltVal : Option Float → Val
  | none => .none
  | some x => .flt x
def pairsVal (l : List (Nat × Nat)) : Val := .list (l.map (fun p => .list [.int p.1, .int p.2]))

def pdVal (l : List (PDTrace Nat Nat Nat)) : Val :=
  .list (l.map (fun t => .list [optNatVal t.id, pairsVal t.pts]))
def pkVal (l : List (PKTrace Nat Nat Nat)) : Val :=
  .list (l.map (fun t => .list [optNatVal t.id, pairsVal t.dose, pairsVal t.pts]))

def numericOf (l : List Nat) : Nat → Bool := fun i => l.contains i

/-- `C20.pd_add_data rows observable` — the code as it is -/
def pdAdd : Op
  | [rowsV, obsV] => do
    let rows ← parseRows rowsV
    let obs ← optNat obsV
    match (pdAddData rows obs).1 with
    | .error e => some [errVal (errName e)]
    | .ok tr => some [.str "ok", pdVal tr]
  | _ => none

/-- `C20.pd_add_data_legacy fmtLegacy dropna nanIn rows numericIds observable` — pre-fix variants -/
def pdAddLegacy : Op
  | [.bool legacy, .bool dropna, .bool nanIn, rowsV, numV, obsV] => do
    let rows ← parseRows rowsV
    let num ← numV.nats?
    let obs ← optNat obsV
    match (pdAddDataLegacy legacy dropna nanIn (numericOf num) rows obs).1 with
    | .error e => some [errVal (errName e)]
    | .ok tr => some [.str "ok", pdVal tr]
  | _ => none

/-- `C20.pk_add_data rows observable` -/
def pkAdd : Op
  | [rowsV, obsV] => do
    let rows ← parseRows rowsV
    let obs ← optNat obsV
    match (pkAddData rows obs).1 with
    | .error e => some [errVal (errName e)]
    | .ok tr => some [.str "ok", pkVal tr]
  | _ => none

/-- `C20.spec rows observable` → chosen observable, PD traces, PK traces as the property states them -/
def spec : Op
  | [rowsV, obsV] => do
    let rows ← parseRows rowsV
    let obs ← optNat obsV
    match specObs rows obs with
    | none => some [.none]
    | some o => some [.int o, pdVal (specPD rows o), pkVal (specPK rows o)]
  | _ => none

/-- `C20.simulation rows` -/
def simulation : Op
  | [rowsV] => do
    let rows ← parseRows rowsV
    some [pairsVal (addSimulation rows).1]
  | _ => none

/-- `C20.scatter rows observable` → samples trace, dose trace of the predictive PK figure -/
def scatter : Op
  | [rowsV, obsV] => do
    let rows ← parseRows rowsV
    let obs ← optNat obsV
    match (predictionScatter rows obs).1 with
    | .error e => some [errVal (errName e)]
    | .ok tr => some [.str "ok", pairsVal tr, pairsVal (predictionDose rows)]
  | _ => none

/-- `C20.band xs p` → lower | n, upper | n, number of samples inside (0 when a limit is missing), n -/
def band : Op
  | [xsV, .flt p] => do
    let xs ← xsV.flts?
    let lo := lowerLimit xs p
    let hi := upperLimit xs p
    let ins := match lo, hi with
      | some a, some b => inside xs a b
      | _, _ => 0
    some [optFltVal lo, optFltVal hi, .int ins, .int xs.length]
  | _ => none

/-- `C20.admissible xs p lo hi` → the four Booleans of the weak relation, samples inside, n -/
def admissibleOp : Op
  | [xsV, .flt p, .flt lo, .flt hi] => do
    let xs ← xsV.flts?
    let (a, b, c, d) := admissible xs p lo hi
    some [.bool a, .bool b, .bool c, .bool d, .int (inside xs lo hi), .int xs.length]
  | _ => none

def parseSampleRows (v : Val) : Option (List (Option Nat × Option Float)) := do
  (← v.list?).mapM (fun r => match r with
    | .list [t, x] => do some (← optNat t, ← optFlt x)
    | _ => none)

/-- `C20.bands rows ps` → per bulk probability the closed polygon `[p, xs, ys]` -/
def bands : Op
  | [rowsV, psV] => do
    let rows ← parseSampleRows rowsV
    let ps ← psV.flts?
    match predictionBands rows ps with
    | .error e => some [errVal (errName e)]
    | .ok l => some [.str "ok", .list (l.map (fun b =>
        .list [.flt b.1, .list (b.2.1.map optNatVal), .list (b.2.2.map optFltVal)]))]
  | _ => none

/-- `C20.samples_at rows t` → the non-missing samples the model selects for time `t` (frame order) -/
def samplesAtOp : Op
  | [rowsV, tV] => do
    let rows ← parseSampleRows rowsV
    let t ← optNat tV
    some [.list ((samplesAt rows t).map .flt)]
  | _ => none

/-- `C20.band_rows_by tol rows p` → the percentile container `[t, lower | n, upper | n]` per unique
    time with the time mask `withinM tol` (times = positions of the non-negative doubles on the number
    line; `tol = 0` is the code as it is) -/
def bandRowsByOp : Op
  | [.int tol, rowsV, .flt p] => do
    let rows ← parseSampleRows rowsV
    some [.list ((bandRowsBy (withinM tol.toNat) rows p).map (fun b =>
      .list [optNatVal b.1, optFltVal b.2.1, optFltVal b.2.2]))]
  | _ => none

def parseMeas (v : Val) : Option (List (MRow Nat Nat Nat Float)) := do
  (← v.list?).mapM (fun r => match r with
    | .list [i, o, t, x] => do some ⟨← optNat i, ← optNat o, ← optNat t, ← x.flt?⟩
    | _ => none)

def parsePred (v : Val) : Option (List (PRow Nat Nat Float)) := do
  (← v.list?).mapM (fun r => match r with
    | .list [o, t, x] => do some ⟨← optNat o, ← optNat t, ← optFlt x⟩
    | _ => none)

def rtVal (tr : List (RTrace Nat Float)) : Val :=
  .list (tr.map (fun t => .list [optNatVal t.id, .list (t.x.map optFltVal), .list (t.y.map optFltVal)]))

/-- `C20.residual meas pred observable individual showRes showRel` — the code as it is,
    then the figure the property describes (`specResid`) for the same observable when the call returns -/
def residual : Op
  | [measV, predV, obsV, indV, .bool sres, .bool srel] => do
    let meas ← parseMeas measV
    let pred ← parsePred predV
    let obs ← optNat obsV
    let ind ← optNat indV
    match (residualAddData meas pred obs ind sres srel).1 with
    | .error e => some [errVal (errName e)]
    | .ok tr =>
      let sp := match specPredObs pred obs with
        | some o => rtVal (specResid meas pred o ind sres srel)
        | none => .none
      some [.str "ok", rtVal tr, sp]
  | _ => none

/-- `C20.residual_legacy readonly fmtLegacy numericIds meas pred observable individual showRes showRel` -/
def residualLegacy : Op
  | [.bool ro, .bool fl, numV, measV, predV, obsV, indV, .bool sres, .bool srel] => do
    let num ← numV.nats?
    let meas ← parseMeas measV
    let pred ← parsePred predV
    let obs ← optNat obsV
    let ind ← optNat indV
    match (residualAddDataLegacy ro fl (numericOf num) meas pred obs ind sres srel).1 with
    | .error e => some [errVal (errName e)]
    | .ok tr => some [.str "ok", rtVal tr]
  | _ => none

def ops : List (String × Op) :=
  [("C20.pd_add_data", pdAdd), ("C20.pd_add_data_legacy", pdAddLegacy), ("C20.pk_add_data", pkAdd),
   ("C20.spec", spec), ("C20.residual_legacy", residualLegacy),
   ("C20.simulation", simulation), ("C20.scatter", scatter), ("C20.band", band),
   ("C20.admissible", admissibleOp), ("C20.bands", bands),
   ("C20.samples_at", samplesAtOp), ("C20.band_rows_by", bandRowsByOp), ("C20.residual", residual)]

end ChiDriver.C20
