import ChiDriver.C04
import ChiDriver.C01
import ChiDriver.C08
namespace ChiDriver
def allOps : List (String × Op) := C04.ops ++ C01.ops ++ C08.ops
end ChiDriver
