import ChiDriver.C04
import ChiDriver.C01
import ChiDriver.C08
import ChiDriver.C02
import ChiDriver.C03
import ChiDriver.C19
import ChiDriver.C09
import ChiDriver.C10
import ChiDriver.C06
import ChiDriver.C07
import ChiDriver.C20
import ChiDriver.C18
import ChiDriver.C14
namespace ChiDriver
def allOps : List (String × Op) := C04.ops ++ C01.ops ++ C08.ops ++ C02.ops ++ C03.ops ++ C19.ops ++ C09.ops ++ C10.ops ++ C06.ops ++ C07.ops ++ C18.ops ++ C20.ops ++ C14.ops
end ChiDriver
