import ChiDriver.C04
import ChiDriver.C01
namespace ChiDriver
def allOps : List (String × Op) := C04.ops ++ C01.ops
end ChiDriver
