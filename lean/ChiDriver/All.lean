import ChiDriver.C04
namespace ChiDriver
def allOps : List (String × Op) := C04.ops
end ChiDriver
