import ChiDriver.Common
import ChiModel.Mechanistic
open Wire ChiModel.Mech
namespace ChiDriver.C09

def ltS : String → String → Bool := fun a b => decide (a < b)

def errName : Err → String
  | .indexError => "indexError"
  | .valueError => "valueError"
  | .keyError => "keyError"

def parseDecl (sv cv iv : Val) : Option (Decl String) := do
  let states ← sv.strs?
  let cl ← cv.list?
  let consts ← cl.mapM (fun c => match c with
    | .list [.str nm, .bool b] => some (nm, b)
    | _ => none)
  let inter ← iv.strs?
  some { states := states, consts := consts, inter := inter }

def tablesOf (d : Decl String) : Tables String :=
  setNumberAndNames ltS (argsortBy ltS) (argsortBy ltNat) d

def pairs (l : List (String × Float)) : Val := .list (l.map (fun (n, x) => .list [.str n, .flt x]))

def sensName : SensParam String → String
  | .init n => "init(" ++ n ++ ")"
  | .const n => n

/-- `C09.tables states consts inter` → state names, constant names, n_parameters, parameter names,
    default outputs -/
def tables : Op
  | [sv, cv, iv] => do
    let d ← parseDecl sv cv iv
    let T := tablesOf d
    some [ofStrs T.stateNames, ofStrs T.constNames, .int T.nParameters, ofStrs T.parameterNames,
          ofStrs T.outputNames, .int T.nOutputs]
  | _ => none

/-- with outputs (`n` = default) applied -/
def withOutputs (d : Decl String) (ov : Val) : Option (Except Err (Tables String)) :=
  match ov with
  | .none => some (.ok (tablesOf d))
  | v => do
    let outs ← v.strs?
    some (setOutputs d (tablesOf d) outs)

/-- `C09.simulate states consts inter outputs params` → the solver call record -/
def simulate : Op
  | [sv, cv, iv, ov, pv] => do
    let d ← parseDecl sv cv iv
    let params ← pv.flts?
    match ← withOutputs d ov with
    | .error e => some [errVal (errName e)]
    | .ok T =>
      match simulateRecord d T params with
      | .error e => some [errVal (errName e)]
      | .ok r => some [.str "ok", pairs r.stateAssign, pairs r.constCalls, ofStrs r.log]
  | _ => none

/-- `C09.sens states consts inter outputs public given` → dependents, independents -/
def sens : Op
  | [sv, cv, iv, ov, pubv, gv] => do
    let d ← parseDecl sv cv iv
    let pub ← pubv.strs?
    let given ← Val.opt? Val.strs? gv
    match ← withOutputs d ov with
    | .error e => some [errVal (errName e)]
    | .ok T =>
      match enableSens T pub given with
      | .error e => some [errVal (errName e)]
      | .ok (o, s) => some [.str "ok", ofStrs o, ofStrs (s.map sensName)]
  | _ => none

def parseFixed (mv vv : Val) : Option (Option (List (Bool × Float))) :=
  match mv with
  | .none => some none
  | v => do
    let ml ← v.list?
    let m ← ml.mapM Val.bool?
    let vals ← vv.flts?
    if m.length = vals.length then some (some (m.zip vals)) else none

/-- `C09.reduced names mask values params` → free names, full vector -/
def reduced : Op
  | [nv, mv, vv, pv] => do
    let names ← nv.strs?
    let fixed ← parseFixed mv vv
    let params ← pv.flts?
    let r : Reduced String Float := { names := names, fixed := fixed }
    match r.fullVector params with
    | .error e => some [ofStrs r.free, errVal (errName e)]
    | .ok v => some [ofStrs r.free, ofFlts v]
  | _ => none

def reqVal : Option (List String × List (SensParam String)) → List Val
  | none => [.str "ok", .none, .none, .int 0]
  | some (o, l) => [.str "ok", ofStrs o, ofStrs (l.map sensName), .int l.length]

/-- `C09.reducedsens legacy states consts inter outputs public mask values`
    → dependents | n, independents | n, number of sensitivity columns -/
def reducedSens : Op
  | [.bool legacy, sv, cv, iv, ov, pubv, mv, vv] => do
    let d ← parseDecl sv cv iv
    let pub ← pubv.strs?
    let fixed ← parseFixed mv vv
    let r : Reduced String Float := { names := pub, fixed := fixed }
    match ← withOutputs d ov with
    | .error e => some [errVal (errName e)]
    | .ok T =>
      match r.enableSens legacy T pub with
      | .error e => some [errVal (errName e)]
      | .ok q => some (reqVal q)
  | _ => none

/-- `C09.senshistory states consts inter public ops` with ops `[e given|n]`, `[d]`, `[o outs]`
    → outputs, request of the solver a following `simulate` runs on -/
def sensHistory : Op
  | [sv, cv, iv, pubv, opsv] => do
    let d ← parseDecl sv cv iv
    let pub ← pubv.strs?
    let ol ← opsv.list?
    let ops ← ol.mapM (fun o => match o with
      | .list [.str "e", g] => do some (SensOp.enable (← Val.opt? Val.strs? g))
      | .list [.str "d"] => some SensOp.disable
      | .list [.str "o", outs] => do some (SensOp.setOutputs (← outs.strs?))
      | _ => none)
    match sensRun d pub { tables := tablesOf d, request := none } ops with
    | .error e => some [errVal (errName e)]
    | .ok s => some (reqVal s.request ++ [ofStrs s.tables.outputNames])
  | _ => none

/-- `C09.redhistory states consts inter public ops` with ops `[e]`, `[d]`, `[f mask|n values]`,
    `[o outs]` → request, has_sensitivities, free names -/
def redHistory : Op
  | [sv, cv, iv, pubv, opsv] => do
    let d ← parseDecl sv cv iv
    let pub ← pubv.strs?
    let ol ← opsv.list?
    let ops ← ol.mapM (fun o => match o with
      | .list [.str "e"] => some (RedOp.enable : RedOp String Float)
      | .list [.str "d"] => some RedOp.disable
      | .list [.str "s", pv] => do some (RedOp.simulate (← pv.flts?))
      | .list [.str "f", mv, vv] => do some (RedOp.fix (← parseFixed mv vv))
      | .list [.str "o", outs] => do some (RedOp.setOutputs (← outs.strs?))
      | _ => none)
    match redRun d pub { tables := tablesOf d, fixed := none, sensOn := false, request := none } ops with
    | .error e => some [errVal (errName e)]
    | .ok s =>
      let r : Reduced String Float := { names := pub, fixed := s.fixed }
      some (reqVal s.request ++ [.bool s.sensOn, ofStrs r.free, ofStrs s.tables.outputNames])
  | _ => none

/-- `C09.setoutputs states consts inter outputs` -/
def setOutputsOp : Op
  | [sv, cv, iv, ov] => do
    let d ← parseDecl sv cv iv
    let outs ← ov.strs?
    match setOutputs d (tablesOf d) outs with
    | .error e => some [errVal (errName e)]
    | .ok T => some [.str "ok", ofStrs T.outputNames, .int T.nOutputs]
  | _ => none

/-- `C09.grid legacy states consts inter outputs params nTimes` → shape of the result of `simulate`
    on a grid of `nTimes` points (the solver is irrelevant here: a constant stands in) -/
def grid : Op
  | [.bool legacy, sv, cv, iv, ov, pv, .int n] => do
    let d ← parseDecl sv cv iv
    let params ← pv.flts?
    match ← withOutputs d ov with
    | .error e => some [errVal (errName e)]
    | .ok T =>
      match simulateValues legacy (fun _ _ _ (_ : Nat) => (0.0 : Float)) (fun _ => 0.0) (fun _ => 0.0)
          d T params (List.range n.toNat) with
      | .error e => some [errVal (errName e)]
      | .ok rows => some [.str "ok", .int rows.length, ofNats (rows.map List.length)]
  | _ => none

def parsePairs (v : Val) : Option (List (String × String)) := do
  let l ← v.list?
  l.mapM (fun x => match x with
    | .list [.str a, .str b] => some (a, b)
    | _ => none)

/-- `C09.mapsens names0 ren1 administered states consts inter ren2 outputs given`:
    the name map after construction (`names0`), a renaming, optionally `set_administration`
    (declaration of the new model given), another renaming; then the public names and the request of
    `enable_sensitivities(True, given)` read through the map by position -/
def mapSens : Op
  | [n0v, r1v, .bool adm, sv, cv, iv, r2v, ov, gv] => do
    let names0 ← n0v.strs?
    let ren1 ← parsePairs r1v
    let ren2 ← parsePairs r2v
    let d ← parseDecl sv cv iv
    let given ← Val.opt? Val.strs? gv
    match ← withOutputs d ov with
    | .error e => some [errVal (errName e)]
    | .ok T =>
      let m1 := renameMap (identityMap names0) ren1
      let m2 := if adm then rebuildMap m1 T.parameterNames else m1
      let m3 := renameMap m2 ren2
      let pub := publicNames m3 T.parameterNames
      match enableSensMap T m3 given with
      | .error e => some [ofStrs pub, errVal (errName e)]
      | .ok (o, l) => some [ofStrs pub, .str "ok", ofStrs o, ofStrs (l.map sensName)]
  | _ => none

/-- `C09.dosehistory hasRegimen ops` with ops `[s enabled]`, `[r k]` (regimens are numbered; the one
    the model starts with is 0) → has_sensitivities, regimen of the model | n, protocol of the solver | n -/
def doseHistory : Op
  | [.bool has, opsv] => do
    let ol ← opsv.list?
    let ops ← ol.mapM (fun o => match o with
      | .list [.str "s", .bool b] => some (DoseOp.sens b : DoseOp Nat)
      | .list [.str "r", .int k] => some (DoseOp.setRegimen k.toNat)
      | _ => none)
    let r0 : Option Nat := if has then some 0 else none
    let s := doseRun { sensOn := false, regimen := r0, solver := r0 } ops
    let ov : Option Nat → Val := fun o => match o with
      | some k => .int k
      | none => .none
    some [.bool s.sensOn, ov s.regimen, ov s.solver]
  | _ => none

def ops : List (String × Op) :=
  [("C09.tables", tables), ("C09.simulate", simulate), ("C09.sens", sens),
   ("C09.reduced", reduced), ("C09.mapsens", mapSens), ("C09.grid", grid), ("C09.reducedsens", reducedSens), ("C09.senshistory", sensHistory),
   ("C09.redhistory", redHistory), ("C09.setoutputs", setOutputsOp),
   ("C09.dosehistory", doseHistory)]

end ChiDriver.C09
