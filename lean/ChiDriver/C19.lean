import ChiDriver.Common
import ChiDriver.C08
import ChiModel.Purity
import ChiModel.Ownership
open Wire ChiModel.Reduced ChiModel.Purity ChiModel.Ownership
namespace ChiDriver.C19

/-- `C19.seq names ops frees` → for every evaluation the full vector the wrapped object sees,
    and the final mask -/
def seq : Op
  | [namesV, opsV, freesV] => do
    let names ← namesV.strs?
    let ops ← (← opsV.list?).mapM ChiDriver.C08.parseReq
    let frees ← freesV.fltss?
    let nan : Float := 0.0 / 0.0
    let st := run names nan ops
    let r := evalSeq st (fun full => full) frees
    let mask := (view names nan r.1).map (fun x => Val.bool x.1)
    some [.list (r.2.map ofFlts), .list mask]
  | _ => none

/-- one step of a world program -/
inductive WStep where
  | new (k : Nat)
  | derive (src dst : Nat)
  | fix (k : Nat) (d : Req Float)
  | eval (k : Nat) (free : List Float)

def parseStep (v : Val) : Option WStep := do
  match v with
  | .list [.str "new", k] => some (.new (← k.nat?))
  | .list [.str "derive", s, d] => some (.derive (← s.nat?) (← d.nat?))
  | .list [.str "fix", k, r] => some (.fix (← k.nat?) (← ChiDriver.C08.parseReq r))
  | .list [.str "eval", k, f] => some (.eval (← k.nat?) (← f.flts?))
  | _ => none

/-- `C19.world names program cells` → the full vector the wrapped error model sees at every `eval`
    step, and the final mask of every listed cell.  Derived objects own a deep copy (`Ownership.deepCopy`). -/
def world : Op
  | [namesV, progV, cellsV] => do
    let names ← namesV.strs?
    let prog ← (← progV.list?).mapM parseStep
    let cells ← cellsV.nats?
    let nan : Float := 0.0 / 0.0
    let step : (Store Float × List Val) → WStep → (Store Float × List Val) := fun (σ, out) s =>
      match s with
      | .new k => (setCell σ k none, out)
      | .derive a b => (deepCopy σ a b, out)
      | .fix k d => (act names nan σ (.fix k d), out)
      | .eval k free => (act names nan σ (.eval k free), out ++ [ofFlts (evalFresh (σ k) (fun x => x) free)])
    let r := prog.foldl step ((fun _ => none), [])
    let masks := cells.map (fun k => Val.list ((view names nan (r.1 k)).map (fun x => Val.bool x.1)))
    some [.list r.2, .list masks]
  | _ => none

def ops : List (String × Op) := [("C19.seq", seq), ("C19.world", world)]
end ChiDriver.C19
