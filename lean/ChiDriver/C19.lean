import ChiDriver.Common
import ChiDriver.C08
import ChiModel.Purity
import ChiModel.Ownership
open Wire ChiModel.Reduced ChiModel.Purity ChiModel.Ownership
namespace ChiDriver.C19

/-- `C19.seq names ops frees` → for every evaluation the full vector the wrapped object sees,
    and the final mask -/
def seq : Op
  | [namesV, opsV, freesV] => do
    let names ← namesV.strs?
    let ops ← (← opsV.list?).mapM ChiDriver.C08.parseReq
    let frees ← freesV.fltss?
    let nan : Float := 0.0 / 0.0
    let st := run names nan ops
    let r := evalSeq st (fun full => full) frees
    let mask := (view names nan r.1).map (fun x => Val.bool x.1)
    some [.list (r.2.map ofFlts), .list mask]
  | _ => none

/-- one step of a world program -/
inductive WStep where
  | new (k : Nat)
  | derive (src dst : Nat)
  | fix (k : Nat) (d : Req Float)
  | eval (k : Nat) (free : List Float)

def parseStep (v : Val) : Option WStep := do
  match v with
  | .list [.str "new", k] => some (.new (← k.nat?))
  | .list [.str "derive", s, d] => some (.derive (← s.nat?) (← d.nat?))
  | .list [.str "fix", k, r] => some (.fix (← k.nat?) (← ChiDriver.C08.parseReq r))
  | .list [.str "eval", k, f] => some (.eval (← k.nat?) (← f.flts?))
  | _ => none

/-- `C19.world names program cells` → the full vector the wrapped error model sees at every `eval`
    step, and the final mask of every listed cell.  Derived objects own a deep copy (`Ownership.deepCopy`). -/
def world : Op
  | [namesV, progV, cellsV] => do
    let names ← namesV.strs?
    let prog ← (← progV.list?).mapM parseStep
    let cells ← cellsV.nats?
    let nan : Float := 0.0 / 0.0
    -- the store is kept as a table over the cells the program mentions and re-read into one after every step
    -- (a chain of closures `setCell (setCell …)` is re-evaluated at every lookup: exponential in the length)
    let mentioned := cells ++ prog.foldr (fun s acc => match s with
      | .new k => k :: acc
      | .derive a b => a :: b :: acc
      | .fix k _ => k :: acc
      | .eval k _ => k :: acc) []
    let ofTable : List (Nat × St Float) → Store Float := fun tbl b =>
      match tbl.find? (·.1 == b) with
      | some e => e.2
      | none => none
    let toTable : Store Float → List (Nat × St Float) := fun σ => mentioned.eraseDups.map (fun k => (k, σ k))
    let step : (List (Nat × St Float) × List Val) → WStep → (List (Nat × St Float) × List Val) := fun (tbl, out) s =>
      let σ := ofTable tbl
      match s with
      | .new k => (toTable (setCell σ k none), out)
      | .derive a b => (toTable (deepCopy σ a b), out)
      | .fix k d => (toTable (act names nan σ (.fix k d)), out)
      | .eval k free => (toTable (act names nan σ (.eval k free)), out ++ [ofFlts (evalFresh (σ k) (fun x => x) free)])
    let r0 := prog.foldl step ([], [])
    let r : Store Float × List Val := (ofTable r0.1, r0.2)
    let masks := cells.map (fun k => Val.list ((view names nan (r.1 k)).map (fun x => Val.bool x.1)))
    some [.list r.2, .list masks]
  | _ => none

/-- one step of a re-configuration program on a reduced mechanistic model / the likelihood above it -/
inductive RStep where
  | fix (d : Req Float)
  | sens (b : Bool)
  | sim (free : List Float)
  | eval (op : LLOp) (free : List Float)

def parseLLOp : Val → Option LLOp
  | .str "call" => some .call
  | .str "pw" => some .pointwise
  | .str "s1" => some .s1
  | _ => none

def parseRStep (v : Val) : Option RStep := do
  match v with
  | .list [.str "fix", r] => some (.fix (← ChiDriver.C08.parseReq r))
  | .list [.str "sens", b] => some (.sens (← b.bool?))
  | .list [.str "sim", f] => some (.sim (← f.flts?))
  | .list [.str "eval", o, f] => some (.eval (← parseLLOp o) (← f.flts?))
  | _ => none

/-- `C19.reconf names program` → for every `sim` / `eval` step what the wrapped mechanistic model is asked:
    the full parameter vector and the names its sensitivity columns belong to (`none` = no sensitivities);
    and the free names at the end -/
def reconf : Op
  | [namesV, progV] => do
    let names ← namesV.strs?
    let prog ← (← progV.list?).mapM parseRStep
    let nan : Float := 0.0 / 0.0
    let render : List Float × Option (List String) → Val := fun r =>
      .list [ofFlts r.1, match r.2 with | some cs => ofStrs cs | none => Val.none]
    let step : (MSt Float × List Val) → RStep → (MSt Float × List Val) := fun (m, out) s =>
      match s with
      | .fix d => (fixM names nan m d, out)
      | .sens b => (enableM names nan m b, out)
      | .sim free => let r := simM names nan m free; (r.1, out ++ [render r.2])
      | .eval op free => let r := llEvalM names nan m op free; (r.1, out ++ [render r.2])
    let r := prog.foldl step (MSt.init, [])
    some [.list r.2, ofStrs (freeOf names nan r.1.cfg)]
  | _ => none

def parseFAct (v : Val) : Option FAct := do
  match v with
  | .list [.str "build", s, d] => some (.build (← s.nat?) (← d.nat?))
  | .list [.str "sort", a, o] => some (.sort (← a.nat?) (← o.nats?))
  | _ => none

/-- `C19.construct n order program cells` → the measurement columns (numbers 0 … n-1 of the caller's data)
    held, after the program, by the filter object in every listed cell; cell 0 is the caller's filter -/
def constructOp : Op
  | [nV, orderV, progV, cellsV] => do
    let n ← nV.nat?
    let order ← orderV.nats?
    let prog ← (← progV.list?).mapM parseFAct
    let cells ← cellsV.nats?
    -- (kept as a table, re-read into a function after every step: see `world`)
    let mentioned := (0 :: cells ++ prog.foldr (fun s acc => match s with
      | .build a b => a :: b :: acc
      | .sort a _ => a :: acc) []).eraseDups
    let ofTable : List (Nat × List Nat) → FStore Nat := fun tbl b =>
      match tbl.find? (·.1 == b) with
      | some e => e.2
      | none => []
    let toTable : FStore Nat → List (Nat × List Nat) := fun σ => mentioned.map (fun k => (k, σ k))
    let σ0 : FStore Nat := fun b => if b = 0 then List.range n else []
    let r := prog.foldl (fun tbl s => toTable (fact order (ofTable tbl) s)) (toTable σ0)
    some [.list (cells.map (fun k => ofNats (ofTable r k)))]
  | _ => none

def ops : List (String × Op) := [("C19.seq", seq), ("C19.world", world), ("C19.reconf", reconf),
  ("C19.construct", constructOp)]
end ChiDriver.C19
