import ChiDriver.Common
import ChiDriver.C08
import ChiModel.Purity
open Wire ChiModel.Reduced ChiModel.Purity
namespace ChiDriver.C19

/-- `C19.seq names ops frees` → for every evaluation the full vector the wrapped object sees,
    and the final mask -/
def seq : Op
  | [namesV, opsV, freesV] => do
    let names ← namesV.strs?
    let ops ← (← opsV.list?).mapM ChiDriver.C08.parseReq
    let frees ← freesV.fltss?
    let nan : Float := 0.0 / 0.0
    let st := run names nan ops
    let r := evalSeq st (fun full => full) frees
    let mask := (view names nan r.1).map (fun x => Val.bool x.1)
    some [.list (r.2.map ofFlts), .list mask]
  | _ => none

def ops : List (String × Op) := [("C19.seq", seq)]
end ChiDriver.C19
