import ChiDriver.Common
import ChiModel.Inference
open Wire ChiModel ChiModel.Inference
namespace ChiDriver.C18

def errName : IErr → String
  | .valueError => "valueError"
  | .typeError => "typeError"
  | .keyError => "keyError"
  | .indexError => "indexError"

def selVal : Sel → List Val
  | .one k => [.str "one", ofNats [k]]
  | .many ks => [.str "many", ofNats ks]

def dictVal (d : Dict) : Val := .list (d.map (fun e => .list (.str e.1 :: selVal e.2)))

/-- `C18.format_chains names topNames nIds` → the dataset's variables with the chain positions -/
def formatOp : Op
  | [namesV, topV, .int n] => do
    let names ← namesV.strs?
    let top ← topV.strs?
    match formatChains names top n.toNat with
    | .error e => some [errVal (errName e)]
    | .ok d => some [.str "ok", dictVal d]
  | _ => none

def parseMap (v : Val) : Option (List (String × String)) := do
  (← v.list?).mapM (fun e => match e with
    | .list [.str a, .str b] => some (a, b)
    | _ => none)

/-- `C18.roundtrip names topNames nIds ids modelNames paramMap individual|n`
    → chain positions read for the model parameters -/
def roundtrip : Op
  | [namesV, topV, .int n, idsV, modelV, mapV, indV] => do
    let names ← namesV.strs?
    let top ← topV.strs?
    let ids ← idsV.strs?
    let model ← modelV.strs?
    let pm ← parseMap mapV
    let ind ← Val.opt? Val.str? indV
    match formatChains names top n.toNat with
    | .error e => some [errVal (errName e)]
    | .ok d =>
      match readback d ids model pm ind with
      | .error e => some [errVal (errName e)]
      | .ok cols => some [.str "ok", ofNats cols]
  | _ => none

def parseSubs (v : Val) : Option (List SubModel) := do
  (← v.list?).mapM (fun e => match e with
    | .list [.int n, .bool a, .bool b] => some ⟨n.toNat, a, b⟩
    | _ => none)

/-- `C18.init_row subs nIds topSample popSample` — the code as it is -/
def initOp : Op
  | [subsV, .int n, topV, popV] => do
    let subs ← parseSubs subsV
    let top ← topV.flts?
    let pop ← popV.fltss?
    match initRow subs n.toNat top pop with
    | .error e => some [errVal (errName e)]
    | .ok row => some [.str "ok", ofFlts row]
  | _ => none

/-- `C18.init_row_legacy subs nIds topSample popSample` — pre-fix (`isinstance`) -/
def initLegacyOp : Op
  | [subsV, .int n, topV, popV] => do
    let subs ← parseSubs subsV
    let top ← topV.flts?
    let pop ← popV.fltss?
    match initRowLegacy subs n.toNat top pop with
    | .error e => some [errVal (errName e)]
    | .ok row => some [.str "ok", ofFlts row]
  | _ => none

/-- `C18.init_row_filter subs topSample popSample eps` -/
def initFilterOp : Op
  | [subsV, topV, popV, epsV] => do
    let subs ← parseSubs subsV
    let top ← topV.flts?
    let pop ← popV.fltss?
    let eps ← epsV.flts?
    some [ofFlts (initRowFilter subs top pop eps)]
  | _ => none

/-- `C18.table ids names runs` with `runs = [[estimates, score], ...]` -/
def tableOp : Op
  | [idsV, namesV, runsV] => do
    let ids ← (← idsV.list?).mapM (Val.opt? Val.str?)
    let names ← namesV.strs?
    let runs ← (← runsV.list?).mapM (fun e => match e with
      | .list [est, .flt sc] => do some ((← est.flts?), sc)
      | _ => none)
    some [.list ((optTable ids names runs).map (fun r =>
      .list [match r.id with | some i => .str i | none => .none, .str r.param, .flt r.est,
             .flt r.score, .int r.run]))]
  | _ => none

/-- `C18.table_outcomes idSpec names outcomes`: `idSpec` = a label / `None` (individual posterior) or
    the list of per-parameter IDs; `outcomes` = per run `[estimates, score]` or `None` (broke down) -/
def tableOutcomesOp : Op
  | [idV, namesV, outsV] => do
    let pid ← match idV with
      | .list l => (l.mapM (Val.opt? Val.str?)).map PostId.perParam
      | v => (Val.opt? Val.str? v).map PostId.scalar
    let names ← namesV.strs?
    let outs ← (← outsV.list?).mapM (fun e => match e with
      | .none => some (none : Outcome Float)
      | .list [est, .flt sc] => do some (some ((← est.flts?), sc))
      | _ => none)
    match optTableOutcomes false false (0.0 / 0.0 : Float) pid names outs with
    | .error e => some [errVal (errName e)]
    | .ok t => some [.str "ok", .list (t.map (fun r =>
        .list [match r.id with | some i => .str i | none => .none, .str r.param, .flt r.est,
               .flt r.score, .int r.run]))]
  | _ => none

def parseStep (v : Val) : Option DStep :=
  match v with
  | .list [.bool dim, .str "sel", ls] => do some (dim, .selLabels (← ls.nats?))
  | .list [.bool dim, .str "from", k] => do some (dim, .fromLabel (← k.nat?))
  | .list [.bool dim, .str "thin", a, b] => do some (dim, .thin (← a.nat?) (← b.nat?))
  | .list [.bool dim, .str "shift", k] => do some (dim, .shift (← k.nat?))
  | _ => none

/-- `C18.derived steps nChains nDraws`: the dataset `_format_chains` returns for a raw array with
    `nChains` chains and `nDraws` draws, after the steps (`[onChain, op, args..]`) →
    labels and raw positions of the chain and the draw axis of the derived dataset, the same for the
    result of `compute_pointwise_loglikelihood`, and the chain-major rows a posterior predictive model draws from -/
def derivedOp : Op
  | [stepsV, .int nc, .int nd] => do
    let steps ← (← stepsV.list?).mapM parseStep
    match derive steps (Axis.ofRange nc.toNat, Axis.ofRange nd.toNat) with
    | .error e => some [errVal (errName e)]
    | .ok g =>
      let rc := resultAxis false g.1
      let rd := resultAxis false g.2
      some [.str "ok", ofNats g.1.labels, ofNats g.1.sources, ofNats g.2.labels, ofNats g.2.sources,
            ofNats rc.labels, ofNats rc.sources, ofNats rd.labels, ofNats rd.sources,
            .list ((matrixRows g).map (fun e => ofNats [e.1, e.2]))]
  | _ => none

/-- `C18.eps_slots nTop nBottomPerId nSim R T`: the positions a filter posterior reads as `ε[s, r, j]`, in the
    order (s, r, j) -/
def epsSlotsOp : Op
  | [.int nTop, .int nB, .int nSim, .int r, .int t] =>
    some [ofNats (epsSlots nTop.toNat nB.toNat nSim.toNat r.toNat t.toNat)]
  | _ => none

def ops : List (String × Op) :=
  [("C18.format_chains", formatOp), ("C18.roundtrip", roundtrip), ("C18.init_row", initOp), ("C18.init_row_legacy", initLegacyOp),
   ("C18.init_row_filter", initFilterOp), ("C18.table", tableOp),
   ("C18.table_outcomes", tableOutcomesOp), ("C18.derived", derivedOp), ("C18.eps_slots", epsSlotsOp)]

end ChiDriver.C18
