import ChiDriver.Common
import ChiModel.PopComposed
import ChiModel.ErfFloat
open Wire ChiModel
namespace ChiDriver.C05

def kindOf : String → Option Kind
  | "Gc" => some (.gauss true) | "Gn" => some (.gauss false)
  | "Lc" => some (.logn true) | "Ln" => some (.logn false)
  | "T" => some .trunc | "P" => some .pooled | "H" => some .hetero | _ => none

def errName : PErr → String
  | .valueError => "valueError"
  | .indexError => "indexError"
  | .notImplemented => "notImplemented"

def Val.fltsss? (v : Val) : Option (List (List (List Float))) := v.list? >>= (·.mapM Val.fltss?)

/-- `flat <list>` | `matrix <rows>` | `tensor <blocks>` -/
def layoutOf (kind : String) (v : Val) : Option (Layout Float) :=
  match kind with
  | "flat" => v.flts?.map .flat
  | "matrix" => v.fltss?.map .matrix
  | "tensor" => (Val.fltsss? v).map .tensor
  | _ => none

def upOf (v : Val) : Option (Option (Nat → Nat → Float)) :=
  match v with
  | .none => some none
  | _ => v.fltss?.map (fun r => some (matF r))

def ofFltss (l : List (List Float)) : Val := .list (l.map ofFlts)

/-- observations: a list of rows, or (1-D input) a list of floats -/
def obsOf (v : Val) : Option (ObsArg Float) :=
  match v.flts? with
  | some l => if l.isEmpty then (v.fltss?.map ObsArg.mat) else some (.vec l)
  | none => v.fltss?.map ObsArg.mat

/-- `C05.ll legacy kind nIds nDim layoutKind payload obs` → score | err -/
def ll : Op
  | [.bool legacy, .str k, .int nIds, .int nDim, .str lk, pv, obv] => do
    let kind ← kindOf k
    let lay ← layoutOf lk pv
    let obs ← obsOf obv
    if obs.view.1 ≠ nIds.toNat then none else
    match llLayout legacy kind nIds.toNat nDim.toNat lay obs.view.2 with
    | .error e => some [errVal (errName e)]
    | .ok s => some [scoreVal s]
  | _ => none

/-- `C05.sens legacy kind nIds nDim layoutKind payload obs up`
    → score, defined, dpsi rows, dtheta (n_ids, nPer, n_dim), flattened dtheta, reduced vector,
      n_bottom, n_top, n_parameters -/
def sens : Op
  | [.bool legacy, .str k, .int nIds, .int nDim, .str lk, pv, obv, upv] => do
    let kind ← kindOf k
    let lay ← layoutOf lk pv
    let obs ← obsOf obv
    let up ← upOf upv
    let n := nIds.toNat
    let nd := nDim.toNat
    if obs.view.1 ≠ n then none else
    match sensLayout legacy kind n nd lay obs.view.2 up with
    | .error e => some [errVal (errName e)]
    | .ok s =>
      let nh := kind.nHierParams n nd
      some [scoreVal s.score, .bool s.defined, ofFltss (psiRows n nd s.dpsi),
        .list ((shapeSeparate kind n nd s).map ofFltss), ofFlts (shapeFlattened kind n nd s),
        ofFlts (shapeReduce kind n nd s), .int nh.1, .int nh.2, .int (kind.nParams n nd)]
  | _ => none

def psiVal : PsiVal Float → Val
  | .val x => .flt x
  | .nan => .str "nan"
  | .notImpl => .str "notImpl"

/-- `C05.indiv legacy kind storedIds nDim layoutKind payload etaKind eta returnEta` → rows | err -/
def indiv : Op
  | [.bool legacy, .str k, .int sIds, .int nDim, .str lk, pv, .str ek, ev, .bool ret] => do
    let kind ← kindOf k
    let lay ← layoutOf lk pv
    let eta ← match ek with
      | "mat" => ev.fltss?.map EtaArg.mat
      | "flat" => ev.flts?.map EtaArg.flat
      | _ => none
    match indivLayout legacy kind sIds.toNat nDim.toNat lay eta ret with
    | .error e => some [errVal (errName e)]
    | .ok rows => some [.list (rows.map (fun r => .list (r.map psiVal)))]
  | _ => none

def pairsOf (v : Val) : Option (List (Nat × Nat)) := do
  let l ← v.list?
  l.mapM (fun e => match e with
    | .list [.int p, .int d] => some (p.toNat, d.toNat)
    | _ => none)

/-- sub-models: `[kind, nDim]` (bare) or `[kind, nDim, nCov, [[p, d], …]]` (covariate-wrapped,
    stored selection) -/
def subsOf (v : Val) : Option (List SubModel) := do
  let l ← v.list?
  l.mapM (fun e => match e with
    | .list [.str k, .int nd] => (kindOf k).map (fun kk => ⟨kk, nd.toNat, 0, []⟩)
    | .list [.str k, .int nd, .int nc, sel] => do
      let kk ← kindOf k
      let ps ← pairsOf sel
      some ⟨kk, nd.toNat, nc.toNat, ps⟩
    | _ => none)

/-- `C05.composed nIds subs params obs cov up`
    → ll (loop), ll (specification), separate: score defined dpsi-rows dtheta,
      reduced: score defined vector, n_bottom, n_top, n_parameters, n_dim, n_covariates -/
def composed : Op
  | [.int nIds, sv, pv, obv, cvv, upv] => do
    let subs ← subsOf sv
    let params ← pv.flts?
    let obs ← obv.fltss?
    let covs ← cvv.fltss?
    let up ← upOf upv
    let n := nIds.toNat
    if params.length ≠ composedNParams n subs then some [errVal "badLength"] else
    let P := vecF params
    let O := matF obs
    let C := matF covs
    let sep := composedSens n subs P O C up
    let red := composedReduced n subs P O C up
    let nh := composedNHier n subs
    some [scoreVal (composedLL n subs P O C), scoreVal (composedLLSpec n subs P O C),
      scoreVal sep.score, .bool sep.defined,
      ofFltss ((List.range n).map (fun i => sep.cols.map (fun c => c i))), ofFlts sep.dtheta,
      scoreVal red.1, .bool red.2.1, ofFlts red.2.2, .int nh.1, .int nh.2,
      .int (composedNParams n subs), .int (composedNDim subs), .int (composedNCov subs)]
  | _ => none

/-- `C05.pointwise kind nIds nDim layoutKind payload obs` → rows of scores | err -/
def pointwise : Op
  | [.str k, .int nIds, .int nDim, .str lk, pv, obv] => do
    let kind ← kindOf k
    let lay ← layoutOf lk pv
    let obs ← obv.fltss?
    match pointwiseLayout kind nIds.toNat nDim.toNat lay (matF obs) with
    | .error e => some [errVal (errName e)]
    | .ok rows => some [.list (rows.map (fun r => .list (r.map scoreVal)))]
  | _ => none

/-- `C05.reducedHier nBottom mask vec` → filtered hierarchical vector | err indexError -/
def reducedHierOp : Op
  | [.int nb, .list mask, vv] => do
    let m ← mask.mapM Val.bool?
    let v ← vv.flts?
    match reducedHier nb.toNat m v with
    | none => some [errVal "indexError"]
    | some r => some [ofFlts r, .int (Int.ofNat (nFree m))]
  | _ => none

def ops : List (String × Op) :=
  [("C05.ll", ll), ("C05.sens", sens), ("C05.indiv", indiv), ("C05.composed", composed),
   ("C05.pointwise", pointwise), ("C05.reducedHier", reducedHierOp)]

end ChiDriver.C05
