import ChiDriver.Common
import ChiModel.ShapeEta
import ChiModel.TopNames
open Wire ChiModel
namespace ChiDriver.C02

def kindOf : Nat → Option Kind
  | 0 => some (.gauss true) | 1 => some (.gauss false) | 2 => some (.logn true)
  | 3 => some (.logn false) | 4 => some .trunc | 5 => some .pooled | 6 => some .hetero | _ => none

/-- `[kind, nDim, nCov, [[p,d],…]]` -/
def parseSub (v : Val) : Option SubModel := do
  match v with
  | .list [k, nd, nc, sel] =>
    let kind ← kindOf (← k.nat?)
    let pairs ← (← sel.list?).mapM (fun e => match e with
      | .list [.int p, .int d] => some (p.toNat, d.toNat)
      | _ => none)
    some ⟨kind, ← nd.nat?, ← nc.nat?, pairs⟩
  | _ => none

def psiVal : PsiVal Float → Val
  | .val x => .flt x
  | .nan => .str "nan"
  | .notImpl => .str "notImpl"

/-- `C02.call legacyTrunc nIds subs params cov llNames topNames ids` →
    popScore, psi rows, names, ids, nBottom, nTop, the reshaped eta rows of `_shape_eta` -/
def call : Op
  | [.bool lt, .int nIds, subsV, paramsV, covV, llNamesV, topNamesV, idsV] => do
    let nIds := nIds.toNat
    let subs ← (← subsV.list?).mapM parseSub
    let params ← paramsV.flts?
    let covRows ← covV.fltss?
    let cov : Nat → Nat → Float := matF covRows
    let llNames ← llNamesV.strs?
    let topNames ← topNamesV.strs?
    let ids ← idsV.strs?
    let nH := totHier subs
    let nBottom := nIds * nH
    let nTop := totTop subs nIds
    let names := hierNames subs nIds llNames topNames
    let idl := hierIds nIds nBottom nTop ids
    let idv := Val.list (idl.map (fun x => match x with | some s => .str s | none => .none))
    -- chi-faithful `_shape_eta` of every individual's row
    let shaped := (List.range nIds).map (fun i =>
      let row : Nat → Option Float := fun c => if c < nH then some ((vecF params) (i * nH + c)) else none
      (List.range (totDim subs)).map (fun D =>
        match ShapeEta.shapeRow (totDim subs) (specialBlocks subs 0) row D with
        | some x => Val.flt x | none => Val.none))
    match hierCall lt nIds subs params cov with
    | .error .notImplemented => some [errVal "notImplemented"]
    | .error .badLength => some [errVal "valueError"]
    | .ok out =>
      some [scoreVal out.popScore, .list (out.psi.map (fun r => .list (r.map psiVal))),
        ofStrs names, idv, .int nBottom, .int nTop, .list (shaped.map .list)]
  | _ => none

/-- `C02.total popScore [L_i]`: the accumulation in `HierarchicalLogLikelihood.__call__` -/
def total : Op
  | [pop, lsV] => do
    let toScore : Val → Option (Score Float) := fun v => match v with
      | .flt x => if x.isNaN then some .undefined else if x == -(1.0/0.0) then some .negInf else some (.val x)
      | .str "neginf" => some .negInf
      | .str "undef" => some .undefined
      | _ => none
    let p ← toScore pop
    let ls ← (← lsV.list?).mapM toScore
    match p with
    | .negInf => some [scoreVal .negInf]
    | sc => some [scoreVal (ls.foldl (fun acc l => Score.add acc l) sc)]
  | _ => none

/-! ## population-level names under a call history (`ChiModel/TopNames.lean`) -/

def escSp (s : String) : String := s.replace " " "%20"
def ofNames (l : List String) : Val := ofStrs (l.map escSp)

/-- `[0]` reset · `[1, names]` rename · `[2, dims]` set_dim_names · `[3, n]` set_n_ids ·
    `[4, k]` reset of sub-model k · `[5, mask, names]` rename through a reduced model -/
def parseNameOp (v : Val) : Option TopNames.Op := do
  match v with
  | .list [.int 0] => some .reset
  | .list [.int 1, names] => some (.rename (← names.strs?))
  | .list [.int 2, dims] => some (.setDims (← dims.strs?))
  | .list [.int 3, n] => some (.setNIds (← n.nat?))
  | .list [.int 4, k] => some (.resetSub (← k.nat?))
  | .list [.int 5, mask, names] => some (.renameFree (← (← mask.list?).mapM Val.bool?) (← names.strs?))
  | _ => none

/-- `C02.names composed subs nIds0 ops` → the names the population model publishes after
    construction and after every call of the history (a call that raises ends the list with the
    error) -/
def names : Op
  | [.bool composed, subsV, nIds0V, opsV] => do
    let subs ← (← subsV.list?).mapM parseSub
    let nIds0 ← nIds0V.nats?
    let ops ← (← opsV.list?).mapM parseNameOp
    if nIds0.length ≠ subs.length then none else
    let rec go (sts : List TopNames.St) (ops : List TopNames.Op) (acc : List Val) : List Val :=
      match ops with
      | [] => acc.reverse
      | op :: rest =>
        match TopNames.step subs sts op with
        | .error _ => (errVal "valueError" :: acc).reverse
        | .ok sts' => go sts' rest (ofNames (TopNames.pubAll subs sts') :: acc)
    let st0 := TopNames.initAll composed subs nIds0
    some [.list (go st0 ops [ofNames (TopNames.pubAll subs st0)])]
  | _ => none

def ops : List (String × Op) := [("C02.call", call), ("C02.total", total), ("C02.names", names)]
end ChiDriver.C02
