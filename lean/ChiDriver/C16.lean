import ChiDriver.Common
import ChiModel.Seeds
open Wire ChiModel ChiModel.Seeds
namespace ChiDriver.C16

/-! wire forms
  stream   : [ sS i<s> ] | [ sLS i<s> ] | [ sE i<u> ] | [ sLE i<u> ] | [ sLU ] | [ sLD <stream> i<call> ]
  seed     : n | i<s> | [ sgen <stream> i<ctr> ]
  world    : [ <stream> i<ctr> i<freshU> ]
  sub      : [ s<elem> i<nDim> t|u ]
  pop      : [ ssingle <sub> ] | [ scomposed [ <sub>* ] ]
  spec     : [ sindiv [ s<kind>* ] ] | [ spop <pop> [ s<kind>* ] ]
  entry    : [ serror s<kind> i<nT> i<nS> ] | [ spopulation <pop> i<n> ] | [ spredictive [kinds] i<nT> i<nS> ]
           | [ spopPredictive <pop> [kinds] i<nT> i<n> ] | [ spriorPredictive <spec> i<nT> i<n> ]
           | [ sposteriorPredictive <spec> i<nT> i<n> ] | [ spam [ [ <spec> i<cnt> ]* ] i<nT> ]
           | [ sinitLogPosterior i<n> ] | [ sinitHierarchical <pop> i<nIds> i<nEps> i<n> ]
-/

partial def parseStream : Val → Option StreamId
  | .list [.str "S", .int s] => some (.seeded s)
  | .list [.str "LS", .int s] => some (.legacySeeded s)
  | .list [.str "E", .int u] => some (.entropy u.toNat)
  | .list [.str "LE", .int u] => some (.legacyEntropy u.toNat)
  | .list [.str "LU"] => some .legacyUnseeded
  | .list [.str "LD", p, .int k] => (parseStream p).map (fun q => .legacyDerived q k.toNat)
  | _ => none

partial def streamVal : StreamId → Val
  | .seeded s => .list [.str "S", .int s]
  | .legacySeeded s => .list [.str "LS", .int s]
  | .entropy u => .list [.str "E", .int u]
  | .legacyEntropy u => .list [.str "LE", .int u]
  | .legacyUnseeded => .list [.str "LU"]
  | .legacyDerived p k => .list [.str "LD", streamVal p, .int k]

def parseSeed : Val → Option SeedArg
  | .none => some .none
  | .int s => some (.int s)
  | .list [.str "gen", st, .int c] => (parseStream st).map (fun q => .gen ⟨q, c.toNat⟩)
  | _ => none

def seedVal : SeedArg → Val
  | .none => .none
  | .int s => .int s
  | .gen g => .list [.str "gen", streamVal g.stream, .int g.ctr]

def parseWorld : Val → Option World
  | .list [st, .int c, .int u] => (parseStream st).map (fun q => ⟨⟨q, c.toNat⟩, u.toNat⟩)
  | _ => none

def emOf : String → Option EM
  | "G" => some .gauss | "M" => some .mult | "CM" => some .cm | "LN" => some .ln | _ => none

def parseKinds (v : Val) : Option (List EM) := do (← v.strs?).mapM emOf

def elemOf : String → Option Elem
  | "gaussian" => some .gaussian | "logNormal" => some .logNormal | "pooled" => some .pooled
  | "hetero" => some .hetero | "truncGauss" => some .truncGauss | _ => none

def parseSub : Val → Option SubModel
  | .list [.str e, .int d, .bool c] => (elemOf e).map (fun el => ⟨el, d.toNat, c⟩)
  | _ => none

def parsePop : Val → Option Pop
  | .list [.str "single", m] => (parseSub m).map Pop.single
  | .list [.str "composed", .list ms] => (ms.mapM parseSub).map Pop.composed
  | _ => none

def parseSpec : Val → Option PredSpec
  | .list [.str "indiv", ks] => (parseKinds ks).map PredSpec.indiv
  | .list [.str "pop", p, ks] => do some (.pop (← parsePop p) (← parseKinds ks))
  | _ => none

def parseEntry : Val → Option Entry
  | .list [.str "error", .str k, .int nT, .int nS] => (emOf k).map (fun e => .error e nT.toNat nS.toNat)
  | .list [.str "population", p, .int n] => (parsePop p).map (fun q => .population q n.toNat)
  | .list [.str "predictive", ks, .int nT, .int nS] =>
    (parseKinds ks).map (fun q => .predictive q nT.toNat nS.toNat)
  | .list [.str "popPredictive", p, ks, .int nT, .int n] => do
    some (.popPredictive (← parsePop p) (← parseKinds ks) nT.toNat n.toNat)
  | .list [.str "priorPredictive", sp, .int nT, .int n] =>
    (parseSpec sp).map (fun q => .priorPredictive q nT.toNat n.toNat)
  | .list [.str "posteriorPredictive", sp, .int nT, .int n] =>
    (parseSpec sp).map (fun q => .posteriorPredictive q nT.toNat n.toNat)
  | .list [.str "pam", .list ms, .int nT] => do
    let models ← ms.mapM (fun m => match m with
      | .list [sp, .int c] => (parseSpec sp).map (fun q => (q, c.toNat))
      | _ => none)
    some (.pam models nT.toNat)
  | .list [.str "initLogPosterior", .int n] => some (.initLogPosterior n.toNat)
  | .list [.str "initHierarchical", p, .int nIds, .int nEps, .int n] =>
    (parsePop p).map (fun q => .initHierarchical q nIds.toNat nEps.toNat n.toNat)
  | _ => none

def kindName : Seeds.Kind → String
  | .normal => "normal" | .choice => "choice" | .choiceRow => "choiceRow" | .seedInt => "seedInt"
  | .legacyUniform => "legacyUniform" | .legacyChoice => "legacyChoice" | .prior => "prior"

def readVal (r : Read) : Val := .list [streamVal r.stream, .int r.call, .int r.pos]
def cellVal (c : Cell) : Val :=
  .list [.int c.unit, .int c.out, .int c.time, .list (c.par.map readVal), .list (c.noise.map readVal)]
def callVal (c : Call) : Val := .list [streamVal c.stream, .int c.idx, .str (kindName c.kind), .int c.size]

/-- `C16.run sharedSeed globalChoice entry seed world`
    → cells, calls, alloc reads, err, seed object afterwards, global generator afterwards -/
def runWith (v : Variant) (ev sv wv : Val) : Option (List Val) := do
    let e ← parseEntry ev
    let sd ← parseSeed sv
    let w ← parseWorld wv
    let r := e.run v sd w
    some [.list (r.1.1.cells.map cellVal), .list (r.1.1.calls.map callVal),
          .list (r.1.1.alloc.map readVal), .bool r.1.1.err, seedVal r.1.2,
          .list [streamVal r.2.glob.stream, .int r.2.glob.ctr, .int r.2.freshU]]

/-- optional third variant argument: the integer `PriorPredictiveModel` drew from a `Generator` seed
    (repaired behaviour), `n` for the code as it is -/
def run : Op
  | [.bool sh, .bool gc, ev, sv, wv] => runWith ⟨sh, gc, none⟩ ev sv wv
  | [.bool sh, .bool gc, .none, ev, sv, wv] => runWith ⟨sh, gc, none⟩ ev sv wv
  | [.bool sh, .bool gc, .int pg, ev, sv, wv] => runWith ⟨sh, gc, some pg⟩ ev sv wv
  | _ => none

def ops : List (String × Op) := [("C16.run", run)]
end ChiDriver.C16
