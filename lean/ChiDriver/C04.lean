import ChiDriver.Common
import ChiModel.ErrorModels
open Wire ChiModel
namespace ChiDriver.C04

/-- `C04.em <kind> <sig:list> <ybar:list> <obs:list> <S: list of rows>`
    → score, pointwise list, gradient list (mechanistic block then error parameters) -/
def em : Op
  | [.str m, sigv, ybv, obv, Sv] => do
    let sig ← sigv.flts?
    let ybl ← ybv.flts?
    let obl ← obv.flts?
    let Sl ← Sv.fltss?
    let n := ybl.length
    if obl.length ≠ n then return [errVal "lengthMismatch"]
    let p := (Sl.getD 0 []).length
    let yb := vecF ybl
    let ob := vecF obl
    let S := matF Sl
    let s0 := sig.getD 0 0.0
    let s1 := sig.getD 1 0.0
    let js := List.range n
    let cs := List.range p
    match m with
    | "G" => some [scoreVal (gaussLL n s0 yb ob), ofFlts (js.map (gaussPW s0 yb ob)),
        ofFlts (cs.map (gaussDPsi n s0 yb ob S) ++ [gaussDSigma n s0 yb ob])]
    | "M" => some [scoreVal (multLL n s0 yb ob), ofFlts (js.map (multPW s0 yb ob)),
        ofFlts (cs.map (multDPsi n s0 yb ob S) ++ [multDSrel n s0 yb ob])]
    | "CM" => some [scoreVal (cmLL n s0 s1 yb ob), ofFlts (js.map (cmPW s0 s1 yb ob)),
        ofFlts (cs.map (cmDPsi n s0 s1 yb ob S) ++ [cmDSb n s0 s1 yb ob, cmDSr n s0 s1 yb ob])]
    | "LN" => some [scoreVal (lnLL n s0 yb ob), ofFlts (js.map (lnPW s0 yb ob)),
        ofFlts (cs.map (lnDPsi n s0 yb ob S) ++ [lnDSigma n s0 yb ob])]
    | _ => none
  | _ => none

def ops : List (String × Op) := [("C04.em", em)]

end ChiDriver.C04
