import ChiDriver.Common
import ChiDriver.C16
import ChiModel.Predictive
open Wire ChiModel ChiModel.Seeds ChiModel.Pred
namespace ChiDriver.C15

/-- `C15.transform [ [kind sig ybar z]* ]` → values (`ErrorModel.sample` as a function of its variates) -/
def transform : Op
  | [.list items] => do
    let vals ← items.mapM (fun it => match it with
      | .list [.str k, sigv, .flt yb, zv] => do
        let e ← C16.emOf k
        some (Val.flt (emTransform e (← sigv.flts?) yb (← zv.flts?)))
      | _ => none)
    some [.list vals]
  | _ => none

/-- `C15.pop logNormal centered mu sigma z` → what `sample` returns, what
    `compute_individual_parameters` makes of it -/
def pop : Op
  | [.bool ln, .bool cen, .flt mu, .flt sg, .flt z] =>
    some [.flt (popSampleStage ln cen mu sg z), .flt (popIndividual ln cen mu sg z)]
  | _ => none

/-- `C15.sortTimes [bits*]` (non-negative doubles as bit patterns: order-isomorphic) -/
def sortT : Op
  | [v] => do
    let ts ← v.nats?
    some [ofNats (sortTimes (fun a b => decide (a < b)) ts)]
  | _ => none

def parseOptF : Val → Option (Option Float)
  | .none => some none
  | .flt x => some (some x)
  | _ => none

def parseVar : Val → Option (PostVar Float)
  | .list [.bool hi, .bool dm, .list chains] => do
    let vals ← chains.mapM (fun ch => do
      let ds ← ch.list?
      ds.mapM (fun d => do (← d.list?).mapM parseOptF))
    some ⟨hi, dm, vals⟩
  | _ => none

def optVal : Option Float → Val
  | none => .none
  | some x => .flt x

/-- `C15.posterior [vars] individualIndex` → ok?, columns, layout of every variable, keptAll -/
def posterior : Op
  | [.list vs, .int i] => do
    let vars ← vs.mapM parseVar
    let lay := Val.list (vars.map (fun v => .list ((v.layout i.toNat).map (fun cd =>
      .list [.int cd.1, .int cd.2]))))
    match posteriorColumns vars i.toNat with
    | none => some [.bool false, .list [], lay, ofNats (keptAll vars i.toNat)]
    | some cols => some [.bool true, .list (cols.map (fun c => .list (c.map optVal))), lay,
        ofNats (keptAll vars i.toNat)]
  | _ => none

/-- `C15.pam nModels [draws] [weights]` → counts, model of every ID, normalised weights -/
def pam : Op
  | [.int k, dv, wv] => do
    let draws ← dv.nats?
    let ws ← wv.flts?
    some [ofNats (pamCounts k.toNat draws), ofNats (pamIdModels k.toNat draws), ofFlts (normalise ws)]
  | _ => none

def rowVal (r : Row) : Val := .list [.int r.id, .int r.time, .int r.obs]

/-- `C15.table kind nOut nT n [counts]` → rows `[id timeIndex obs]` (+ source position for the
    population table) -/
def table : Op
  | [.str "predictive", .int nOut, .int nT, .int n, _] =>
    some [.list ((predictiveTable nOut.toNat nT.toNat n.toNat).map rowVal)]
  | [.str "population", .int nOut, .int nT, .int n, _] =>
    some [.list ((popTable nOut.toNat nT.toNat n.toNat).map (fun rv =>
      .list [rowVal rv.1, .list [.int rv.2.1, .int rv.2.2.1, .int rv.2.2.2]]))]
  | [.str "averaged", .int nOut, .int nT, .int n, _] =>
    some [.list ((averagedTable nOut.toNat nT.toNat n.toNat).map rowVal)]
  | [.str "pam", .int nOut, .int nT, _, cv] => do
    let cnts ← cv.nats?
    some [.list ((pamTable nOut.toNat nT.toNat 0 cnts).map rowVal)]
  | [.str "covariates", .int nCov, _, .int n, _] =>
    some [.list ((covariateRows nCov.toNat n.toNat).map (fun p => .list [.int p.1, .int p.2]))]
  | [.str "doses", .int nDoses, _, .int n, _] =>
    some [.list ((doseRows nDoses.toNat n.toNat).map (fun p => .list [.int p.1, .int p.2]))]
  | _ => none

/-- `C15.nids legacy nStored nDrawn` → number of patients `PopulationPredictiveModel.sample` simulates
    for a heterogeneous dimension, what the loop of the bare model does with them, the number for a pooled
    dimension, whether a composed model accepts the individuals -/
def nids : Op
  | [.bool legacy, .int nStored, .int nDrawn] =>
    let stored : List (List Float) := (List.range nStored.toNat).map (fun _ => [0.0])
    let eta : List (List Float) := (List.range nDrawn.toNat).map (fun _ => [0.0])
    let pats := (popPredHetero legacy stored eta).length
    let pooled := (pooledIndividuals [0.0] eta).length
    let acc := composedAccepts legacy stored eta
    match fillColumns nDrawn.toNat pats with
    | .error e => some [.int pats, errVal e, .int pooled, .bool acc]
    | .ok cols => some [.int pats, .list (cols.map .bool), .int pooled, .bool acc]
  | _ => none

def ops : List (String × Op) :=
  [("C15.transform", transform), ("C15.pop", pop), ("C15.sortTimes", sortT), ("C15.posterior", posterior),
   ("C15.pam", pam), ("C15.table", table), ("C15.nids", nids)]
end ChiDriver.C15
