import ChiDriver.Common
import ChiModel.Samplers
import ChiModel.PopComposed
open Wire ChiModel
namespace ChiDriver.C06

/-! line-protocol ops of C06 (samplers as transformations of primitive draws) -/

def emOf : String → Option EM
  | "G" => some .gauss
  | "M" => some .mult
  | "CM" => some .cm
  | "LN" => some .ln
  | _ => none

def kindOf : String → Option Kind
  | "Gc" => some (.gauss true)
  | "Gn" => some (.gauss false)
  | "Lc" => some (.logn true)
  | "Ln" => some (.logn false)
  | "T" => some .trunc
  | "P" => some .pooled
  | "H" => some .hetero
  | _ => none

def fltss (rows : List (List Float)) : Val := .list (rows.map ofFlts)

/-- `C06.em.ndraws <kind> <nT> <n_samples|n>` → number of standard-normal draws consumed -/
def emNDrawsOp : Op
  | [.str m, ntv, nv] => do
    let k ← emOf m
    let nT ← ntv.nat?
    let n ← nv.opt? Val.nat?
    some [.int (Int.ofNat (emNDraws k nT (nSamplesOf n)))]
  | _ => none

/-- `C06.em.sample <kind> <sig> <ybar> <n_samples|n> <z>` → rows | err -/
def emSampleOp : Op
  | [.str m, sigv, ybv, nv, zv] => do
    let k ← emOf m
    let sig ← sigv.flts?
    let yb ← ybv.flts?
    let n ← nv.opt? Val.nat?
    let z ← zv.flts?
    match emSample k sig yb n (vecF z) with
    | .error _ => some [errVal "valueError"]
    | .ok rows => some [fltss rows]
  | _ => none

/-- `C06.reduced <mask|n> <values> <free>` → the parameter vector handed to the wrapped model -/
def reducedOp : Op
  | [mv, vv, fv] => do
    let mask ← mv.opt? (fun v => v.list? >>= (·.mapM Val.bool?))
    let vals ← vv.flts?
    let free ← fv.flts?
    some [ofFlts (reducedParams mask vals free)]
  | _ => none

/-- `C06.reduced.history <mask> <values> <hist> <free>` → the vector the wrapped model receives in a call
    with `free` after the calls of `hist` on the same reduced model -/
def reducedHistoryOp : Op
  | [mv, vv, hv, fv] => do
    let mask ← mv.list? >>= (·.mapM Val.bool?)
    let vals ← vv.flts?
    let hist ← hv.fltss?
    let free ← fv.flts?
    some [ofFlts (reducedCall mask vals hist free)]
  | _ => none

def subOf : Val → Option SubModel
  | .list [.str k, nd, nc, selv] => do
    let kind ← kindOf k
    let nDim ← nd.nat?
    let nCov ← nc.nat?
    let sel ← selv.natss?
    let pairs ← sel.mapM (fun l => match l with | [p, d] => some (p, d) | _ => none)
    some ⟨kind, nDim, nCov, pairs⟩
  | _ => none

def reqVal : Req Float → Val
  | .normals n => .list [.str "normals", .int (Int.ofNat n)]
  | .indices hi n => .list [.str "indices", .int (Int.ofNat hi), .int (Int.ofNat n)]
  | .trunc g a rows => .list [.str "trunc", .bool g, ofFlts a, .int (Int.ofNat rows)]

def fulOf : Val → Option (Ful Float)
  | .list [.str "f", l] => (l.flts?).map Ful.flts
  | .list [.str "n", l] => (l.nats?).map Ful.nats
  | _ => none

structure Setup where
  subs : List SubModel
  nIds : Nat
  nS : Nat
  params : Nat → Float
  cov : Nat → Nat → Float
  ok : Bool

/-- common argument handling of the three entry points (`elem`: an elementary model called
    directly, `cov`: a `CovariatePopulationModel` called directly, `composed`) -/
def setup (mode : String) (subsV nIdsV nV parV covV : Val) : Option Setup := do
  let subs ← subsV.list? >>= (·.mapM subOf)
  let nIds ← nIdsV.nat?
  let n ← nV.opt? Val.nat?
  let par ← parV.flts?
  let covRows ← covV.fltss?
  let nS := match mode, subs with
    | "elem", [s] => elemRows s.kind n
    | _, _ => nSamplesOf n
  let nCovTot := totalCov subs
  let covOk :=
    if nCovTot = 0 then true
    else covRows.all (fun r => r.length == nCovTot) && (covRows.length == 1 || covRows.length == nS)
  let parOk := par.length == totalTop nIds subs
  let shapeOk := match mode, subs with
    | "elem", [s] => s.nCov == 0
    | "cov", [s] => s.nCov != 0
    | "composed", _ => true
    | _, _ => false
  if !shapeOk then none else
  let cov : Nat → Nat → Float := fun i c =>
    if covRows.length == 1 then (covRows.getD 0 []).getD c 0.0 else (covRows.getD i []).getD c 0.0
  let params := vecF par
  some ⟨subs, nIds, nS, params, cov, covOk && parOk && composedOk nIds nS params cov subs 0 0⟩

/-- `C06.pop.plan <mode> <subs> <nIds> <n_samples|n> <params> <cov rows> <fromGen>` → requests | err -/
def popPlanOp : Op
  | [.str mode, subsV, nIdsV, nV, parV, covV, gV] => do
    let st ← setup mode subsV nIdsV nV parV covV
    let g ← gV.bool?
    if !st.ok then return [errVal "valueError"]
    let fromGen := if mode == "elem" then g else true
    some [.list ((composedPlan st.nIds st.nS st.params st.cov fromGen st.subs 0 0).map reqVal),
      .int (Int.ofNat st.nS)]
  | _ => none

/-- `C06.pop.sample <mode> <subs> <nIds> <n_samples|n> <params> <cov rows> <fulfilled>` → matrix | err -/
def popSampleOp : Op
  | [.str mode, subsV, nIdsV, nV, parV, covV, fsV] => do
    let st ← setup mode subsV nIdsV nV parV covV
    let fs ← fsV.list? >>= (·.mapM fulOf)
    if !st.ok then return [errVal "valueError"]
    let nD := totalDim st.subs
    some [fltss ((List.range st.nS).map fun r => (List.range nD).map fun d =>
      composedEntry st.nIds st.nS st.params st.cov fs st.subs 0 0 0 0 r d)]
  | _ => none

def psiVal : PsiVal Float → Val
  | .val x => .flt x
  | .nan => .str "nan"
  | .notImpl => .str "err:notImplemented"

/-- `C06.pop.psi <mode> <subs> <nIds> <params> <cov rows> <eta rows> <legacy|repaired|intended>` → matrix of
    individual parameters | err. An elementary heterogeneous model (mode `elem`) returns
    `heteroPsiRows` rows; inside a composed model the block is broadcast into the rows of `eta`. -/
def popPsiOp : Op
  | [.str mode, subsV, nIdsV, parV, covV, etaV, legV] => do
    let eta ← etaV.fltss?
    let leg ← match legV with
      | .str "legacy" => some HetVariant.legacy
      | .str "repaired" => some HetVariant.repaired
      | .str "intended" => some HetVariant.intended
      | _ => none
    let st ← setup mode subsV nIdsV (.int (Int.ofNat eta.length)) parV covV
    let nD := totalDim st.subs
    let e := matF eta
    let nRows := eta.length
    let outRows := match mode, st.subs with
      | "elem", [s] => if s.kind == .hetero then heteroPsiRows leg st.nIds nRows else nRows
      | _, _ => nRows
    if mode == "composed" && !composedPsiOk leg st.nIds nRows st.subs then
      return [errVal "valueError"]
    some [.list ((List.range outRows).map fun r => .list ((List.range nD).map fun d =>
      psiVal (composedPsi leg st.nIds nRows st.params st.cov e st.subs 0 0 0 r d)))]
  | _ => none

/-- erf(x) = 2/√π · e^{-x²} · Σ_{n≥0} 2^n x^{2n+1} / (1·3·…·(2n+1)); all terms positive -/
partial def erfGo (x2 : Float) (n : Nat) (term acc : Float) : Float :=
  let acc' := acc + term
  if acc' == acc || n > 400 then acc else
  erfGo x2 (n + 1) (term * 2.0 * x2 / (2.0 * Float.ofNat n + 3.0)) acc'

def erfF (x : Float) : Float :=
  let ax := x.abs
  if ax > 6.0 then (if x > 0 then 1.0 else -1.0) else
  let x2 := ax * ax
  let s := erfGo x2 0 ax 0.0
  let r := 2.0 / Float.sqrt 3.141592653589793 * Float.exp (-x2) * s
  if x < 0 then -r else r

/-- `scipy.stats.norm.cdf`, `norm.pdf` for the executable instance -/
def cdfF (x : Float) : Float := (1.0 + erfF (x / Float.sqrt 2.0)) / 2.0
def pdfF (x : Float) : Float := Float.exp (-(x * x) / 2.0) / Float.sqrt (2.0 * 3.141592653589793)

/-- `C06.moments <ln|tg> <mus> <sigmas>` → [means, stds] | err -/
def momentsOp : Op
  | [.str which, mv, sv] => do
    let mus ← mv.flts?
    let sigs ← sv.flts?
    if mus.length != sigs.length then none else
    if !momentsOk sigs.length (vecF sigs) then return [errVal "valueError"]
    let pairs := mus.zip sigs
    match which with
    | "ln" => some [fltss [pairs.map (fun p => lnMean p.1 p.2), pairs.map (fun p => lnStd p.1 p.2)]]
    | "tg" => some [fltss [pairs.map (fun p => tgMean pdfF cdfF p.1 p.2),
        pairs.map (fun p => tgStd pdfF cdfF p.1 p.2)]]
    | _ => none
  | _ => none

/-- `C06.pop.score <mode> <subs> <nIds> <params> <cov rows> <obs rows>` → [loop score, sum of the parts] | err
    `compute_log_likelihood` of the model the samplers above belong to, at ANY rows (sampled or not). The rows
    are the individuals: with a heterogeneous part their number has to be `n_ids`. -/
def popScoreOp : Op
  | [.str mode, subsV, nIdsV, parV, covV, obsV] => do
    let subs ← subsV.list? >>= (·.mapM subOf)
    let nIds ← nIdsV.nat?
    let par ← parV.flts?
    let covRows ← covV.fltss?
    let obs ← obsV.fltss?
    let shapeOk := match mode, subs with
      | "elem", [s] => s.nCov == 0
      | "cov", [s] => s.nCov != 0
      | "composed", _ => true
      | _, _ => false
    if !shapeOk then none else
    let nRows := obs.length
    let hasH := subs.any (fun s => s.kind == .hetero)
    let nCovTot := totalCov subs
    let covOk :=
      if nCovTot = 0 then true
      else covRows.all (fun r => r.length == nCovTot) && (covRows.length == 1 || covRows.length == nRows)
    if par.length != totalTop nIds subs || !covOk || (hasH && nRows != nIds)
        || !obs.all (fun r => r.length == totalDim subs) then return [errVal "valueError"]
    let n := if hasH then nIds else nRows
    let cov : Nat → Nat → Float := fun i c =>
      if covRows.length == 1 then (covRows.getD 0 []).getD c 0.0 else (covRows.getD i []).getD c 0.0
    some [scoreVal (composedLL n subs (vecF par) (matF obs) cov),
      scoreVal (composedLLSpec n subs (vecF par) (matF obs) cov)]
  | _ => none

def ops : List (String × Op) :=
  [("C06.em.ndraws", emNDrawsOp), ("C06.em.sample", emSampleOp), ("C06.reduced", reducedOp), ("C06.reduced.history", reducedHistoryOp),
   ("C06.pop.plan", popPlanOp), ("C06.pop.sample", popSampleOp), ("C06.pop.psi", popPsiOp),
   ("C06.moments", momentsOp), ("C06.pop.score", popScoreOp)]

end ChiDriver.C06
