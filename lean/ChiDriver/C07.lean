import ChiDriver.Common
import ChiModel.Covariate
import ChiModel.ErfFloat
open Wire ChiModel
namespace ChiDriver.C07

def kindOf : String → Option Kind
  | "Gc" => some (.gauss true) | "Gnc" => some (.gauss false)
  | "LNc" => some (.logn true) | "LNnc" => some (.logn false)
  | "TG" => some .trunc | "P" => some .pooled | "H" => some .hetero
  | _ => none

def pairOf : Val → Option Pair
  | .list [.int p, .int d] => if p ≥ 0 ∧ d ≥ 0 then some (p.toNat, d.toNat) else none
  | _ => none

def ipairOf : Val → Option (Int × Int)
  | .list [.int p, .int d] => some (p, d)
  | _ => none

def pairs? (v : Val) : Option (List Pair) := v.list? >>= (·.mapM pairOf)
def ipairs? (v : Val) : Option (List (Int × Int)) := v.list? >>= (·.mapM ipairOf)

def ofPairs (l : List Pair) : Val :=
  .list (l.map (fun pd => .list [.int (Int.ofNat pd.1), .int (Int.ofNat pd.2)]))

def selErrName : SelErr → String
  | .ambiguousTruth => "valueError"       -- "truth value of an array ... is ambiguous" is a ValueError
  | .indexError => "indexError"
  | .valueError => "valueError"

/-- `C07.linselect pairs` — `LinearCovariateModel.set_population_parameters` + getter -/
def linselect : Op
  | [pv] => do
    let ps ← pairs? pv
    some [ofPairs (normSel ps)]
  | _ => none

/-- `C07.select perDim nDim pairs` — through `CovariatePopulationModel` (bounds check) -/
def select : Op
  | [.int perDim, .int nDim, pv] => do
    let ps ← ipairs? pv
    match setPopChecked perDim.toNat nDim.toNat ps with
    | .error e => some [errVal (selErrName e)]
    | .ok sel => some [.str "ok", ofPairs sel]
  | _ => none

/-- blanks inside names travel %-escaped (the harness escapes, the model concatenates with real blanks) -/
def ofNames (l : List String) : Val := ofStrs (l.map (fun s => s.replace " " "%20"))

def opOf : Val → Option CovOp
  | .list [.str "P", pv] => do some (.setPop (← pairs? pv))
  | .list [.str "D", nv] => do some (.setDimNames (← nv.strs?))
  | .list [.str "N", .int n] => some (.setNIds n.toNat)
  | .list [.str "M", pv, bv] => do some (.setNames (← pv.strs?) (← bv.strs?))
  | .list [.str "R", dv] => do some (.resetNames (← dv.strs?))
  | _ => none

/-- `C07.names perDim nDim nCov baseNames dimNames covNames ops legacyNames hetero`
    → names (with dims), names (exclude_dim_names), n_parameters, stored selection,
      outcome of every op ("ok" | err), evaluable?
    `hetero = true`: the wrapped model is a `HeterogeneousModel` with `perDim` individuals at
    construction (`baseNames` is ignored: its default names are used); `set_n_ids` ops then act -/
def names : Op
  | [.int perDim, .int nDim, .int nCov, bv, dv, cv, opsv, .bool legacyNames, .bool hetero] => do
    let base ← bv.strs?
    let dims ← dv.strs?
    let covs ← cv.strs?
    let ops ← (← opsv.list?).mapM opOf
    if hetero then
      let h0 := CovHet.construct perDim.toNat nDim.toNat nCov.toNat dims covs
      let (h, outs) := ops.foldl (fun (acc : CovHet × List Val) o =>
        match acc.1.step o with
        | .ok h' => (h', acc.2 ++ [.str "ok"])
        | .error _ => (acc.1.afterRaise, acc.2 ++ [errVal "valueError"])) (h0, [])
      some [ofNames (h.m.parameterNames false), ofNames (h.m.parameterNames true),
        .int (Int.ofNat h.nParameters), ofPairs h.m.sel, .list outs, .bool h.evaluable]
    else
      let m0 := CovModel.construct perDim.toNat nDim.toNat nCov.toNat base dims covs
      let m := ops.foldl (fun m o => match o with
        | .setPop ix => m.setPop legacyNames ix
        | o => m.step o) m0
      some [ofNames (m.parameterNames false), ofNames (m.parameterNames true),
        .int (Int.ofNat m.nParameters), ofPairs m.sel, .list (ops.map (fun _ => .str "ok")),
        .bool true]
  | _ => none

def psiVal : PsiVal Float → Val
  | .val x => .flt x
  | .nan => .str "nan"
  | .notImpl => errVal "notImplemented"

def cfgOf (nDim perDim nCov : Int) (sel : List Pair) : CovCfg :=
  ⟨nDim.toNat, perDim.toNat, nCov.toNat, sel⟩

/-- `C07.eval kind nIds nDim perDim nCov sel params cov obs eta`
    → ϑ (flattened `(n_ids, n_per_dim, n_dim)`), log-likelihood (code as it is),
      log-likelihood (pre-04b584d variant, informational), individual parameters -/
def eval : Op
  | [.str ks, .int nIds, .int nDim, .int perDim, .int nCov, selv, pv, covv, obsv, etav] => do
    let k ← kindOf ks
    let sel ← pairs? selv
    let params ← pv.flts?
    let cov := matF (← covv.fltss?)
    let obs := matF (← obsv.fltss?)
    let eta := matF (← etav.fltss?)
    let c := cfgOf nDim perDim nCov sel
    let n := nIds.toNat
    if params.length ≠ c.nParams then return [errVal "valueError"]
    let th := covTh c (vecOf params) cov
    let thFlat := (List.range n).flatMap (fun i => (List.range c.perDim).flatMap (fun p =>
      (List.range c.nDim).map (fun d => th i p d)))
    let ll := match covLL k c n params cov obs with
      | .ok s => scoreVal s | .error _ => errVal "valueError"
    let ll2 := match covLLLegacy k c n params cov obs with
      | .ok s => scoreVal s | .error _ => errVal "valueError"
    let ind := match covIndiv k c n params cov eta with
      | .ok rows => Val.list (rows.map (fun r => .list (r.map psiVal)))
      | .error _ => errVal "valueError"
    let indEta := match covIndivEta k c n params cov eta with
      | .ok rows => Val.list (rows.map (fun r => .list (r.map psiVal)))
      | .error _ => errVal "valueError"
    some [ofFlts thFlat, ll, ll2, ind, indEta]
  | _ => none

/-- `C07.sens kind nIds nDim perDim nCov sel cov g dpsi`
    (`g` = the wrapped model's `dvartheta`, flattened `(n_ids, n_per_dim, n_dim)`)
    → dtheta, reduced form (code as it is), reduced form (pre-3d6f67b variant, informational),
      (n_bottom, n_top), dtheta by position -/
def sens : Op
  | [.str ks, .int nIds, .int nDim, .int perDim, .int nCov, selv, covv, gv, dpsiv] => do
    let k ← kindOf ks
    let sel ← pairs? selv
    let cov := matF (← covv.fltss?)
    let gl ← gv.flts?
    let dpsi := matF (← dpsiv.fltss?)
    let c := cfgOf nDim perDim nCov sel
    let n := nIds.toNat
    if gl.length ≠ n * c.perDim * c.nDim then return [errVal "valueError"]
    let g : Nat → Nat → Nat → Float := fun i p d => gl.getD ((i * c.perDim + p) * c.nDim + d) 0.0
    let nh := covNHier k c n
    some [ofFlts (covDTheta c n g cov), ofFlts (covReduced k c n dpsi g cov),
      ofFlts (covReducedLegacy c n dpsi g cov), .int (Int.ofNat nh.1), .int (Int.ofNat nh.2),
      ofFlts ((List.range c.nParams).map (covSensAt c n g cov))]
  | _ => none

def sampleVal : SampleOut Float → Val
  | .val x => .flt x
  | .notModelled => .none

/-- `C07.sample kind nSamples nDim perDim nCov sel params cov z pick` -/
def sample : Op
  | [.str ks, .int nS, .int nDim, .int perDim, .int nCov, selv, pv, covv, zv, pickv] => do
    let k ← kindOf ks
    let sel ← pairs? selv
    let params ← pv.flts?
    let cov := matF (← covv.fltss?)
    let z := matF (← zv.fltss?)
    let pickl ← pickv.nats?
    let c := cfgOf nDim perDim nCov sel
    match covSample k c nS.toNat params cov z (fun i => pickl.getD i 0) with
    | .error _ => some [errVal "valueError"]
    | .ok rows => some [.list (rows.map (fun r => .list (r.map sampleVal)))]
  | _ => none

/-- `C07.legacy pairs permD permP` — the pre-fix ordering replayed with the two argsort
    permutations the environment produced: do they qualify as argsorts, what is stored,
    what the repaired normaliser stores -/
def legacy : Op
  | [pv, dv, qv] => do
    let ps ← pairs? pv
    let permD ← dv.nats?
    let permP ← qv.nats?
    let uniq := dedupFirst ps
    let mid := applyPerm permD uniq
    some [.bool (isArgsortBy (·.2) uniq permD), .bool (isArgsortBy (·.1) mid permP),
      ofPairs (legacyOrder permD permP uniq), ofPairs (normSel ps),
      match legacyDedupArray ps with | .ok _ => .str "ok" | .error e => errVal (selErrName e)]
  | _ => none

/-- `C07.setnids n0 nDim nCov n` — wrap a heterogeneous model with `n0` individuals, then
    `set_n_ids(n)`: n_parameters, number of names, evaluable? (code as it is), and the same for the
    pre-`ec83423` variant (informational) -/
def setnids : Op
  | [.int n0, .int nDim, .int nCov, .int n] =>
    let h0 := CovHet.construct n0.toNat nDim.toNat nCov.toNat
      ((List.range nDim.toNat).map (fun j => "Dim. " ++ toString (j + 1)))
      ((List.range nCov.toNat).map (fun j => "Cov. " ++ toString (j + 1)))
    let h := h0.stepKeep (.setNIds n.toNat)
    let hl := h0.setNIdsLegacy n.toNat
    some [.int (Int.ofNat h.nParameters), .int (Int.ofNat (h.m.parameterNames false).length),
      .bool h.evaluable, .int (Int.ofNat hl.nParameters),
      .int (Int.ofNat (hl.m.parameterNames false).length), .bool hl.evaluable]
  | _ => none

def ops : List (String × Op) :=
  [("C07.linselect", linselect), ("C07.select", select), ("C07.names", names), ("C07.eval", eval),
   ("C07.sens", sens), ("C07.sample", sample), ("C07.legacy", legacy), ("C07.setnids", setnids)]

end ChiDriver.C07
