import ChiDriver.Common
import ChiModel.LogLik
import ChiModel.LogLikReduced
open Wire ChiModel
namespace ChiDriver.C01

def emOf : String → Option EM
  | "G" => some .gauss | "M" => some .mult | "CM" => some .cm | "LN" => some .ln | _ => none

def errName : Err → String
  | .lengthMismatch => "valueError"      -- chi raises ValueError (reshape) for all four
  | .notIncreasing => "valueError"
  | .negativeTime => "valueError"
  | .shapeMismatch => "valueError"

/-- times travel as the bit pattern of the non-negative double (order-isomorphic to the value) -/
def parseData (v : Val) : Option (List (OutData Nat Float)) := do
  let l ← v.list?
  l.mapM (fun d => match d with
    | .list [ts, ob] => do some ⟨← ts.nats?, ← ob.flts?⟩
    | _ => none)

/-- prediction table: per output a list of `[timeBits, value]` -/
def parseTable (v : Val) : Option (Nat → Nat → Float) := do
  let l ← v.list?
  let rows ← l.mapM (fun r => do
    let es ← r.list?
    es.mapM (fun e => match e with
      | .list [.int t, .flt x] => some (t.toNat, x)
      | _ => none))
  some (fun o t => (((rows.getD o []).lookup t).getD (0.0/0.0)))

def ltN : Nat → Nat → Bool := fun a b => decide (a < b)

/-- `C01.call legacy nOutputs ems data table sig` →
    constructor verdict, score | err, pointwise, n_observations, n_error_params -/
def call : Op
  | [.bool legacy, .int nOut, emsV, dataV, tabV, sigV] => do
    let ems ← (← emsV.strs?).mapM emOf
    let data ← parseData dataV
    let f ← parseTable tabV
    let sig ← sigV.flts?
    match constructorAccepts ltN nOut.toNat ems data with
    | .error e => some [errVal (errName e)]
    | .ok () =>
      let sc := match llCall legacy ltN ems f data sig with
        | .error e => errVal (errName e)
        | .ok s => scoreVal s
      let spec := scoreVal (llSpec ems f data sig)
      let pw := Val.list ((llPointwise ems f data sig).map (fun x => match x with
        | some v => .flt v | none => .none))
      some [.str "ok", sc, spec, pw, .int (nObservations data), .int ((ems.map EM.nParams).sum)]
  | _ => none

def parseCells (v : Val) : Option (Cells Float) := do
  let l ← v.list?
  l.mapM (fun c => match c with
    | .list [.bool b, .flt x] => some (b, x)
    | _ => none)

/-- `C01.reduced_fill mechCells errCells x` → the full mechanistic vector and the full error-parameter
    vector the sub-models of a likelihood with fixed parameters are evaluated with | err -/
def reducedFill : Op
  | [mV, eV, xV] => do
    let mech ← parseCells mV
    let errs ← (← eV.list?).mapM parseCells
    let x ← xV.flts?
    if x.length ≠ nFreeAll mech errs then some [errVal "valueError"]
    else some [ofFlts (reducedMech mech x), ofFlts (reducedSig mech errs x)]
  | _ => none

def ops : List (String × Op) := [("C01.call", call), ("C01.reduced_fill", reducedFill)]
end ChiDriver.C01
