import ChiDriver.Common
import ChiDriver.C01
import ChiModel.LogLikS1
import ChiModel.SensSwitch
open Wire ChiModel
namespace ChiDriver.C03

/-- `[n, ybar, S rows, obs]` -/
def parseOut (v : Val) : Option (OutS1 Float) := do
  match v with
  | .list [yb, S, ob] =>
    let y ← yb.flts?
    some ⟨y.length, vecF y, matF (← S.fltss?), vecF (← ob.flts?)⟩
  | _ => none

/-- `C03.s1 nMech ems sig outs` → raw score, gradient vector -/
def s1 : Op
  | [.int nMech, emsV, sigV, outsV] => do
    let ems ← (← emsV.strs?).mapM ChiDriver.C01.emOf
    let sig ← sigV.flts?
    let outs ← (← outsV.list?).mapM parseOut
    some [.flt (llS1Raw ems sig 0 outs), ofFlts (llS1Grad nMech.toNat ems sig outs)]
  | _ => none

/-- `C03.place nIds blocks` with block = `[nDim, hier, bottom, top]` → flat gradient -/
def place : Op
  | [.int nIds, blocksV] => do
    let gs ← (← blocksV.list?).mapM (fun b => match b with
      | .list [.int nd, .bool h, bo, to] => do some (⟨nd.toNat, h, ← bo.flts?, ← to.flts?⟩ : SubGrad Float)
      | _ => none)
    let r := placeFlat nIds.toNat gs
    some [.list (r.1.map (fun x => match x with | some v => .flt v | none => .none)), ofFlts r.2]
  | _ => none

/-- one operation of a history: `["fix", [[index, fixed?], …]]`, `["call"]`, `["s1"]` -/
def parseOp (v : Val) : Option Switch.Op := do
  match v with
  | .list [.str "fix", upd] =>
    let ps ← (← upd.list?).mapM (fun p => match p with
      | .list [.int i, .bool b] => if i ≥ 0 then some (i.toNat, b) else none
      | _ => none)
    some (.fix ps)
  | .list [.str "call"] => some .call
  | .list [.str "s1"] => some .s1
  | _ => none

def seenVal : Switch.Seen → Val
  | .fixed => .str "fixed"
  | .plain a => .list [.bool a]
  | .sens cols a => .list [ofNats cols, .bool a]
  | .raised => errVal "raised"

/-- `C03.switch n pkpd regimen ops` → one observation per operation: `"fixed"`, `[attached]` for a plain
    evaluation, `[columns, attached]` for an evaluation with sensitivities -/
def switch : Op
  | [.int n, .bool pkpd, .bool regimen, opsV] => do
    if n < 0 then none
    let ops ← (← opsV.list?).mapM parseOp
    some [.list ((Switch.run (Switch.init n.toNat pkpd regimen) ops).map seenVal)]
  | _ => none

/-- a Python float as a score: `nan` → undefined, `-inf` → the guard value -/
def toScore (x : Float) : Score Float :=
  if x.isNaN then .undefined else if x == -(1.0 / 0.0) then .negInf else .val x

/-- an individual at the point: `None` = its mechanistic model raises, a float = the error models' score -/
def parseSim : Val → Option (Guarded.Sim Float)
  | .none => some .raises
  | .flt x => some (.delivers (toScore x))
  | _ => none

def gradVal : Guarded.GradOut Float → Val
  | .assembled _ => .str "assembled"
  | .allInf n => .list [.str "allinf", .int (Int.ofNat n)]

/-- `C03.guarded nPar prior pop inds`: `prior` / `pop` a float or `None` (no prior / an individual
    likelihood: `inds` has one entry) → score of plain evaluation, score of `evaluateS1`, and for the
    individual likelihood what is handed out as gradient -/
def guarded : Op
  | [.int nPar, priorV, popV, indsV] => do
    if nPar < 0 then none
    let prior ← priorV.opt? Val.flt?
    let pop ← popV.opt? Val.flt?
    let inds ← (← indsV.list?).mapM parseSim
    let n := nPar.toNat
    let (c, s, g) ← match pop, inds with
      | .none, [sim] =>
        let r := Guarded.llS1 n [] sim
        some (Guarded.llCall sim, r.1, gradVal r.2)
      | .none, _ => none
      | some p, _ => some (Guarded.hierCall (toScore p) inds, Guarded.hierS1 n [] (toScore p) inds, Val.none)
    match prior with
    | .none => some [scoreVal c, scoreVal s, g]
    | some pr => some [scoreVal (Guarded.withPrior (toScore pr) (fun _ => c)),
                       scoreVal (Guarded.withPrior (toScore pr) (fun _ => s)), g]
  | _ => none

def ops : List (String × Op) :=
  [("C03.s1", s1), ("C03.place", place), ("C03.switch", switch), ("C03.guarded", guarded)]
end ChiDriver.C03
