import ChiDriver.Common
import ChiDriver.C01
import ChiModel.LogLikS1
open Wire ChiModel
namespace ChiDriver.C03

/-- `[n, ybar, S rows, obs]` -/
def parseOut (v : Val) : Option (OutS1 Float) := do
  match v with
  | .list [yb, S, ob] =>
    let y ← yb.flts?
    some ⟨y.length, vecF y, matF (← S.fltss?), vecF (← ob.flts?)⟩
  | _ => none

/-- `C03.s1 nMech ems sig outs` → raw score, gradient vector -/
def s1 : Op
  | [.int nMech, emsV, sigV, outsV] => do
    let ems ← (← emsV.strs?).mapM ChiDriver.C01.emOf
    let sig ← sigV.flts?
    let outs ← (← outsV.list?).mapM parseOut
    some [.flt (llS1Raw ems sig 0 outs), ofFlts (llS1Grad nMech.toNat ems sig outs)]
  | _ => none

/-- `C03.place nIds blocks` with block = `[nDim, hier, bottom, top]` → flat gradient -/
def place : Op
  | [.int nIds, blocksV] => do
    let gs ← (← blocksV.list?).mapM (fun b => match b with
      | .list [.int nd, .bool h, bo, to] => do some (⟨nd.toNat, h, ← bo.flts?, ← to.flts?⟩ : SubGrad Float)
      | _ => none)
    let r := placeFlat nIds.toNat gs
    some [.list (r.1.map (fun x => match x with | some v => .flt v | none => .none)), ofFlts r.2]
  | _ => none

def ops : List (String × Op) := [("C03.s1", s1), ("C03.place", place)]
end ChiDriver.C03
