import ChiDriver.Common
import ChiModel.MechConfig
import ChiModel.MechCanonical
/-!
line-protocol ops of C11

* `C11.run  base legacy ops` → `[errs, obs-after-every-step]`   (the hidden-state machine; `legacy = u`
                                 is the code as it is, `t` the machine before bcb3fc2)
* `C11.spec base ops`        → `[errs, obs of fresh (net prefix) for every prefix, final config,
                                 WellOrdered ops, canonical calls of the net configuration, Canon]`

`base = [pkpd, comps, states, consts, inters, others]`,
`op   = [adm comp var direct] | [reg i] | [out names] | [pn pairs] | [on pairs] | [sens on names?]
        | [wrap] | [fix pairs(name, i?)] | [copy]`
-/
open Wire ChiModel.MechConfig
namespace ChiDriver.C11

def parseBase : Val → Option Base
  | .list [.bool pk, c, s, k, i, o] => do
    some { pkpd := pk, comps := ← c.strs?, states := ← s.strs?, consts := ← k.strs?,
           inters := ← i.strs?, others := ← o.strs? }
  | _ => none

def parsePairs (v : Val) : Option (List (String × String)) := do
  let l ← v.list?
  l.mapM (fun p => match p with
    | .list [.str a, .str c] => some (a, c)
    | _ => none)

def parseFix (v : Val) : Option (List (String × Option Nat)) := do
  let l ← v.list?
  l.mapM (fun p => match p with
    | .list [.str a, .none] => some (a, none)
    | .list [.str a, x] => do some (a, some (← x.nat?))
    | _ => none)

abbrev MOp := ChiModel.MechConfig.Op

def parseOp : Val → Option MOp
  | .list [.str "adm", .str c, .str v, .bool d] => some (.setAdmin ⟨c, v, d⟩)
  | .list [.str "reg", r] => do some (.setRegimen (← r.nat?))
  | .list [.str "out", l] => do some (.setOutputs (← l.strs?))
  | .list [.str "pn", l] => do some (.setParamNames (← parsePairs l))
  | .list [.str "on", l] => do some (.setOutputNames (← parsePairs l))
  | .list [.str "sens", .bool on, .none] => some (.enableSens on none)
  | .list [.str "sens", .bool on, l] => do some (.enableSens on (some (← l.strs?)))
  | .list [.str "wrap"] => some .wrap
  | .list [.str "fix", l] => do some (.fix (← parseFix l))
  | .list [.str "copy"] => some .copy
  | _ => none

def errStr : Err → String
  | .valueError => "valueError" | .keyError => "keyError" | .typeError => "typeError"
  | .attributeError => "attributeError" | .indexError => "indexError" | .simError => "simError"

def errV : Option Err → Val
  | none => .str "ok"
  | some e => errVal (errStr e)

def optV {α} (f : α → Val) : Option α → Val
  | none => .none
  | some a => f a

def natV (n : Nat) : Val := .int (Int.ofNat n)

def srcV : Src → Val
  | .arg i => .str ("a" ++ toString i)
  | .fixed v => .str ("f" ++ toString v)
  | .garbage => .str "g"

def sensV (s : List String × List String) : Val := .list [ofStrs s.1, ofStrs s.2]

def simV (r : SimRecord) : Val :=
  .list [ofStrs r.simStates, optV .str r.pace, optV natV r.protocol, optV sensV r.sens,
         .list (r.stateAssign.map (fun p => .list [.str p.1, srcV p.2])),
         .list (r.constAssign.map (fun p => .list [.str p.1, srcV p.2])),
         ofStrs r.log]

def obsV (o : Obs) : Val :=
  .list [optV ofStrs o.params, natV o.nParams, optV ofStrs o.outputs, optV natV o.regimen,
         .bool o.hasSens, optV simV o.sim,
         optV (fun (p : Nat × Option Nat) => .list [natV p.1, optV natV p.2]) o.emptyGrid]

def adminV (a : Admin) : Val := .list [.str a.comp, .str a.var, .bool a.direct]

def pairsV (l : List (String × String)) : Val := .list (l.map (fun p => .list [.str p.1, .str p.2]))

def cfgV (c : Config) : Val :=
  .list [optV adminV c.admin, optV natV c.regimen, ofStrs c.outputs, pairsV c.pmap, pairsV c.omap,
         optV ofStrs c.sens,
         optV (fun (r : RedCfg) => .list [optV (fun m => .list (m.map .bool)) r.mask,
                                           optV (fun v => .list (v.map srcV)) r.values,
                                           .bool r.emptySens]) c.red]

def opV : MOp → Val
  | .setAdmin a => .list [.str "adm", .str a.comp, .str a.var, .bool a.direct]
  | .setRegimen r => .list [.str "reg", natV r]
  | .setOutputs outs => .list [.str "out", ofStrs outs]
  | .setParamNames l => .list [.str "pn", pairsV l]
  | .setOutputNames l => .list [.str "on", pairsV l]
  | .enableSens on names => .list [.str "sens", .bool on, optV ofStrs names]
  | .wrap => .list [.str "wrap"]
  | .fix d => .list [.str "fix", .list (d.map (fun p => .list [.str p.1, optV natV p.2]))]
  | .copy => .list [.str "copy"]

/-- trace of the hidden-state machine -/
def trace (b : Base) (legacy : Bool) : Obj → List MOp → List (Val × Val)
  | _, [] => []
  | o, op :: ops =>
    let (o', e) := if legacy then stepLegacy b o op else step b o op
    (errV e, obsV (observe b o')) :: trace b legacy o' ops

def traceCfg (b : Base) : Config → List MOp → List (Val × Val)
  | _, [] => []
  | c, op :: ops =>
    let (c', e) := applyCfg b c op
    (errV e, obsV (observe b (fresh b c'))) :: traceCfg b c' ops

def runOp : ChiDriver.Op
  | [bv, .bool legacy, opsV] => do
    let b ← parseBase bv
    let ops ← (← opsV.list?).mapM parseOp
    let tr := trace b legacy (initObj b) ops
    some [.list (tr.map Prod.fst), .list (obsV (observe b (initObj b)) :: tr.map Prod.snd)]
  | _ => none

def specOp : ChiDriver.Op
  | [bv, opsV] => do
    let b ← parseBase bv
    let ops ← (← opsV.list?).mapM parseOp
    let tr := traceCfg b (initCfg b) ops
    some [.list (tr.map Prod.fst),
          .list (obsV (observe b (fresh b (initCfg b))) :: tr.map Prod.snd),
          cfgV (net b (initCfg b) ops), .bool (decide (WellOrdered ops)),
          .list ((canonical b (net b (initCfg b) ops)).map opV),
          .bool (decide (Canon b (net b (initCfg b) ops)))]
  | _ => none

def ops : List (String × ChiDriver.Op) := [("C11.run", runOp), ("C11.spec", specOp)]

end ChiDriver.C11
