import ChiDriver.Common
import ChiModel.Filters
open Wire ChiModel ChiModel.PF
namespace ChiDriver.C12

def kindOf (s : String) (K : Nat) : Option FKind :=
  match s with
  | "G" => some .gauss
  | "GKDE" => some .gkde
  | "MIX" => some (.mix K)
  | "LN" => some .lognorm
  | "LNKDE" => some .lnkde
  | _ => none

/-- `[i][r][j]` with `n` for a missing value -/
def parseObs (v : Val) : Option (Nat → Nat → Nat → Option Float) := do
  let l ← v.list?
  let rows ← l.mapM (fun a => do
    let b ← a.list?
    b.mapM (fun c => do
      let d ← c.list?
      d.mapM (fun e => match e with
        | .none => some (none : Option Float)
        | .flt x => some (some x)
        | _ => none)))
  some (fun i r j => ((((rows.getD i []).getD r []).getD j none)))

def parseSim (v : Val) : Option (Nat × (Nat → Nat → Nat → Float)) := do
  let l ← v.list?
  let rows ← l.mapM (fun a => do
    let b ← a.list?
    b.mapM (fun c => c.flts?))
  some (rows.length, fun s r j => (((rows.getD s []).getD r []).getD j (0.0 / 0.0)))

def errName : PErr → String
  | .valueError => "valueError"
  | .indexError => "indexError"

def llVal : Except PErr (Score Float) → Val
  | .error e => errVal (errName e)
  | .ok s => scoreVal s

def grid (n R T : Nat) (g : Nat → Nat → Nat → Float) : Val :=
  .list ((List.range n).map (fun s => .list ((List.range R).map (fun r =>
    ofFlts ((List.range T).map (fun j => g s r j))))))

def parseFilt (v : Val) : Option (Filt Float) :=
  match v with
  | .list [.str k, .int K, .int m, .int R, .int T, obsV] => do
    let kind ← kindOf k K.toNat
    let obs ← parseObs obsV
    some ⟨kind, m.toNat, R.toNat, T.toNat, obs⟩
  | _ => none

/-- `C12.filter <filt> <orders: list of index lists> <sim>` →
    score | err, gradient `[s][r][j]`, documented value, log-normal KDE value with the
    docstring's bandwidth (from the measured log-values) -/
def filter : Op
  | [fv, ordsV, simV] => do
    let F0 ← parseFilt fv
    let ords ← ordsV.natss?
    let (n, y) ← parseSim simV
    -- `sort_times` calls, in sequence
    let rec go (F : Filt Float) : List (List Nat) → Except PErr (Filt Float)
      | [] => .ok F
      | o :: os => match F.sortTimes o with
        | .error e => .error e
        | .ok G => go G os
    match go F0 ords with
    | .error e => some [errVal (errName e)]
    | .ok F =>
      let doc := docVal F.kind F.m n F.R F.T F.obs y
      let docSim := isum F.R (fun r => isum F.T (fun j =>
        msum F.m (fun i => F.obs i r j)
          (docTermLnkdeMeasured F.m n (fun i => F.obs i r j) (fun s => y s r j))))
      some [llVal (F.ll n y), grid n F.R F.T (F.grad n y), .flt doc, .flt docSim]
  | _ => none

/-- `C12.comp <filts> <order | n> <sim>` → constructor/sort verdict | score, gradient -/
def comp : Op
  | [fsV, ordV, simV] => do
    let fl ← fsV.list?
    let fs ← fl.mapM parseFilt
    let ord ← Val.opt? Val.nats? ordV
    let (n, y) ← parseSim simV
    match Comp.mk? fs with
    | .error e => some [errVal (errName e)]
    | .ok C0 =>
      let C? : Except PErr (Comp Float) := match ord with
        | none => .ok C0
        | some o => C0.sortTimes o
      match C? with
      | .error e => some [errVal (errName e)]
      | .ok C =>
        let R := (fs.head?.map (fun F => Filt.R F)).getD 0
        some [llVal (C.ll n y), grid n R C.T (C.grad n y),
          .bool C.timeOrder.isSome]
  | _ => none

/-- `C12.sort_shared <filt> <sibling kind> <sibling K> <order> <sim>` : filter and sibling refer to the SAME
    measurement array; the filter is sorted → sibling's score before / after, sorted filter's score on
    `sim[..., order]` -/
def sortShared : Op
  | [fv, .str sk, .int sK, ordV, simV] => do
    let F0 ← parseFilt fv
    let kind ← kindOf sk sK.toNat
    let ord ← ordV.nats?
    let (n, y) ← parseSim simV
    let st : ObsStore Float := [F0.obs]
    let F : FiltRef := ⟨F0.kind, F0.m, F0.R, F0.T, 0⟩
    let H : FiltRef := ⟨kind, F0.m, F0.R, F0.T, 0⟩
    let ll (g : Option (Filt Float)) (z : Nat → Nat → Nat → Float) : Val := match g with
      | some g => llVal (g.ll n z)
      | none => errVal "indexError"
    match sortTimesRef st F ord with
    | .error e => some [errVal (errName e)]
    | .ok (st', F') =>
      some [ll (H.deref st) y, ll (H.deref st') y, ll (F'.deref st') (fun s r j => y s r (ord.getD j 0))]
  | _ => none

/-- `["L", <filt>, <orders of its own sort_times calls>]` | `["N", [<tree>…], <order | n>]`;
    `none` = malformed, `some (.error e)` = a constructor / `sort_times` call raises -/
partial def parseTree (v : Val) : Option (Except PErr (FTree Float)) :=
  match v with
  | .list [.str "L", fv, ordsV] => do
    let F0 ← parseFilt fv
    let ords ← ordsV.natss?
    let rec go (F : Filt Float) : List (List Nat) → Except PErr (Filt Float)
      | [] => .ok F
      | o :: os => match F.sortTimes o with
        | .error e => .error e
        | .ok G => go G os
    some ((go F0 ords).map FTree.leaf)
  | .list [.str "N", .list cs, ordV] => do
    let ord ← Val.opt? Val.nats? ordV
    let ts ← cs.mapM parseTree
    let rec collect : List (Except PErr (FTree Float)) → Except PErr (List (FTree Float))
      | [] => .ok []
      | .error e :: _ => .error e
      | .ok t :: r => (collect r).map (t :: ·)
    match collect ts with
    | .error e => some (.error e)
    | .ok [] => some (.error .indexError)
    | .ok (t :: r) =>
      if !(r.all (fun u => u.R == t.R)) then some (.error .valueError)
      else
        let T := FTree.sumT (t :: r)
        match ord with
        | none => some (.ok (.node (t :: r) none))
        | some o =>
          -- `ComposedPopulationFilter.sort_times`: length / uniqueness checks, the identity is ignored
          if o.length ≠ T then some (.error .valueError)
          else if hasDup o then some (.error .valueError)
          else if o == List.range T then some (.ok (.node (t :: r) none))
          else some (.ok (.node (t :: r) (some o)))
  | _ => none

/-- `C12.nested <tree> <sim>` → constructor/sort verdict | score, gradient `[s][r][j]`, n_times -/
def nested : Op
  | [tv, simV] => do
    let t? ← parseTree tv
    let (n, y) ← parseSim simV
    match t? with
    | .error e => some [errVal (errName e)]
    | .ok t => some [llVal (t.ll n y), grid n t.R t.T (t.grad n y), .int t.T]
  | _ => none

def ops : List (String × Op) := [("C12.filter", filter), ("C12.comp", comp), ("C12.sort_shared", sortShared),
  ("C12.nested", nested)]
end ChiDriver.C12
