import ChiDriver.Common
import ChiModel.Reduced
import ChiModel.ReducedSegments
open Wire ChiModel.Reduced
namespace ChiDriver.C08

def parseReq (v : Val) : Option (Req Float) := do
  let l ← v.list?
  l.mapM (fun e => match e with
    | .list [.str n, .none] => some (n, none)
    | .list [.str n, .flt x] => some (n, some x)
    | _ => none)

/-- `C08.history names ops free grad` → mask, full vector, free names, nFree, nFixed,
    restricted gradient, collapsed-to-None flag -/
def history : Op
  | [namesV, opsV, freeV, gradV] => do
    let names ← namesV.strs?
    let ops ← (← opsV.list?).mapM parseReq
    let free ← freeV.flts?
    let grad ← gradV.flts?
    let nan : Float := 0.0 / 0.0
    let st := run names nan ops
    let c := view names nan st
    some [.list (c.map (fun x => .bool x.1)), ofFlts (fill c free), ofStrs (restrict c names),
      .int (nFree c), .int (nFixed c), ofFlts (restrict c grad), .bool st.isNone]
  | _ => none

def parseSeg (v : Val) : Option (Seg Float) := do
  match v with
  | .list [namesV, opsV] =>
    let names ← namesV.strs?
    let ops ← (← opsV.list?).mapM parseReq
    some (names, ops)
  | _ => none

/-- `C08.segments segs free grad`: a life of a reduced population model as stretches `[names, ops]` (the
    parameter list of the wrapped model during the stretch, the requests made in it); the output is that of
    `C08.history` for the LAST parameter list -/
def segments : Op
  | [segsV, freeV, gradV] => do
    let segs ← (← segsV.list?).mapM parseSeg
    let free ← freeV.flts?
    let grad ← gradV.flts?
    let nan : Float := 0.0 / 0.0
    match segs with
    | [] => none
    | first :: rest =>
      let r := runSegs nan first rest
      let c := view r.1 nan r.2
      some [.list (c.map (fun x => .bool x.1)), ofFlts (fill c free), ofStrs (restrict c r.1),
        .int (nFree c), .int (nFixed c), ofFlts (restrict c grad), .bool r.2.isNone]
  | _ => none

def ops : List (String × Op) := [("C08.history", history), ("C08.segments", segments)]
end ChiDriver.C08
