import ChiDriver.Common
import ChiModel.Reduced
open Wire ChiModel.Reduced
namespace ChiDriver.C08

def parseReq (v : Val) : Option (Req Float) := do
  let l ← v.list?
  l.mapM (fun e => match e with
    | .list [.str n, .none] => some (n, none)
    | .list [.str n, .flt x] => some (n, some x)
    | _ => none)

/-- `C08.history names ops free grad` → mask, full vector, free names, nFree, nFixed,
    restricted gradient, collapsed-to-None flag -/
def history : Op
  | [namesV, opsV, freeV, gradV] => do
    let names ← namesV.strs?
    let ops ← (← opsV.list?).mapM parseReq
    let free ← freeV.flts?
    let grad ← gradV.flts?
    let nan : Float := 0.0 / 0.0
    let st := run names nan ops
    let c := view names nan st
    some [.list (c.map (fun x => .bool x.1)), ofFlts (fill c free), ofStrs (restrict c names),
      .int (nFree c), .int (nFixed c), ofFlts (restrict c grad), .bool st.isNone]
  | _ => none

def ops : List (String × Op) := [("C08.history", history)]
end ChiDriver.C08
