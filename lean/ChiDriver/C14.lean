import ChiDriver.Common
import ChiModel.Problem
open Wire ChiModel ChiModel.Problem
namespace ChiDriver.C14

def errName : Problem.Err → String
  | .valueError => "valueError"
  | .typeError => "typeError"
  | .keyError => "keyError"
  | .indexError => "indexError"
  | .simultaneousEvent => "SimultaneousProtocolEventError"
  | .protocolEvent => "ProtocolEventError"

/-- an ID cell: `i<n>` integer, `[ i<n> ]` float with integer value, `s<text>` string -/
def parseId : Val → Option RawId
  | .int n => some (.int n)
  | .list [.int n] => some (.flt n)
  | .str s => some (.str s)
  | _ => none

/-- `[ id time obs value dose duration [foreign…] ]` -/
def parseRow : Val → Option (RawRow Float)
  | .list [idv, t, ob, v, ds, du, fo] => do
    some ⟨← parseId idv, ← Val.opt? Val.flt? t, ← Val.opt? parseId ob, ← Val.opt? Val.flt? v,
          ← Val.opt? Val.flt? ds, ← Val.opt? Val.flt? du, ← fo.strs?⟩
  | _ => none

def parsePairs (v : Val) : Option (List (String × RawId)) := do
  let l ← v.list?
  l.mapM (fun p => match p with
    | .list [.str a, b] => do some (a, ← parseId b)
    | _ => none)

/-- `[ outputs obsMap|n covNames covMap|n hasDose hasDur hasPop ]` -/
def parseConfig : Val → Option Config
  | .list [outs, om, cn, cm, .bool hd, .bool hu, .bool hp] => do
    some ⟨← outs.strs?, ← Val.opt? parsePairs om, ← cn.strs?, ← Val.opt? parsePairs cm, hd, hu, hp⟩
  | _ => none

def parseEvents (v : Val) : Option (List (Event Float)) := do
  let l ← v.list?
  l.mapM (fun e => match e with
    | .list [.flt a, .flt b, .flt c] => some ⟨a, b, c⟩
    | _ => none)

def evVal (es : List (Event Float)) : Val := .list (es.map (fun e => .list [.flt e.level, .flt e.start, .flt e.duration]))
def optEv : Option (List (Event Float)) → Val
  | none => .none
  | some es => evVal es

def indivVal (x : Indiv Float) : Val :=
  .list [.str x.id, .list (x.data.map (fun o => .list [ofFlts o.times, ofFlts o.obs])), optEv x.regimen]

def covVal : Option (List (List (Option Float))) → Val
  | none => .none
  | some M => .list (M.map (fun row => .list (row.map (fun x => match x with
      | some v => .flt v
      | none => .none))))

def postVal : Posterior Float → Val
  | .single i => .list [.str "single", indivVal i]
  | .hier is cov => .list [.str "hier", .list (is.map indivVal), covVal cov]

/-- `C14.run config rows selector shared [mutates]` (the code as it is; `mutates = false`: the variant in
    which the controller's own model is left untouched) →
    `err:<kind> stage` | `ok ids regimens posterior sharedAfter` -/
def runWith (mutates : Bool) (cfgv rowsv selv shv : Val) : Option (List Val) := do
  let cfg ← parseConfig cfgv
  let rows ← (← rowsv.list?).mapM parseRow
  let sel ← Val.opt? parseId selv
  let sh ← Val.opt? parseEvents shv
  match setData cfg rows with
  | .error e => some [errVal (errName e), .str "set_data"]
  | .ok P =>
    let regs : Val := match P.regimens with
      | none => .none
      | some r => .list (r.map (fun p => .list [.str p.1, evVal p.2]))
    let res := if mutates then getLogPosterior Legacy.asIs P sel sh else getLogPosteriorPure Legacy.asIs P sel sh
    match res with
    | .error e => some [errVal (errName e), .str "get_log_posterior", ofStrs P.ids, regs]
    | .ok (post, shEnd) => some [.str "ok", ofStrs P.ids, regs, postVal post, optEv shEnd]

def run : Op
  | [cfgv, rowsv, selv, shv] => runWith true cfgv rowsv selv shv
  | [cfgv, rowsv, selv, shv, .bool m] => runWith m cfgv rowsv selv shv
  | _ => none

/-- `C14.spec hasDose hasDur rows observables covObservables` → the declarative reading of the frame:
    ids in order of first appearance; per id: per observable the `(t, y)` pairs, the dose events
    (frame order), per covariate observable the recorded values -/
def spec : Op
  | [.bool hd, .bool hu, rowsv, obv, cov] => do
    let rows ← (← rowsv.list?).mapM parseRow
    let obs ← obv.strs?
    let cobs ← cov.strs?
    let d := cleanData hd hu rows
    let idl := specIds (d.map (·.id))
    some [ofStrs idl, .list (idl.map (fun i => .list [
      .list (obs.map (fun b => .list ((specRows d i b).map (fun p => .list [.flt p.1, .flt p.2])))),
      evVal (specDoses d i),
      .list (cobs.map (fun b => ofFlts (specCov d b i)))]))]
  | _ => none

/-- `C14.key id` → the string key of an ID cell -/
def key : Op
  | [v] => do some [.str (← parseId v).key]
  | _ => none

def ops : List (String × Op) := [("C14.run", run), ("C14.spec", spec), ("C14.key", key)]
end ChiDriver.C14
