import ChiDriver.Common
import ChiModel.Labels
import ChiModel.ReducedResize
import ChiModel.TopLevel
import ChiModel.PosteriorS1
import ChiModel.CtrlHistory
import ChiDriver.C08
open Wire ChiModel
namespace ChiDriver.C17

def hexVal (c : Char) : Option Nat :=
  if '0' ≤ c ∧ c ≤ '9' then some (c.toNat - '0'.toNat)
  else if 'a' ≤ c ∧ c ≤ 'f' then some (c.toNat - 'a'.toNat + 10) else none

/-- the harness escapes blanks and other characters of a string as `%xx`; labels are compared as the
    strings chi sees -/
def unescGo : List Char → List Char
  | '%' :: a :: b :: rest =>
    match hexVal a, hexVal b with
    | some x, some y => Char.ofNat (16 * x + y) :: unescGo rest
    | _, _ => '%' :: unescGo (a :: b :: rest)
  | c :: rest => c :: unescGo rest
  | [] => []
def unesc (s : String) : String := String.ofList (unescGo s.toList)

def hexDigit (n : Nat) : Char := if n < 10 then Char.ofNat (48 + n) else Char.ofNat (87 + n)
def escChar (c : Char) : List Char :=
  if c.isAlphanum ∨ c = '-' ∨ c = '_' ∨ c = '.' then [c]
  else ['%', hexDigit (c.toNat / 16 % 16), hexDigit (c.toNat % 16)]
def esc (s : String) : String := String.ofList (s.toList.flatMap escChar)

/-- `C17.labels [label|none, …]` → `"err:valueError"` or the list of IDs the individuals end up with -/
def labels : Op
  | [lsV] => do
    let ls ← (← lsV.list?).mapM (Val.opt? Val.str?)
    match Labels.label (ls.map (·.map unesc)) with
    | none => some [errVal "valueError"]
    | some r => some [.list (r.map (fun s => .str (esc s)))]
  | _ => none

/-- `C17.resize namesOld ops namesNew` → the free names and the number of fixed parameters after a history of
    fix requests on the old parameter list followed by a resize to the new list -/
def resize : Op
  | [oldV, opsV, newV] => do
    let namesOld ← oldV.strs?
    let namesNew ← newV.strs?
    let ops ← (← opsV.list?).mapM ChiDriver.C08.parseReq
    let nan : Float := 0.0 / 0.0
    let st := Reduced.run namesOld nan ops
    let c := Reduced.view namesNew nan (Reduced.resize nan namesOld namesNew st)
    some [ofStrs (Reduced.restrict c namesNew), .int (Reduced.nFixed c)]
  | _ => none

/-- `C17.topnames ids bottomNames topNames` → the four name lists (all / top level only, without / with ID
    prefix), the IDs and the two counts of a hierarchical log-likelihood:
    `[names, namesWithIds, topNames, topNamesWithIds, ids, n, nTop]` -/
def topnames : Op
  | [idsV, bottomV, topV] => do
    let ids ← idsV.strs?
    let bottom ← bottomV.strs?
    let top ← topV.strs?
    let h : TopLevel.HLL := ⟨ids.map unesc, bottom.map unesc, top.map unesc⟩
    let out (l : List String) : Val := .list (l.map (fun s => .str (esc s)))
    some [out (h.parameterNames false false), out (h.parameterNames false true),
          out (h.parameterNames true false), out (h.parameterNames true true),
          .list (h.getId.map (fun o => match o with | none => Val.none | some s => .str (esc s))),
          .int (h.nParameters false), .int (h.nParameters true)]
  | _ => none

/-- `C17.posteriorS1 kind nBottom nTop priorExcludes` → `[gradient length, score is -inf]` of the posterior's
    `evaluateS1` at a vector of `nBottom + nTop` entries; `kind` = `plain` (`LogPosterior`: the prior lives on all
    entries), `hierarchical` (`HierarchicalLogPosterior`: on the trailing `nTop`), `filter`
    (`PopulationFilterLogPosterior`: on the leading `nTop`). The likelihood part is taken as finite. -/
def posteriorS1 : Op
  | [kindV, nbV, ntV, exV] => do
    let kind ← kindV.str?
    let nb ← nbV.nat?
    let nt ← ntV.nat?
    let ex ← exV.bool?
    let n := nb + nt
    let sc : Score Float := if ex then .negInf else .val 0.0
    let ll : Unit → PosteriorS1.S1 Float := fun _ => ⟨.val 0.0, List.replicate n 0.0⟩
    let r ← match kind with
      | "plain" => some (PosteriorS1.plain ⟨sc, List.replicate n 0.0⟩ ll)
      | "hierarchical" =>
        some (PosteriorS1.hierarchical (1.0 / 0.0) nb (List.replicate n 1.0) ⟨sc, List.replicate nt 0.0⟩ ll)
      | "filter" =>
        some (PosteriorS1.filter nt (List.replicate n 0.0) ⟨sc, List.replicate nt 0.0⟩ (fun b => ⟨.val 0.0, b⟩))
      | _ => none
    match r with
    | .ok o => some [.int o.grad.length, .bool (PosteriorS1.isInf o.score)]
    | .error _ => some [errVal "valueError"]
  | _ => none

def parseKind : String → Option CtrlHistory.Kind
  | "H" => some .het
  | "P" => some .pooled
  | "LN" => some .lognormal
  | "G" => some .gaussian
  | _ => none

def parseCtrlOp : Val → Option CtrlHistory.Op
  | .list [.str "pop", ksV] => do
    let ks ← (← ksV.strs?).mapM parseKind
    some (.setPop ks)
  | .list [.str "data", nV] => do some (.setData (← nV.nat?))
  | .list [.str "fix", nsV] => do some (.fix ((← nsV.strs?).map unesc))
  | .list [.str "release", nsV] => do some (.release ((← nsV.strs?).map unesc))
  | _ => none

/-- `C17.ctrlHistory bottomNames ops` → `[names, count, top-level names of the posterior | none]` of a
    `ProblemModellingController` after the history `ops` (`[pop [H|P|LN|G …]]`, `[data n]`, `[fix names]`,
    `[release names]`) -/
def ctrlHistory : Op
  | [bottomV, opsV] => do
    let bottom := (← bottomV.strs?).map unesc
    let ops ← (← opsV.list?).mapM parseCtrlOp
    let st := CtrlHistory.run bottom CtrlHistory.init ops
    let out (l : List String) : Val := .list (l.map (fun s => .str (esc s)))
    some [out (CtrlHistory.names bottom st), .int (CtrlHistory.count bottom st),
          match CtrlHistory.posteriorTop bottom st with
          | none => Val.none
          | some t => out t]
  | _ => none

def ops : List (String × Op) :=
  [("C17.labels", labels), ("C17.resize", resize), ("C17.topnames", topnames),
   ("C17.posteriorS1", posteriorS1), ("C17.ctrlHistory", ctrlHistory)]
end ChiDriver.C17
