/-!
# ProblemModellingController held across a history (C17)

`chi/_problems.py`: `set_population_model`, `fix_parameters` (with a population model set: population parameters
only; wraps the population model into a `ReducedPopulationModel`, unwraps it again when nothing is left fixed),
`set_data` (unwraps — all population parameters free again — AND tells the population model the number of
individuals of the new dataset), `get_parameter_names` / `get_n_parameters` (the population model's free names), and
the top level of the posterior that `get_log_posterior` builds (`HierarchicalLogLikelihood` sets the number of
individuals itself: the number of individual likelihoods = the number of individuals in the dataset).

Modelled: population models composed of one elementary one-dimensional sub-model per bottom-level parameter
(heterogeneous / pooled / log-normal / Gaussian); `fix_parameters` only once a population model is set (before
that it changes the bottom-level parameters, not modelled here).
-/
namespace ChiModel.CtrlHistory

inductive Kind where
  | het | pooled | lognormal | gaussian
  deriving DecidableEq, Repr

/-- number of parameters of a one-dimensional sub-model for `n` individuals -/
def kindCount (n : Nat) : Kind → Nat
  | .het => n
  | .pooled => 1
  | .lognormal => 2
  | .gaussian => 2

/-- names of a one-dimensional sub-model whose dimension is called `d`, for `n` individuals -/
def subNames (n : Nat) (d : String) : Kind → List String
  | .het => (List.range n).map (fun k => "ID " ++ toString (k + 1) ++ " " ++ d)
  | .pooled => ["Pooled " ++ d]
  | .lognormal => ["Log mean " ++ d, "Log std. " ++ d]
  | .gaussian => ["Mean " ++ d, "Std. " ++ d]

/-- all names of the composed model: sub-model by sub-model -/
def popNames (n : Nat) : List Kind → List String → List String
  | k :: ks, d :: ds => subNames n d k ++ popNames n ks ds
  | _, _ => []

structure St where
  /-- composition of the population model held, if any -/
  pop : Option (List Kind)
  /-- number of individuals the population model OBJECT currently has (1 for a fresh one) -/
  nModel : Nat
  /-- number of individuals of the dataset, if data is set -/
  data : Option Nat
  /-- names fixed through the reduced wrapper -/
  fixed : List String
  deriving Repr

def init : St := ⟨none, 1, none, []⟩

def allNames (bottom : List String) (st : St) : List String :=
  match st.pop with
  | none => bottom
  | some ks => popNames st.nModel ks bottom

/-- `get_parameter_names()` of the controller -/
def names (bottom : List String) (st : St) : List String :=
  (allNames bottom st).filter (fun nm => !st.fixed.contains nm)

/-- `get_n_parameters()` of the controller (the wrapper's count: all minus fixed) -/
def count (bottom : List String) (st : St) : Nat := (names bottom st).length

inductive Op where
  | setPop (ks : List Kind)
  | setData (n : Nat)
  | fix (ns : List String)
  | release (ns : List String)
  deriving Repr

def step (bottom : List String) (st : St) : Op → St
  | .setPop ks => { st with pop := some ks, nModel := st.data.getD 1, fixed := [] }
  | .setData n => { st with data := some n, nModel := n, fixed := [] }
  | .fix ns =>
    match st.pop with
    | none => st
    | some _ => { st with fixed := st.fixed ++ ns.filter (fun nm => (allNames bottom st).contains nm) }
  | .release ns => { st with fixed := st.fixed.filter (fun nm => !ns.contains nm) }

def run (bottom : List String) (st : St) (ops : List Op) : St := ops.foldl (step bottom) st

/-- top-level names of the posterior the controller builds: the hierarchical likelihood sets the number of
    individuals of the population model to the number of individuals in the dataset, the fixed ones stay out -/
def posteriorTop (bottom : List String) (st : St) : Option (List String) :=
  match st.data, st.pop with
  | some n, some _ => some (names bottom { st with nModel := n })
  | _, _ => none

/-- the variant in which `set_data` EITHER unwraps the reduced model OR sets the number of individuals
    (`if … elif …`): with something fixed the model keeps its old number of individuals -/
def stepUnwrapOnly (bottom : List String) (st : St) : Op → St
  | .setData n =>
    if st.fixed.isEmpty then { st with data := some n, nModel := n }
    else { st with data := some n, fixed := [] }
  | op => step bottom st op

end ChiModel.CtrlHistory
