import ChiModel.LogLik
/-!
# chi/_problems.py — ProblemModellingController

`set_data` (`_check_output_observable_dict`, `_check_covariate_dict`, `_clean_data`, `unique()`,
`_extract_dosing_regimens`, `_check_covariate_values`), `get_log_posterior`
(`_create_log_likelihoods`, `_create_log_likelihood`, `_create_hierarchical_log_likelihood`,
`_extract_covariates`) and the checks of `LogLikelihood.__init__` that decide whether the rows of an
individual are accepted. A dataset is a list of rows (a long-format frame, row by row); a missing
cell (`NaN` / `<NA>`) is `none`.

Three places were repaired in /repo (a5c706c rows ordered by time, d654081 one-element list kept, 614a431
selector stringified). `Legacy.asIs` (all switches `false`) is the code as it is now; the pre-fix
behaviour (`Legacy.preFix`, switches `true`) is kept only for the counterexample theorems.
-/
namespace ChiModel
namespace Problem
open ScalarFns

/-! ## the dataset -/

/-- what a cell of the ID column, a cell of the observable column, or a value of the user's name maps
    may hold before it is turned into a string: an integer, a float with an integer value
    (`2.0`, pandas prints it `'2.0'`), or a string -/
inductive RawId where
  | int (n : Int)
  | flt (n : Int)
  | str (s : String)
  deriving DecidableEq, Repr

/-- `astype("string")` -/
def RawId.key : RawId → String
  | .int n => toString n
  | .flt n => toString n ++ ".0"
  | .str s => s

/-- a row of the frame the user passes; `foreign` are the cells of columns that are not among the keys -/
structure RawRow (α : Type) where
  id : RawId
  time : Option α
  obs : Option RawId
  value : Option α
  dose : Option α
  duration : Option α
  foreign : List String

/-- a row of `self._data` after `data[keys]` and `_clean_data` -/
structure Row (α : Type) where
  id : String
  time : Option α
  obs : Option String
  value : Option α
  dose : Option α
  duration : Option α

variable {α : Type}

/-- `data[keys]` + `_clean_data`: foreign columns are dropped, IDs and observable names become strings; without a dose /
    duration key the column is not kept -/
def clean (hasDose hasDur : Bool) (r : RawRow α) : Row α :=
  { id := r.id.key, time := r.time, obs := r.obs.map RawId.key, value := r.value,
    dose := if hasDose then r.dose else none,
    duration := if hasDose && hasDur then r.duration else none }

def cleanData (hasDose hasDur : Bool) (d : List (RawRow α)) : List (Row α) := d.map (clean hasDose hasDur)

/-- `Series.unique()`: a scan that keeps a value when it has not been seen before -/
def uniqueScan {κ : Type} [DecidableEq κ] (seen : List κ) : List κ → List κ
  | [] => []
  | x :: xs => if x ∈ seen then uniqueScan seen xs else x :: uniqueScan (x :: seen) xs

def unique {κ : Type} [DecidableEq κ] (l : List κ) : List κ := uniqueScan [] l

/-- `self._ids` -/
def ids (d : List (Row α)) : List String := unique (d.map (·.id))

/-- `data[obs_key].dropna().unique()` -/
def observables (d : List (Row α)) : List String := unique (d.filterMap (·.obs))

/-! ## `_create_log_likelihood`: the successive masks -/

/-- rows that survive `data[id == individual]`, `[obs == observable]`, `value.notnull()`,
    `time.notnull()` — in frame order -/
def maskRows (d : List (Row α)) (i b : String) : List (Row α) :=
  let d1 := d.filter (fun r => decide (r.id = i))
  let d2 := d1.filter (fun r => decide (r.obs = some b))
  let d3 := d2.filter (fun r => r.value.isSome)
  d3.filter (fun r => r.time.isSome)

/-- `times.append(temp_df[time].to_numpy()); observations.append(temp_df[value].to_numpy())` -/
def rowsFor (d : List (Row α)) (i b : String) : OutData α α :=
  let m := maskRows d i b
  ⟨m.filterMap (·.time), m.filterMap (·.value)⟩

inductive Err where
  | valueError | typeError | keyError | indexError | simultaneousEvent | protocolEvent
  deriving DecidableEq, Repr

/-- `LogLikelihood.__init__` on one output: `np.any(ts < 0)`, `np.any(ts[:-1] > ts[1:])` -/
def timesAccepted [ScalarFns α] (ts : List α) : Bool :=
  ts.all (fun t => !(lt t (ofNat 0))) && adjacentOk (fun a b => lt a b) ts

/-- insertion by time (stable), the order `LogLikelihood` itself establishes with `argsort` -/
def insertByTime [ScalarFns α] (p : α × α) : List (α × α) → List (α × α)
  | [] => [p]
  | q :: qs => if lt q.1 p.1 then q :: insertByTime p qs else p :: q :: qs

def sortByTime [ScalarFns α] : List (α × α) → List (α × α)
  | [] => []
  | p :: ps => insertByTime p (sortByTime ps)

/-- the per-output data handed to `chi.LogLikelihood`; `sort = true` is the intended behaviour
    (rows ordered by time before they are checked, the code as it is), `false` the pre-fix frame order -/
def outData [ScalarFns α] (sort : Bool) (d : List (Row α)) (i b : String) : OutData α α :=
  let o := rowsFor d i b
  if sort then
    let s := sortByTime (o.times.zip o.obs)
    ⟨s.map (·.1), s.map (·.2)⟩
  else o

/-! ## `_extract_dosing_regimens` -/

/-- `myokit.ProtocolEvent(level, start, duration)` (period 0, multiplier 0) -/
structure Event (α : Type) where
  level : α
  start : α
  duration : α

/-- the default bolus duration `0.01` -/
def bolus [Div α] [ScalarFns α] : α := ofNat 1 / ofNat 100

/-- one dose row → one event: `dose_rate = dose / duration`, `duration = 0.01` when missing -/
def eventOf [Div α] [ScalarFns α] (r : Row α) : Option (Event α) :=
  match r.dose, r.time with
  | some a, some t =>
    let du := r.duration.getD bolus
    some ⟨a / du, t, du⟩
  | _, _ => none

/-- `myokit.Protocol.add`: events are kept ordered by start; two events with the same start raise -/
def protoAdd [ScalarFns α] (e : Event α) : List (Event α) → Except Err (List (Event α))
  | [] => .ok [e]
  | h :: t =>
    if lt e.start h.start then .ok (e :: h :: t)
    else if lt h.start e.start then
      match protoAdd e t with
      | .ok t' => .ok (h :: t')
      | .error x => .error x
    else .error .simultaneousEvent

/-- the loop `for _, row in data.iterrows(): regimen.add(ProtocolEvent(...))` -/
def addAll [ScalarFns α] : List (Event α) → List (Event α) → Except Err (List (Event α))
  | [], reg => .ok reg
  | e :: es, reg =>
    if lt e.start (ofNat 0) || lt e.duration (ofNat 0) then .error .protocolEvent
    else match protoAdd e reg with
      | .ok reg' => addAll es reg'
      | .error x => .error x

/-- dose rows of individual `i` after the masks `id == label`, `dose.notnull()`, `time.notnull()` -/
def doseRows (d : List (Row α)) (i : String) : List (Row α) :=
  let d1 := d.filter (fun r => decide (r.id = i))
  let d2 := d1.filter (fun r => r.dose.isSome)
  d2.filter (fun r => r.time.isSome)

def regimenFor [Div α] [ScalarFns α] (d : List (Row α)) (i : String) : Except Err (List (Event α)) :=
  addAll ((doseRows d i).filterMap eventOf) []

/-- `regimens[label] = regimen` for every label of `self._ids` -/
def extractRegimens [Div α] [ScalarFns α] (d : List (Row α)) :
    List String → Except Err (List (String × List (Event α)))
  | [] => .ok []
  | i :: is =>
    match regimenFor d i with
    | .error x => .error x
    | .ok r => match extractRegimens d is with
      | .error x => .error x
      | .ok rs => .ok ((i, r) :: rs)

/-! ## covariates -/

/-- `temp[temp.id == _id][value].dropna()` with `temp = data[data.obs == covariate]` -/
def covValues (d : List (Row α)) (b i : String) : List α :=
  let temp := d.filter (fun r => decide (r.obs = some b))
  let t2 := temp.filter (fun r => decide (r.id = i))
  t2.filterMap (·.value)

/-- exactly one non-missing value of covariate `c` for every ID -/
def covCountOk (d : List (Row α)) (covMap : List (String × String)) (idl : List String) (c : String) : Bool :=
  match covMap.lookup c with
  | none => false
  | some b => idl.all (fun i => (covValues d b i).length == 1)

/-- `_check_covariate_values`: exactly one non-missing value per covariate and ID -/
def checkCovariateValues (d : List (Row α)) (covMap : List (String × String)) (idl : List String)
    (covNames : List String) : Except Err Unit :=
  if covNames.all (covCountOk d covMap idl) then .ok () else .error .valueError

/-- a numpy array of shape `(n, c)`: the index function; `none` = not yet written (`np.empty`) -/
abbrev Mat (α : Type) := Nat → Nat → Option α

def Mat.set (M : Mat α) (n c : Nat) (v : α) : Mat α :=
  fun n' c' => if n' = n ∧ c' = c then some v else M n' c'

/-- inner loop of `_extract_covariates`: `for idn, _id in enumerate(self._ids)` -/
def fillCol (d : List (Row α)) (b : String) (idc : Nat) : List String → Nat → Mat α → Except Err (Mat α)
  | [], _, M => .ok M
  | i :: is, idn, M =>
    match covValues d b i with
    | [v] => fillCol d b idc is (idn + 1) (M.set idn idc v)
    | _ => .error .valueError       -- "setting an array element with a sequence"

/-- outer loop: `for idc, name in enumerate(covariate_names)` -/
def fillAll (d : List (Row α)) (covMap : List (String × String)) (idl : List String) :
    List String → Nat → Mat α → Except Err (Mat α)
  | [], _, M => .ok M
  | c :: cs, idc, M =>
    match covMap.lookup c with
    | none => .error .keyError
    | some b => match fillCol d b idc idl 0 M with
      | .error x => .error x
      | .ok M' => fillAll d covMap idl cs (idc + 1) M'

def extractCovariates (d : List (Row α)) (covMap : List (String × String)) (idl : List String)
    (covNames : List String) : Except Err (Mat α) :=
  fillAll d covMap idl covNames 0 (fun _ _ => none)

/-- the array as nested lists -/
def Mat.toLists (M : Mat α) (n c : Nat) : List (List (Option α)) :=
  (List.range n).map (fun k => (List.range c).map (fun j => M k j))

/-! ## `set_data` -/

structure Config where
  /-- `mechanistic_model.outputs()` -/
  outputs : List String
  /-- `output_observable_dict` (`none` = not given): entries in the order the user wrote them, possibly
      with keys that are no outputs; values as the user wrote them (9784f5e: stringified by `set_data`) -/
  obsMap : Option (List (String × RawId))
  /-- `population_model.get_covariate_names()` (`[]` without population model) -/
  covNames : List String
  covMap : Option (List (String × RawId))
  /-- a dose key is used (given and the model supports dosing) -/
  hasDose : Bool
  hasDur : Bool
  hasPop : Bool

/-- the controller's state after `set_data` -/
structure Problem (α : Type) where
  data : List (Row α)
  ids : List String
  outputs : List String
  obsMap : List (String × String)
  covNames : List String
  covMap : List (String × String)
  regimens : Option (List (String × List (Event α)))
  hasPop : Bool

/-- the map used when none / one is given: a single output and a single observable are paired,
    otherwise outputs and observables are assumed to have the same names -/
def resolveObsMap (outputs obsv : List String) (m : Option (List (String × String))) :
    List (String × String) :=
  match m with
  | some m => m
  | none => match outputs, obsv with
    | [o], [b] => [(o, b)]
    | _, _ => outputs.map (fun o => (o, o))

/-- every name has an entry and the entry occurs in the frame -/
def mapValid (names obsv : List String) (m : List (String × String)) : Bool :=
  names.all (fun o => match m.lookup o with
    | some b => obsv.contains b
    | none => false)

/-- `_check_output_observable_dict` -/
def checkObsMap (outputs obsv : List String) (m : Option (List (String × String))) :
    Except Err (List (String × String)) :=
  if mapValid outputs obsv (resolveObsMap outputs obsv m) then .ok (resolveObsMap outputs obsv m)
  else .error .valueError

def resolveCovMap (covNames : List String) (m : Option (List (String × String))) : List (String × String) :=
  match m with
  | some m => m
  | none => covNames.map (fun c => (c, c))

/-- `_check_covariate_dict` -/
def checkCovMap (covNames obsv : List String) (m : Option (List (String × String))) :
    Except Err (List (String × String)) :=
  if covNames.isEmpty then .ok []
  else if mapValid covNames obsv (resolveCovMap covNames m) then .ok (resolveCovMap covNames m)
  else .error .valueError

/-- `{k: str(v) for k, v in dict(name_map).items()}` -/
def strMap (m : Option (List (String × RawId))) : Option (List (String × String)) :=
  m.map (fun l => l.map (fun p => (p.1, p.2.key)))

/-- `data[obs_key].dropna().astype(str).unique()` -/
def rawObservables (raw : List (RawRow α)) : List String :=
  unique (raw.filterMap (fun r => r.obs.map RawId.key))

def setData [Div α] [ScalarFns α] (cfg : Config) (raw : List (RawRow α)) : Except Err (Problem α) :=
  let obsv := rawObservables raw
  match checkObsMap cfg.outputs obsv (strMap cfg.obsMap) with
  | .error x => .error x
  | .ok om =>
  match checkCovMap cfg.covNames obsv (strMap cfg.covMap) with
  | .error x => .error x
  | .ok cm =>
  let d := cleanData cfg.hasDose cfg.hasDur raw
  let idl := ids d
  let regs : Except Err (Option (List (String × List (Event α)))) :=
    if cfg.hasDose then
      match extractRegimens d idl with
      | .error x => .error x
      | .ok r => .ok (some r)
    else .ok none
  match regs with
  | .error x => .error x
  | .ok rg =>
  match checkCovariateValues d cm idl cfg.covNames with
  | .error x => .error x
  | .ok () => .ok ⟨d, idl, cfg.outputs, om, cfg.covNames, cm, rg, cfg.hasPop⟩

/-! ## `get_log_posterior` -/

/-- what one `chi.LogLikelihood` is built from: its ID label, per-output data, and the protocol the
    copied mechanistic model carries (`none`: whatever the user's model had) -/
structure Indiv (α : Type) where
  id : String
  data : List (OutData α α)
  regimen : Option (List (Event α))

inductive Posterior (α : Type) where
  /-- `chi.LogPosterior(log_likelihood, prior)` -/
  | single (i : Indiv α)
  /-- `chi.HierarchicalLogPosterior(HierarchicalLogLikelihood(lls, pop, covariates), prior)` -/
  | hier (is : List (Indiv α)) (cov : Option (List (List (Option α))))

structure Legacy where
  /-- #25 (pre-fix): rows are handed over in frame order; now: ordered by time (stable) -/
  frameOrder : Bool
  /-- #26 (pre-fix): a single likelihood is returned bare even when a population model is set -/
  bareSingle : Bool
  /-- #18 (pre-fix): the selector is compared with the string keys as it is; now: `str(individual)` -/
  rawSelector : Bool

/-- the code as it is (after the three `fix:` commits) -/
def Legacy.asIs : Legacy := ⟨false, false, false⟩
/-- the code before the three `fix:` commits -/
def Legacy.preFix : Legacy := ⟨true, true, true⟩

/-- the loop over `self._mechanistic_model.outputs()` in `_create_log_likelihood` -/
def outputsData [ScalarFns α] (lg : Legacy) (P : Problem α) (i : String) :
    List String → Except Err (List (OutData α α))
  | [] => .ok []
  | o :: os =>
    match P.obsMap.lookup o with
    | none => .error .keyError
    | some b => match outputsData lg P i os with
      | .error x => .error x
      | .ok rest => .ok (outData (!lg.frameOrder) P.data i b :: rest)

/-- `_create_log_likelihood(individual)` for a model that currently carries `reg` -/
def createLL [ScalarFns α] (lg : Legacy) (P : Problem α) (i : String) (reg : Option (List (Event α))) :
    Except Err (Indiv α) :=
  match outputsData lg P i P.outputs with
  | .error x => .error x
  | .ok data =>
    if data.all (fun o => timesAccepted o.times) then .ok ⟨i, data, reg⟩ else .error .valueError

/-- `if self._dosing_regimens: self._mechanistic_model.set_dosing_regimen(self._dosing_regimens[individual])`
    (a non-empty dict is truthy): the protocol the controller's model carries afterwards -/
def setRegimen (P : Problem α) (i : String) (shared : Option (List (Event α))) :
    Except Err (Option (List (Event α))) :=
  match P.regimens with
  | some (r :: rs) => match (r :: rs).lookup i with
    | some e => .ok (some e)
    | none => .error .keyError
  | _ => .ok shared

/-- `_create_log_likelihoods(ids)`: `shared` is the protocol of the controller's own mechanistic
    model, which is re-set before each individual and copied by `LogLikelihood.__init__` -/
def createLLs [ScalarFns α] (lg : Legacy) (P : Problem α) :
    List String → Option (List (Event α)) → Except Err (List (Indiv α) × Option (List (Event α)))
  | [], shared => .ok ([], shared)
  | i :: is, shared =>
    match setRegimen P i shared with
    | .error x => .error x
    | .ok sh =>
      match createLL lg P i sh with
      | .error x => .error x
      | .ok ind => match createLLs lg P is sh with
        | .error x => .error x
        | .ok (rest, shEnd) => .ok (ind :: rest, shEnd)

/-- the `individual` argument: nothing, or a value the caller passes -/
def selectId (lg : Legacy) (idl : List String) (sel : RawId) : Except Err String :=
  if lg.rawSelector then
    match sel with
    | .str s => if s ∈ idl then .ok s else .error .valueError
    | _ => .error .valueError          -- an int / float is never equal to a string key
  else if sel.key ∈ idl then .ok sel.key else .error .valueError

/-- which individuals `get_log_posterior(individual)` builds -/
def selectIds (lg : Legacy) (P : Problem α) (sel : Option RawId) : Except Err (List String) :=
  if P.hasPop then .ok P.ids
  else match sel with
    | none => match P.ids with
      | [] => .error .indexError
      | i :: _ => .ok [i]
    | some s => match selectId lg P.ids s with
      | .ok i => .ok [i]
      | .error x => .error x

def getLogPosterior [ScalarFns α] (lg : Legacy) (P : Problem α) (sel : Option RawId)
    (shared : Option (List (Event α))) : Except Err (Posterior α × Option (List (Event α))) :=
  match selectIds lg P sel with
  | .error x => .error x
  | .ok il =>
  match createLLs lg P il shared with
  | .error x => .error x
  | .ok (lls, shEnd) =>
    if P.hasPop then
      if lg.bareSingle && il.length == 1 then .error .typeError   -- `for ll in log_likelihoods` on a bare LogLikelihood
      else if P.covNames.isEmpty then .ok (.hier lls none, shEnd)
      else match extractCovariates P.data P.covMap P.ids P.covNames with
        | .error x => .error x
        | .ok M => .ok (.hier lls (some (M.toLists P.ids.length P.covNames.length)), shEnd)
    else match lls with
      | [l] => .ok (.single l, shEnd)
      | _ => .error .indexError

/-- the repair proposed for the finding `C14-stale-regimen` (the regimen of an individual is set on a
    copy of the controller's mechanistic model): same posterior, but the controller's own model keeps the
    protocol it had (`shared`) — also when the call raises -/
def getLogPosteriorPure [ScalarFns α] (lg : Legacy) (P : Problem α) (sel : Option RawId)
    (shared : Option (List (Event α))) : Except Err (Posterior α × Option (List (Event α))) :=
  match getLogPosterior lg P sel shared with
  | .error x => .error x
  | .ok (post, _) => .ok (post, shared)

/-- a history of `get_log_posterior` calls on one controller (the data may be replaced between calls):
    `step` is one call, the protocol on the controller's model is threaded through -/
def runSeq (step : Problem α → Option RawId → Option (List (Event α)) →
      Except Err (Posterior α × Option (List (Event α)))) :
    List (Problem α × Option RawId) → Option (List (Event α)) → List (Except Err (Posterior α))
  | [], _ => []
  | (P, sel) :: rest, sh =>
    match step P sel sh with
    | .ok (post, sh') => .ok post :: runSeq step rest sh'
    | .error x => .error x :: runSeq step rest sh

/-! ## the specification: what the dataset describes -/

/-- row `r` contributes the measurement `(t, y)` to individual `i` and observable `b` -/
def contrib (i b : String) (r : Row α) : Option (α × α) :=
  if r.id = i ∧ r.obs = some b then
    match r.time, r.value with
    | some t, some y => some (t, y)
    | _, _ => none
  else none

def specRows (d : List (Row α)) (i b : String) : List (α × α) := d.filterMap (contrib i b)

/-- row `r` is a dose of individual `i` -/
def doseOf [Div α] [ScalarFns α] (i : String) (r : Row α) : Option (Event α) :=
  if r.id = i then eventOf r else none

def specDoses [Div α] [ScalarFns α] (d : List (Row α)) (i : String) : List (Event α) :=
  d.filterMap (doseOf i)

/-- the values of covariate observable `b` recorded for individual `i` -/
def specCov (d : List (Row α)) (b i : String) : List α :=
  d.filterMap (fun r => if r.id = i ∧ r.obs = some b then r.value else none)

/-- IDs in order of first appearance: row `k` introduces its ID iff no earlier row carries it -/
def specIds (l : List String) : List String :=
  (List.range l.length).filterMap (fun k => match l[k]? with
    | some x => bif (l.take k).contains x then none else some x
    | none => none)

end Problem
end ChiModel
