import ChiModel.LogLik
/-!
# `LogLikelihood.evaluateS1`, `LogPosterior.evaluateS1`, and the placement of gradient blocks in
# `ComposedPopulationModel._compute_reduced_sensitivities`.  No Mathlib.
-/
namespace ChiModel
variable {α : Type} [Add α] [Sub α] [Mul α] [Div α] [Neg α] [ScalarFns α]
open ScalarFns

/-- raw (in-support) log-likelihood of one output's error model -/
def emLLraw (k : EM) (sig : List α) (n : Nat) (ybar obs : Nat → α) : α :=
  let s0 := sig.getD 0 (ofNat 0)
  let s1 := sig.getD 1 (ofNat 0)
  match k with
  | .gauss => gaussLLraw n s0 ybar obs
  | .mult => multLLraw n s0 ybar obs
  | .cm => cmLLraw n s0 s1 ybar obs
  | .ln => lnLLraw n s0 ybar obs

/-- `error_model.compute_sensitivities(...)[1][:n_mech]`, entry `k` -/
def emDPsi (m : EM) (sig : List α) (n : Nat) (ybar obs : Nat → α) (S : Nat → Nat → α) (k : Nat) : α :=
  let s0 := sig.getD 0 (ofNat 0)
  let s1 := sig.getD 1 (ofNat 0)
  match m with
  | .gauss => gaussDPsi n s0 ybar obs S k
  | .mult => multDPsi n s0 ybar obs S k
  | .cm => cmDPsi n s0 s1 ybar obs S k
  | .ln => lnDPsi n s0 ybar obs S k

/-- `error_model.compute_sensitivities(...)[1][n_mech:]`, entry `e` -/
def emDSig (m : EM) (sig : List α) (n : Nat) (ybar obs : Nat → α) (e : Nat) : α :=
  let s0 := sig.getD 0 (ofNat 0)
  let s1 := sig.getD 1 (ofNat 0)
  match m with
  | .gauss => gaussDSigma n s0 ybar obs
  | .mult => multDSrel n s0 ybar obs
  | .cm => if e = 0 then cmDSb n s0 s1 ybar obs else cmDSr n s0 s1 ybar obs
  | .ln => lnDSigma n s0 ybar obs

/-- one output as `evaluateS1` sees it after selection: predictions, sensitivities
    (`S j k` = ∂ȳ_j/∂ψ_k), observations -/
structure OutS1 (α : Type) where
  n : Nat
  ybar : Nat → α
  S : Nat → Nat → α
  obs : Nat → α

/-- the loop of `evaluateS1`: `sensitivities[:n_mech] += s[:n_mech]`,
    `sensitivities[n_mech+start : n_mech+end] += s[n_mech:]`, `start = end` -/
def s1Go (nMech : Nat) (ems : List EM) (sig : List α) :
    Nat → List (OutS1 α) → (mech : List α) → (err : List α) → List α × List α
  | _, [], mech, err => (mech, err)
  | o, d :: ds, mech, err =>
    let m := ems.getD o .gauss
    let sg := sliceFor ems sig o
    let mech' := (List.range nMech).map (fun k => mech.getD k (ofNat 0) + emDPsi m sg d.n d.ybar d.obs d.S k)
    let err' := err ++ (List.range m.nParams).map (fun e => emDSig m sg d.n d.ybar d.obs e)
    s1Go nMech ems sig (o + 1) ds mech' err'

/-- the gradient vector of `LogLikelihood.evaluateS1`: mechanistic block, then every output's
    error-parameter block in output order -/
def llS1Grad (nMech : Nat) (ems : List EM) (sig : List α) (outs : List (OutS1 α)) : List α :=
  let r := s1Go nMech ems sig 0 outs ((List.range nMech).map (fun _ => ofNat 0)) []
  r.1 ++ r.2

/-- raw score accumulated alongside -/
def llS1Raw (ems : List EM) (sig : List α) : Nat → List (OutS1 α) → α
  | _, [] => ofNat 0
  | o, d :: ds => emLLraw (ems.getD o .gauss) (sliceFor ems sig o) d.n d.ybar d.obs
      + llS1Raw ems sig (o + 1) ds

/-! ## placement of the sub-models' gradient blocks in the hierarchical gradient -/

/-- what one population sub-model returns with `reduce=True`: its individual-level block
    (`nIds × nDim`, row-major; empty for pooled / heterogeneous) and its population-level block -/
structure SubGrad (α : Type) where
  nDim : Nat
  hier : Bool
  bottom : List α
  top : List α

/-- `_compute_reduced_sensitivities`: `dscore[n_bottom+current_top : …] = ds[n_b:]`,
    `dpsi[:, current_hdim : +n_dim] = ds[:n_b].reshape(n_ids, n_dim)`, then
    `dscore[:n_bottom] = dpsi.flatten()` -/
def placeGo (nIds : Nat) : List (SubGrad α) → (cols : List (Nat → Nat → Option α)) → (top : List α) →
    List (Nat → Nat → Option α) × List α
  | [], cols, top => (cols, top)
  | g :: gs, cols, top =>
    let cols' := if g.hier then
      cols ++ [fun i d => if d < g.nDim then g.bottom[i * g.nDim + d]? else none] else cols
    placeGo nIds gs cols' (top ++ g.top)

/-- number of individual-level columns contributed by each block (for flattening) -/
def placeFlat (nIds : Nat) (gs : List (SubGrad α)) : List (Option α) × List α :=
  let r := placeGo nIds gs [] []
  let widths := (gs.filter (·.hier)).map (·.nDim)
  ((List.range nIds).flatMap (fun i =>
      (List.zip r.1 widths).flatMap (fun cw => (List.range cw.2).map (fun d => cw.1 i d))), r.2)

/-! ## a mechanistic model that refuses the point (`simulate` raises)

`LogLikelihood.__call__` and `LogLikelihood.evaluateS1` both wrap the call of `simulate` in
`try: … except (myokit.SimulationError, Exception): warn; return -inf [, np.full(len(parameters), inf)]`.
`LogPosterior` / `HierarchicalLogPosterior` evaluate the prior first and return it when `np.isinf`;
`HierarchicalLogLikelihood.__call__` evaluates the population model first and returns its score when
`np.isinf`, then adds the individuals' scores in order; `HierarchicalLogLikelihood.evaluateS1` adds the
individuals' scores to `0` in order and the population model's score last (no early return). -/
namespace Guarded

/-- what the mechanistic model does at the individual's parameters: it raises (any exception), or it
    delivers outputs, from which the error models compute `score` (C04: the same score, guards
    included, with and without sensitivities — `C03_score_agree`) -/
inductive Sim (α : Type) where
  | raises : Sim α
  | delivers (score : Score α) : Sim α

/-- the vector handed out with the score: the assembled gradient, or `np.full(shape=n, fill_value=inf)` -/
inductive GradOut (α : Type) where
  | assembled (g : List α) : GradOut α
  | allInf (n : Nat) : GradOut α

def GradOut.length : GradOut α → Nat
  | .assembled g => g.length
  | .allInf n => n

/-- `LogLikelihood.__call__` -/
def llCall : Sim α → Score α
  | .raises => .negInf
  | .delivers s => s

/-- `LogLikelihood.evaluateS1` at a vector of `nPar` parameters; `g` is the assembled gradient
    (`llS1Grad`) when the model delivers -/
def llS1 (nPar : Nat) (g : List α) : Sim α → Score α × GradOut α
  | .raises => (.negInf, .allInf nPar)
  | .delivers s => (s, .assembled g)

/-- `LogPosterior.__call__` / `HierarchicalLogPosterior.__call__`, and the score of their `evaluateS1`:
    prior first, `np.isinf` → returned as it is; otherwise prior + likelihood -/
def withPrior (prior : Score α) (ll : Unit → Score α) : Score α :=
  match prior with
  | .negInf => .negInf
  | p => Score.add p (ll ())

/-- `HierarchicalLogLikelihood.__call__` -/
def hierCall (pop : Score α) (inds : List (Sim α)) : Score α :=
  match pop with
  | .negInf => .negInf
  | p => inds.foldl (fun acc s => Score.add acc (llCall s)) p

/-- the score of `HierarchicalLogLikelihood.evaluateS1` (`nPar`, `g`: per individual, immaterial for the score) -/
def hierS1 (nPar : Nat) (g : List α) (pop : Score α) (inds : List (Sim α)) : Score α :=
  Score.add (inds.foldl (fun acc s => Score.add acc (llS1 nPar g s).1) Score.zero) pop

/-- is the score a finite number? -/
def isVal : Score α → Bool
  | .val _ => true
  | _ => false

end Guarded

end ChiModel
