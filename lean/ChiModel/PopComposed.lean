import ChiModel.PopLayout
import ChiModel.Hier
/-!
# ComposedPopulationModel: compute_log_likelihood, _compute_sensitivities,
# _compute_reduced_sensitivities, n_hierarchical_parameters (sub-models without covariates)

The loops are written with their running offsets (`current_dim`, `current_param`, `current_top`,
`current_hdim`), exactly as in the code; the declarative reading ("each part on its own dimensions
and parameters") is the specification they are proved equal to in `Props/C05.lean`.
A composed model only takes the flat parameter vector (it slices it).
-/
namespace ChiModel
variable {α : Type} [Add α] [Sub α] [Mul α] [Div α] [Neg α] [ScalarFns α]
open ScalarFns

/-- a sub-model's view of the flat slice starting at `off`:
    `parameters[off : off + n].reshape(1, k, n_dim)` -/
def sliceTh (params : Nat → α) (off nDim : Nat) : Nat → Nat → Nat → α :=
  fun _ p d => params (off + p * nDim + d)

def sliceObs (obs : Nat → Nat → α) (off : Nat) : Nat → Nat → α := fun i d => obs i (off + d)

def sliceUp (up : Option (Nat → Nat → α)) (off : Nat) : Option (Nat → Nat → α) :=
  up.map (fun u => fun i d => u i (off + d))

/-- `compute_log_likelihood`: the loop -/
def composedLLGo [HasErf α] (nIds : Nat) (params : Nat → α) (obs : Nat → Nat → α) :
    List SubModel → (curDim curParam : Nat) → Score α → Score α
  | [], _, _, acc => acc
  | s :: ss, curDim, curParam, acc =>
    composedLLGo nIds params obs ss (curDim + s.nDim) (curParam + s.kind.nParams nIds s.nDim)
      (Score.add acc (popLL s.kind nIds s.nDim (sliceTh params curParam s.nDim) (sliceObs obs curDim)))

def composedLL [HasErf α] (nIds : Nat) (subs : List SubModel) (params : Nat → α)
    (obs : Nat → Nat → α) : Score α :=
  composedLLGo nIds params obs subs 0 0 Score.zero

/-- the specification of additivity: part `k` evaluated on its own block, offsets = sizes of the
    parts before it -/
def pcDimOff (subs : List SubModel) (k : Nat) : Nat := ((subs.take k).map (·.nDim)).sum
def paramOff (nIds : Nat) (subs : List SubModel) (k : Nat) : Nat :=
  ((subs.take k).map (fun s => s.kind.nParams nIds s.nDim)).sum

def partLL [HasErf α] (nIds : Nat) (subs : List SubModel) (params : Nat → α) (obs : Nat → Nat → α)
    (k : Nat) : Score α :=
  match subs[k]? with
  | none => Score.zero
  | some s => popLL s.kind nIds s.nDim (sliceTh params (paramOff nIds subs k) s.nDim)
      (sliceObs obs (pcDimOff subs k))

def composedLLSpec [HasErf α] (nIds : Nat) (subs : List SubModel) (params : Nat → α)
    (obs : Nat → Nat → α) : Score α :=
  (List.range subs.length).foldl (fun acc k => Score.add acc (partLL nIds subs params obs k)) Score.zero

/-! ## sensitivities, separate form (`reduce=False`) -/

structure CompSens (α : Type) where
  score : Score α
  defined : Bool
  /-- one column per dimension of the composed model: `dpsi[:, c]` -/
  cols : List (Nat → α)
  /-- `dtheta`, sub-model blocks concatenated -/
  dtheta : List α

def composedSensGo [HasErf α] (nIds : Nat) (params : Nat → α) (obs : Nat → Nat → α)
    (up : Option (Nat → Nat → α)) :
    List SubModel → (curDim curParam : Nat) → CompSens α → CompSens α
  | [], _, _, acc => acc
  | s :: ss, curDim, curParam, acc =>
    let so := popSens s.kind nIds s.nDim (sliceTh params curParam s.nDim) (sliceObs obs curDim)
      (sliceUp up curDim)
    composedSensGo nIds params obs up ss (curDim + s.nDim) (curParam + s.kind.nParams nIds s.nDim)
      ⟨Score.add acc.score so.score, acc.defined && so.defined,
       acc.cols ++ (List.range s.nDim).map (fun d => fun i => so.dpsi i d),
       acc.dtheta ++ shapeFlattened s.kind nIds s.nDim so⟩

def composedSens [HasErf α] (nIds : Nat) (subs : List SubModel) (params : Nat → α)
    (obs : Nat → Nat → α) (up : Option (Nat → Nat → α)) : CompSens α :=
  composedSensGo nIds params obs up subs 0 0 ⟨Score.zero, true, [], []⟩

/-! ## sensitivities, hierarchical form (`reduce=True`) -/

structure CompRed (α : Type) where
  score : Score α
  defined : Bool
  /-- columns of the `(n_ids, n_hierarchical_dim)` bottom block -/
  hcols : List (Nat → α)
  /-- top-level block -/
  tops : List α

def composedRedGo [HasErf α] (nIds : Nat) (params : Nat → α) (obs : Nat → Nat → α)
    (up : Option (Nat → Nat → α)) :
    List SubModel → (curDim curTop : Nat) → CompRed α → CompRed α
  | [], _, _, acc => acc
  | s :: ss, curDim, curTop, acc =>
    let so := popSens s.kind nIds s.nDim (sliceTh params curTop s.nDim) (sliceObs obs curDim)
      (sliceUp up curDim)
    let ds := shapeReduce s.kind nIds s.nDim so
    let nb := (s.kind.nHierParams nIds s.nDim).1
    let nt := (s.kind.nHierParams nIds s.nDim).2
    -- `dpsi[:, current_hdim:end_hdim] = ds[:n_b].reshape(n_ids, n_dim)` only `if n_b > 0`
    let newCols := if nb > 0 then (List.range s.nDim).map (fun d => fun i => ds.getD (i * s.nDim + d) zero)
      else []
    composedRedGo nIds params obs up ss (curDim + s.nDim) (curTop + nt)
      ⟨Score.add acc.score so.score, acc.defined && so.defined, acc.hcols ++ newCols,
       acc.tops ++ ds.drop nb⟩

/-- `dscore`: bottom block flattened individual-major, then the top block -/
def composedReduced [HasErf α] (nIds : Nat) (subs : List SubModel) (params : Nat → α)
    (obs : Nat → Nat → α) (up : Option (Nat → Nat → α)) : Score α × Bool × List α :=
  let r := composedRedGo nIds params obs up subs 0 0 ⟨Score.zero, true, [], []⟩
  (r.score, r.defined, (List.range nIds).flatMap (fun i => r.hcols.map (fun c => c i)) ++ r.tops)

/-- `n_hierarchical_parameters(n_ids)`: the loop -/
def composedNHier (nIds : Nat) : List SubModel → Nat × Nat
  | [] => (0, 0)
  | s :: ss =>
    let r := composedNHier nIds ss
    ((s.kind.nHierParams nIds s.nDim).1 + r.1, (s.kind.nHierParams nIds s.nDim).2 + r.2)

def composedNParams (nIds : Nat) (subs : List SubModel) : Nat :=
  (subs.map (fun s => s.kind.nParams nIds s.nDim)).sum

def composedNDim (subs : List SubModel) : Nat := (subs.map (·.nDim)).sum

end ChiModel
