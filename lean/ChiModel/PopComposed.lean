import ChiModel.PopLayout
import ChiModel.Hier
import ChiModel.Covariate
/-!
# ComposedPopulationModel: compute_log_likelihood, _compute_sensitivities,
# _compute_reduced_sensitivities, n_hierarchical_parameters

Sub-models are elementary population models, bare (`nCov = 0`) or wrapped in a
`CovariatePopulationModel` (`nCov > 0`, stored selection `sel`; `Covariate.lean` supplies the
linear transform `covTh` and its transposed map `covSens`).

The loops are written with their running offsets (`current_dim`, `current_param` /
`current_top`, `current_cov`, `current_hdim`), exactly as in the code; the declarative reading
("each part on its own dimensions, parameters and covariates") is the specification they are
proved equal to in `Props/C05.lean`. A composed model only takes the flat parameter vector.
-/
namespace ChiModel
variable {α : Type} [Add α] [Sub α] [Mul α] [Div α] [Neg α] [ScalarFns α]
open ScalarFns

/-- a sub-model's view of the flat slice starting at `off`:
    `parameters[off : off + n].reshape(1, k, n_dim)` -/
def sliceTh (params : Nat → α) (off nDim : Nat) : Nat → Nat → Nat → α :=
  fun _ p d => params (off + p * nDim + d)

def sliceObs (obs : Nat → Nat → α) (off : Nat) : Nat → Nat → α := fun i d => obs i (off + d)

def sliceUp (up : Option (Nat → Nat → α)) (off : Nat) : Option (Nat → Nat → α) :=
  up.map (fun u => fun i d => u i (off + d))

/-- `covariates[:, current_cov:end_cov]` -/
def sliceCov (cov : Nat → Nat → α) (off : Nat) : Nat → Nat → α := fun i c => cov i (off + c)

/-- the covariate model's bookkeeping of a wrapped sub-model -/
def SubModel.cfg (s : SubModel) (nIds : Nat) : CovCfg := ⟨s.nDim, s.kind.perDim nIds, s.nCov, s.sel⟩

/-- the population parameters a sub-model's kernel sees: its flat slice, or — behind a covariate
    model — the per-individual tensor `ϑ_i = ϑ₀ + β χ_i` (`compute_population_parameters`) -/
def pcSubTh (nIds : Nat) (s : SubModel) (params : Nat → α) (curParam : Nat) (cov : Nat → Nat → α)
    (curCov : Nat) : Nat → Nat → Nat → α :=
  if s.nCov = 0 then sliceTh params curParam s.nDim
  else covTh (s.cfg nIds) (fun j => params (curParam + j)) (sliceCov cov curCov)

/-- `compute_log_likelihood`: the loop -/
def composedLLGo [HasErf α] (nIds : Nat) (params : Nat → α) (obs cov : Nat → Nat → α) :
    List SubModel → (curDim curParam curCov : Nat) → Score α → Score α
  | [], _, _, _, acc => acc
  | s :: ss, curDim, curParam, curCov, acc =>
    composedLLGo nIds params obs cov ss (curDim + s.nDim) (curParam + s.nTop nIds) (curCov + s.nCov)
      (Score.add acc (popLL s.kind nIds s.nDim (pcSubTh nIds s params curParam cov curCov)
        (sliceObs obs curDim)))

def composedLL [HasErf α] (nIds : Nat) (subs : List SubModel) (params : Nat → α)
    (obs cov : Nat → Nat → α) : Score α :=
  composedLLGo nIds params obs cov subs 0 0 0 Score.zero

/-- the specification of additivity: part `k` evaluated on its own block, offsets = sizes of the
    parts before it -/
def pcDimOff (subs : List SubModel) (k : Nat) : Nat := ((subs.take k).map (·.nDim)).sum
def paramOff (nIds : Nat) (subs : List SubModel) (k : Nat) : Nat :=
  ((subs.take k).map (fun s => s.nTop nIds)).sum
def pcCovOff (subs : List SubModel) (k : Nat) : Nat := ((subs.take k).map (·.nCov)).sum

def partLL [HasErf α] (nIds : Nat) (subs : List SubModel) (params : Nat → α) (obs cov : Nat → Nat → α)
    (k : Nat) : Score α :=
  match subs[k]? with
  | none => Score.zero
  | some s => popLL s.kind nIds s.nDim (pcSubTh nIds s params (paramOff nIds subs k) cov (pcCovOff subs k))
      (sliceObs obs (pcDimOff subs k))

def composedLLSpec [HasErf α] (nIds : Nat) (subs : List SubModel) (params : Nat → α)
    (obs cov : Nat → Nat → α) : Score α :=
  (List.range subs.length).foldl (fun acc k => Score.add acc (partLL nIds subs params obs cov k))
    Score.zero

/-! ## what a sub-model returns to the composed model -/

/-- `compute_sensitivities(...)` third value (flattened `dtheta`): a bare model's `_shape`, or the
    covariate model's `hstack(dpop, dcov)` of the wrapped model's `(n_ids, n_per, n_dim)` form -/
def subFlattened (nIds : Nat) (s : SubModel) (so : SensOut α) (cov : Nat → Nat → α) : List α :=
  if s.nCov = 0 then shapeFlattened s.kind nIds s.nDim so
  else covSens (s.cfg nIds) nIds so.dtheta cov

/-- `compute_sensitivities(..., reduce=True)`. Behind a covariate model (since `3d6f67b`): kinds
    with individual-level entries return `hstack(dpsi.flatten(), dtheta)`; pooled / heterogeneous
    ones add `dpsi` onto row 0 / the individual's own row of `dvartheta` and push that through the
    covariate model. -/
def subReduce (nIds : Nat) (s : SubModel) (so : SensOut α) (cov : Nat → Nat → α) : List α :=
  if s.nCov = 0 then shapeReduce s.kind nIds s.nDim so
  else if s.kind.hierarchical then
    flatPsi nIds s.nDim so.dpsi ++ covSens (s.cfg nIds) nIds so.dtheta cov
  else
    covSens (s.cfg nIds) nIds
      (fun i p d => if p = (match s.kind with | .hetero => i | _ => 0)
        then so.dtheta i p d + so.dpsi i d else so.dtheta i p d) cov

/-- `n_hierarchical_parameters(n_ids)` of a sub-model = (bottom, top) -/
def SubModel.nHierP (s : SubModel) (nIds : Nat) : Nat × Nat :=
  (if s.kind.hierarchical then nIds * s.nDim else 0, s.nTop nIds)

/-! ## sensitivities, separate form (`reduce=False`) -/

structure CompSens (α : Type) where
  score : Score α
  defined : Bool
  /-- one column per dimension of the composed model: `dpsi[:, c]` -/
  cols : List (Nat → α)
  /-- `dtheta`, sub-model blocks concatenated -/
  dtheta : List α

def composedSensGo [HasErf α] (nIds : Nat) (params : Nat → α) (obs cov : Nat → Nat → α)
    (up : Option (Nat → Nat → α)) :
    List SubModel → (curDim curParam curCov : Nat) → CompSens α → CompSens α
  | [], _, _, _, acc => acc
  | s :: ss, curDim, curParam, curCov, acc =>
    let so := popSens s.kind nIds s.nDim (pcSubTh nIds s params curParam cov curCov)
      (sliceObs obs curDim) (sliceUp up curDim)
    composedSensGo nIds params obs cov up ss (curDim + s.nDim) (curParam + s.nTop nIds)
      (curCov + s.nCov)
      ⟨Score.add acc.score so.score, acc.defined && so.defined,
       acc.cols ++ (List.range s.nDim).map (fun d => fun i => so.dpsi i d),
       acc.dtheta ++ subFlattened nIds s so (sliceCov cov curCov)⟩

def composedSens [HasErf α] (nIds : Nat) (subs : List SubModel) (params : Nat → α)
    (obs cov : Nat → Nat → α) (up : Option (Nat → Nat → α)) : CompSens α :=
  composedSensGo nIds params obs cov up subs 0 0 0 ⟨Score.zero, true, [], []⟩

/-! ## sensitivities, hierarchical form (`reduce=True`) -/

structure CompRed (α : Type) where
  score : Score α
  defined : Bool
  /-- columns of the `(n_ids, n_hierarchical_dim)` bottom block -/
  hcols : List (Nat → α)
  /-- top-level block -/
  tops : List α

def composedRedGo [HasErf α] (nIds : Nat) (params : Nat → α) (obs cov : Nat → Nat → α)
    (up : Option (Nat → Nat → α)) :
    List SubModel → (curDim curTop curCov : Nat) → CompRed α → CompRed α
  | [], _, _, _, acc => acc
  | s :: ss, curDim, curTop, curCov, acc =>
    let so := popSens s.kind nIds s.nDim (pcSubTh nIds s params curTop cov curCov)
      (sliceObs obs curDim) (sliceUp up curDim)
    let ds := subReduce nIds s so (sliceCov cov curCov)
    let nb := (s.nHierP nIds).1
    let nt := (s.nHierP nIds).2
    -- `dpsi[:, current_hdim:end_hdim] = ds[:n_b].reshape(n_ids, n_dim)` only `if n_b > 0`
    let newCols := if nb > 0 then (List.range s.nDim).map (fun d => fun i => ds.getD (i * s.nDim + d) zero)
      else []
    composedRedGo nIds params obs cov up ss (curDim + s.nDim) (curTop + nt) (curCov + s.nCov)
      ⟨Score.add acc.score so.score, acc.defined && so.defined, acc.hcols ++ newCols,
       acc.tops ++ ds.drop nb⟩

/-- `dscore`: bottom block flattened individual-major, then the top block -/
def composedReduced [HasErf α] (nIds : Nat) (subs : List SubModel) (params : Nat → α)
    (obs cov : Nat → Nat → α) (up : Option (Nat → Nat → α)) : Score α × Bool × List α :=
  let r := composedRedGo nIds params obs cov up subs 0 0 0 ⟨Score.zero, true, [], []⟩
  (r.score, r.defined, (List.range nIds).flatMap (fun i => r.hcols.map (fun c => c i)) ++ r.tops)

/-- `n_hierarchical_parameters(n_ids)`: the loop -/
def composedNHier (nIds : Nat) : List SubModel → Nat × Nat
  | [] => (0, 0)
  | s :: ss =>
    let r := composedNHier nIds ss
    ((s.nHierP nIds).1 + r.1, (s.nHierP nIds).2 + r.2)

def composedNParams (nIds : Nat) (subs : List SubModel) : Nat :=
  (subs.map (fun s => s.nTop nIds)).sum

def composedNDim (subs : List SubModel) : Nat := (subs.map (·.nDim)).sum

def composedNCov (subs : List SubModel) : Nat := (subs.map (·.nCov)).sum

/-! ### `ReducedPopulationModel` around any population model: the fixed-parameter filter on the return forms

`dtheta[~mask]` on the separate / flattened form, and on the hierarchical form the split of the wrapped model's
vector at the wrapped model's number of BOTTOM-level entries (`n_hierarchical_parameters(n_ids)[0]` — pooled and
heterogeneous dimensions have none) followed by the same filter on the top-level block. -/

/-- `x[~mask]` for a boolean mask: numpy raises `IndexError` when the lengths differ (`none`) -/
def maskFree {β : Type} : List Bool → List β → Option (List β)
  | [], [] => some []
  | m :: ms, x :: xs => (maskFree ms xs).map (fun r => if m then r else x :: r)
  | _, _ => none

/-- `np.hstack((dscore[:n_bottom], dscore[n_bottom:][~mask]))` -/
def reducedHier {β : Type} (nBottom : Nat) (mask : List Bool) (v : List β) : Option (List β) :=
  (maskFree mask (v.drop nBottom)).map (fun r => v.take nBottom ++ r)

/-- number of free parameters -/
def nFree (mask : List Bool) : Nat := (mask.filter (fun b => !b)).length

end ChiModel
