import ChiModel.LogLik
/-!
# chi/_population_filters.py — the five population filters, `ComposedPopulationFilter`,
# `sort_times`, `logsumexp`, `softmax`

Index form.  Measurements `obs i r j : Option α` (`none` = `np.nan` = masked entry) for measured
individual `i < m`, observable `r < R`, time `j < T`; simulated measurements `y s r j : α` for
simulated individual `s < n`.  One *cell* is one `(r, j)`: `o i = obs i r j`, `y s = y s r j`.

numpy's masked reductions skip masked entries: `msum` (a masked entry contributes nothing;
theorem `msum_eq_filterMap` in `Props/C12.lean` shows that this is the sum over
`(List.range m).filterMap o`).

Everything lives in `ChiModel.PF` so that short names (`meanI`, `lse`, …) cannot collide with other
model files.
-/
namespace ChiModel
namespace PF
variable {α : Type} [Add α] [Sub α] [Mul α] [Div α] [Neg α] [ScalarFns α]
open ScalarFns

def oneS : α := ofNat 1

/-- `np.mean(x, axis=0)` over the simulated individuals -/
def meanI (n : Nat) (y : Nat → α) : α := isum n y / ofNat n

/-- `np.var(x, ddof=1, axis=0)` -/
def varI (n : Nat) (y : Nat → α) : α :=
  isum n (fun s => (y s - meanI n y) * (y s - meanI n y)) / (ofNat n - ofNat 1)

/-- masked sum over the measured individuals: `np.sum` of a masked array -/
def msum (m : Nat) (o : Nat → Option α) (f : α → α) : α :=
  isum m (fun i => match o i with
    | some v => f v
    | none => ofNat 0)

/-- `np.isfinite` through arithmetic: `x - x` is `0` for finite `x` and `nan` otherwise -/
def isFiniteS (x : α) : Bool := le (x - x) (ofNat 0)

/-- `np.max(a, axis=0)` -/
def imax (n : Nat) (a : Nat → α) : α :=
  (List.range n).foldl (fun mx s => if lt mx (a s) then a s else mx) (a 0)

/-- `logsumexp(a, axis=0)`: shift by the (finite) maximum, exponentiate, sum, log, shift back -/
def lse (n : Nat) (a : Nat → α) : α :=
  let mx := imax n a
  let sh := if isFiniteS mx then mx else ofNat 0
  log (isum n (fun s => exp (a s - sh))) + sh

/-- `softmax(a, axis=0)[s] = exp(a - logsumexp(a, keepdims=True))` -/
def softmaxI (n : Nat) (a : Nat → α) (s : Nat) : α := exp (a s - lse n a)

/-! ## GaussianFilter -/

/-- summand of `_compute_log_likelihood` -/
def gfTerm (mu var v : α) : α := log (two * pi) + log var + (v - mu) * (v - mu) / var

def gfCell (m n : Nat) (o : Nat → Option α) (y : Nat → α) : α :=
  Neg.neg (msum m o (gfTerm (meanI n y) (varI n y))) / two

/-- `compute_sensitivities`, entry of simulated individual `s` -/
def gfGradCell (m n : Nat) (o : Nat → Option α) (y : Nat → α) (s : Nat) : α :=
  let mu := meanI n y
  let var := varI n y
  msum m o (fun v => (v - mu) / var) / ofNat n
    + msum m o (fun v => Neg.neg (oneS / var) + (v - mu) * (v - mu) / (var * var))
      * (y s - mu) / (ofNat n - ofNat 1)

/-! ## LogNormalFilter (measurements and simulated values are log-transformed first) -/

def logv (y : Nat → α) : Nat → α := fun s => log (y s)
def logo (o : Nat → Option α) : Nat → Option α := fun i => (o i).map log

/-- summand of `_compute_log_likelihood`; `lv` is the logarithm of the measurement -/
def lnTerm (mu var lv : α) : α :=
  log (two * pi) + log var + two * lv + (lv - mu) * (lv - mu) / var

def lnfCell (m n : Nat) (o : Nat → Option α) (y : Nat → α) : α :=
  Neg.neg (msum m (logo o) (lnTerm (meanI n (logv y)) (varI n (logv y)))) / two

def lnfGradCell (m n : Nat) (o : Nat → Option α) (y : Nat → α) (s : Nat) : α :=
  let ly := logv y
  let mu := meanI n ly
  let var := varI n ly
  (msum m (logo o) (fun lv => (lv - mu) / var) / ofNat n
    + msum m (logo o) (fun lv => (lv - mu) * (lv - mu) / (var * var) - oneS / var)
      / (ofNat n - ofNat 1) * ((ly s - mu) - meanI n (fun s' => ly s' - mu))) / y s

/-! ## GaussianKDEFilter / LogNormalKDEFilter -/

/-- `(4 / 3 / n_sim) ** 0.4` -/
def kdeFactor (n : Nat) : α := exp (ofNat 2 / ofNat 5 * log (ofNat 4 / ofNat 3 / ofNat n))

/-- `bw_squared` -/
def kdeBw2 (n : Nat) (y : Nat → α) : α := kdeFactor n * varI n y

/-- `scores[s]` for one measurement `v` -/
def kdeScore (bw2 : α) (y : Nat → α) (v : α) (s : Nat) : α :=
  Neg.neg ((y s - v) * (y s - v)) / bw2 / two

def kdeTerm (n : Nat) (y : Nat → α) (v : α) : α :=
  lse n (kdeScore (kdeBw2 n y) y v) - log (ofNat n) - log (two * pi) / two
    - log (kdeBw2 n y) / two

def kdeCell (m n : Nat) (o : Nat → Option α) (y : Nat → α) : α := msum m o (kdeTerm n y)

/-- `dbw_squared_dsim_by_bw_squared[s]` -/
def kdeD (n : Nat) (y : Nat → α) (s : Nat) : α :=
  two * (y s - meanI n y) / (ofNat n - ofNat 1) / varI n y

def kdeGradCell (m n : Nat) (o : Nat → Option α) (y : Nat → α) (s : Nat) : α :=
  let bw2 := kdeBw2 n y
  msum m o (fun v =>
    softmaxI n (kdeScore bw2 y v) s * (v - y s) / bw2
      - isum n (fun s' => softmaxI n (kdeScore bw2 y v) s' * kdeScore bw2 y v s') * kdeD n y s
      - kdeD n y s / two)

/-- LogNormalKDEFilter: the Gaussian KDE of the logarithms, minus `log y` of every measurement
    (Jacobian of the log-normal density); bandwidth from the simulated log-values -/
def lnkdeCell (m n : Nat) (o : Nat → Option α) (y : Nat → α) : α :=
  msum m (logo o) (fun lv => kdeTerm n (logv y) lv - lv)

/-- `legacy`: the class before commit 95a9ff7 (no `- log y` term) -/
def lnkdeCellLegacy (m n : Nat) (o : Nat → Option α) (y : Nat → α) : α :=
  kdeCell m n (logo o) (logv y)

def lnkdeGradCell (m n : Nat) (o : Nat → Option α) (y : Nat → α) (s : Nat) : α :=
  let ly := logv y
  let bw2 := kdeBw2 n ly
  msum m (logo o) (fun lv =>
    softmaxI n (kdeScore bw2 ly lv) s * (lv - ly s) / bw2 / y s
      - isum n (fun s' => softmaxI n (kdeScore bw2 ly lv) s' * kdeScore bw2 ly lv s')
        * (kdeD n ly s / y s)
      - kdeD n ly s / y s / two)

/-! ## GaussianMixtureFilter: kernel `k` owns the consecutive block `k*p … k*p + p - 1` -/

/-- `simulated_obs.reshape(n_kernels, n_per_kernel, …)[k]` -/
def blk (p k : Nat) (y : Nat → α) : Nat → α := fun q => y (k * p + q)

def mixScore (p : Nat) (y : Nat → α) (v : α) (k : Nat) : α :=
  let mu := meanI p (blk p k y)
  let var := varI p (blk p k y)
  Neg.neg ((mu - v) * (mu - v)) / var / two - log var / two

def mixTerm (K p : Nat) (y : Nat → α) (v : α) : α :=
  lse K (mixScore p y v) - log (ofNat K) - log (two * pi) / two

def mixCell (m K p : Nat) (o : Nat → Option α) (y : Nat → α) : α := msum m o (mixTerm K p y)

def mixGradCell (m K p : Nat) (o : Nat → Option α) (y : Nat → α) (s : Nat) : α :=
  let k := s / p
  let mu := meanI p (blk p k y)
  let var := varI p (blk p k y)
  msum m o (fun v =>
    softmaxI K (mixScore p y v) k
      * ((v - mu) / var / ofNat p
        + (Neg.neg (oneS / var) + (v - mu) * (v - mu) / (var * var)) * (y s - mu)
          / (ofNat p - ofNat 1)))

/-! ## the filter classes -/

inductive FKind
  | gauss
  | gkde
  | mix (K : Nat)
  | lognorm
  | lnkde
  deriving Repr, DecidableEq

def cellVal (k : FKind) (m n : Nat) (o : Nat → Option α) (y : Nat → α) : α :=
  match k with
  | .gauss => gfCell m n o y
  | .gkde => kdeCell m n o y
  | .mix K => mixCell m K (n / K) o y
  | .lognorm => lnfCell m n o y
  | .lnkde => lnkdeCell m n o y

def cellGrad (k : FKind) (m n : Nat) (o : Nat → Option α) (y : Nat → α) (s : Nat) : α :=
  match k with
  | .gauss => gfGradCell m n o y s
  | .gkde => kdeGradCell m n o y s
  | .mix K => mixGradCell m K (n / K) o y s
  | .lognorm => lnfGradCell m n o y s
  | .lnkde => lnkdeGradCell m n o y s

/-- `compute_log_likelihood` when the result is a number: the sum over all cells -/
def filterVal (k : FKind) (m n R T : Nat) (obs : Nat → Nat → Nat → Option α)
    (y : Nat → Nat → Nat → α) : α :=
  isum R (fun r => isum T (fun j => cellVal k m n (fun i => obs i r j) (fun s => y s r j)))

/-- `legacy` LogNormalKDEFilter (before commit 95a9ff7): the sum over all cells without the
    `- log y` terms; kept for `C12_lognormalKDE_jacobian_counterexample` only -/
def filterValLnkdeLegacy (m n R T : Nat) (obs : Nat → Nat → Nat → Option α)
    (y : Nat → Nat → Nat → α) : α :=
  isum R (fun r => isum T (fun j => lnkdeCellLegacy m n (fun i => obs i r j) (fun s => y s r j)))

/-- `compute_sensitivities`, entry `[s, r, j]` -/
def filterGrad (k : FKind) (m n : Nat) (obs : Nat → Nat → Nat → Option α)
    (y : Nat → Nat → Nat → α) (s r j : Nat) : α :=
  cellGrad k m n (fun i => obs i r j) (fun s' => y s' r j) s

/-! ### guards: what numpy turns into `-inf` / `nan` -/

inductive PErr | valueError | indexError
  deriving Repr, DecidableEq

/-- a cell is live when at least one measurement in it is not masked -/
def cellLive (m : Nat) (o : Nat → Option α) : Bool := iany m (fun i => (o i).isSome)

/-- the array has at least one entry and every entry is masked: `np.ma.is_masked(score)` -/
def allMasked (m R T : Nat) (obs : Nat → Nat → Nat → Option α) : Bool :=
  decide (0 < m * R * T) &&
    iall m (fun i => iall R (fun r => iall T (fun j => (obs i r j).isNone)))

/-- the statistics a live cell needs are not in the domain of the documented density
    (`log` / division produce `nan`) -/
def cellBad (k : FKind) (m n : Nat) (o : Nat → Option α) (y : Nat → α) : Bool :=
  cellLive m o && (
    match k with
    | .gauss => le (varI n y) (ofNat 0)
    | .gkde => le (varI n y) (ofNat 0)
    | .mix K => iany K (fun c => le (varI (n / K) (blk (n / K) c y)) (ofNat 0)) || decide (n / K < 2)
    | .lognorm => iany n (fun s => le (y s) (ofNat 0)) || le (varI n (logv y)) (ofNat 0)
        || iany m (fun i => match o i with | some v => le v (ofNat 0) | none => false)
    | .lnkde => iany n (fun s => le (y s) (ofNat 0)) || le (varI n (logv y)) (ofNat 0)
        || iany m (fun i => match o i with | some v => le v (ofNat 0) | none => false))

/-- `compute_log_likelihood(simulated_obs)` -/
def filterLL (k : FKind) (m n R T : Nat) (obs : Nat → Nat → Nat → Option α)
    (y : Nat → Nat → Nat → α) : Except PErr (Score α) :=
  let kernelsOk := match k with
    | .mix K => decide (n % K = 0)
    | _ => true
  if !kernelsOk then .error .valueError
  else if allMasked m R T obs then .ok .negInf
  else if decide (n < 2) ||
      iany R (fun r => iany T (fun j => cellBad k m n (fun i => obs i r j) (fun s => y s r j)))
    then .ok .undefined
  else .ok (.val (filterVal k m n R T obs y))

/-! ## a filter object, `sort_times` -/

structure Filt (α : Type) where
  kind : FKind
  m : Nat
  R : Nat
  T : Nat
  obs : Nat → Nat → Nat → Option α

def hasDup : List Nat → Bool
  | [] => false
  | x :: xs => xs.contains x || hasDup xs

/-- `PopulationFilter.sort_times(order)`: `self._observations[..., order]` -/
def Filt.sortTimes (F : Filt α) (ord : List Nat) : Except PErr (Filt α) :=
  if ord.length ≠ F.T then .error .valueError
  else if hasDup ord then .error .valueError
  else if ord.any (fun k => decide (F.T ≤ k)) then .error .indexError
  else .ok { F with obs := fun i r j => F.obs i r (ord.getD j 0) }

def Filt.val (F : Filt α) (n : Nat) (y : Nat → Nat → Nat → α) : α :=
  filterVal F.kind F.m n F.R F.T F.obs y

def Filt.grad (F : Filt α) (n : Nat) (y : Nat → Nat → Nat → α) (s r j : Nat) : α :=
  filterGrad F.kind F.m n F.obs y s r j

def Filt.ll (F : Filt α) (n : Nat) (y : Nat → Nat → Nat → α) : Except PErr (Score α) :=
  filterLL F.kind F.m n F.R F.T F.obs y

/-! ## `sort_times` and SHARED measurement arrays

`GaussianFilter`, `GaussianKDEFilter` and `GaussianMixtureFilter` keep the caller's ndarray (or a view
of it): several filters may refer to the same array.  Arrays are cells of a store; `sort_times` makes a
NEW array by fancy indexing and rebinds the filter's attribute, it never writes into the shared one. -/

/-- measurement arrays by identity (index) -/
abbrev ObsStore (α : Type) := List (Nat → Nat → Nat → Option α)

/-- a filter object referring to the measurement array `ref` -/
structure FiltRef where
  kind : FKind
  m : Nat
  R : Nat
  T : Nat
  ref : Nat

def FiltRef.deref (st : ObsStore α) (F : FiltRef) : Option (Filt α) :=
  (st[F.ref]?).map (fun o => ⟨F.kind, F.m, F.R, F.T, o⟩)

/-- `self._observations = self._observations[..., order]` -/
def sortTimesRef (st : ObsStore α) (F : FiltRef) (ord : List Nat) : Except PErr (ObsStore α × FiltRef) :=
  match F.deref st with
  | none => .error .indexError
  | some G =>
    match G.sortTimes ord with
    | .error e => .error e
    | .ok G' => .ok (st ++ [G'.obs], { F with ref := st.length })

/-- NOT chi: `self._observations[...] = self._observations[..., order]` (writes into the shared array) -/
def sortTimesRefInPlace (st : ObsStore α) (F : FiltRef) (ord : List Nat) :
    Except PErr (ObsStore α × FiltRef) :=
  match F.deref st with
  | none => .error .indexError
  | some G =>
    match G.sortTimes ord with
    | .error e => .error e
    | .ok G' => .ok (st.set F.ref G'.obs, F)

/-! ## ComposedPopulationFilter -/

structure Comp (α : Type) where
  filters : List (Filt α)
  /-- `_time_order` (`None` until `sort_times` is called with a non-identity order) -/
  timeOrder : Option (List Nat)

def Comp.T (C : Comp α) : Nat := (C.filters.map (·.T)).sum

/-- the constructor's check: every filter models the same number of observables -/
def Comp.mk? (filters : List (Filt α)) : Except PErr (Comp α) :=
  match filters with
  | [] => .error .indexError
  | F :: Fs => if Fs.all (fun G => G.R == F.R) then .ok ⟨F :: Fs, none⟩ else .error .valueError

/-- `np.argsort` of a list of distinct naturals -/
def argsortNat (l : List Nat) : List Nat :=
  (List.range l.length).mergeSort (fun a b => decide (l.getD a 0 ≤ l.getD b 0))

/-- `ComposedPopulationFilter.sort_times(order)`: the order is only remembered -/
def Comp.sortTimes (C : Comp α) (ord : List Nat) : Except PErr (Comp α) :=
  if ord.length ≠ C.T then .error .valueError
  else if hasDup ord then .error .valueError
  else if ord == List.range C.T then .ok C
  else .ok { C with timeOrder := some ord }

/-- `simulated_obs[:, :, current_time_id:end_time_id]` -/
def shiftT (y : Nat → Nat → Nat → α) (off : Nat) : Nat → Nat → Nat → α :=
  fun s r j => y s r (off + j)

/-- `simulated_obs[:, :, self._time_filter_order]` -/
def Comp.presort (C : Comp α) (y : Nat → Nat → Nat → α) : Nat → Nat → Nat → α :=
  match C.timeOrder with
  | none => y
  | some ord => fun s r k => y s r ((argsortNat ord).getD k 0)

def compValFrom (n : Nat) : List (Filt α) → Nat → (Nat → Nat → Nat → α) → α
  | [], _, _ => ofNat 0
  | F :: Fs, off, y => F.val n (shiftT y off) + compValFrom n Fs (off + F.T) y

def compLLFrom (n : Nat) : List (Filt α) → Nat → (Nat → Nat → Nat → α) → Except PErr (Score α)
  | [], _, _ => .ok Score.zero
  | F :: Fs, off, y =>
    match F.ll n (shiftT y off) with
    | .error e => .error e
    | .ok s => match compLLFrom n Fs (off + F.T) y with
      | .error e => .error e
      | .ok t => .ok (Score.add s t)

/-- sensitivities in the order the sub-filters see (before `sensitivities[:, :, _time_order]`) -/
def compGradFrom (n : Nat) : List (Filt α) → Nat → (Nat → Nat → Nat → α) → Nat → Nat → Nat → α
  | [], _, _, _, _, _ => ofNat 0
  | F :: Fs, off, y, s, r, k =>
    if k < off + F.T then F.grad n (shiftT y off) s r (k - off)
    else compGradFrom n Fs (off + F.T) y s r k

def Comp.val (C : Comp α) (n : Nat) (y : Nat → Nat → Nat → α) : α :=
  compValFrom n C.filters 0 (C.presort y)

def Comp.ll (C : Comp α) (n : Nat) (y : Nat → Nat → Nat → α) : Except PErr (Score α) :=
  compLLFrom n C.filters 0 (C.presort y)

/-- `compute_sensitivities(...)[1][s, r, j]`: back in the order of the input -/
def Comp.grad (C : Comp α) (n : Nat) (y : Nat → Nat → Nat → α) (s r j : Nat) : α :=
  match C.timeOrder with
  | none => compGradFrom n C.filters 0 y s r j
  | some ord => compGradFrom n C.filters 0 (C.presort y) s r (ord.getD j 0)

/-! ## nested compositions: a sub-filter of a `ComposedPopulationFilter` may itself be composed

Every composed filter keeps its OWN deferred time order and applies it to the block of simulated values it
is handed (`compute_log_likelihood` / `compute_sensitivities` are called on the sub-filter object). -/

inductive FTree (α : Type) where
  | leaf (F : Filt α)
  | node (children : List (FTree α)) (timeOrder : Option (List Nat))

/-- `simulated_obs[:, :, self._time_filter_order]` for the order kept by one composed filter -/
def presortOrd (ord : Option (List Nat)) (y : Nat → Nat → Nat → α) : Nat → Nat → Nat → α :=
  match ord with
  | none => y
  | some o =>
    let inv := argsortNat o      -- `_time_filter_order`, computed once
    fun s r k => y s r (inv.getD k 0)

mutual
/-- `n_times()` -/
def FTree.T : FTree α → Nat
  | .leaf F => F.T
  | .node cs _ => FTree.sumT cs
def FTree.sumT : List (FTree α) → Nat
  | [] => 0
  | c :: cs => c.T + FTree.sumT cs
end

mutual
def FTree.R : FTree α → Nat
  | .leaf F => F.R
  | .node cs _ => FTree.headR cs
def FTree.headR : List (FTree α) → Nat
  | [] => 0
  | c :: _ => c.R
end

mutual
def FTree.val (n : Nat) : FTree α → (Nat → Nat → Nat → α) → α
  | .leaf F, y => F.val n y
  | .node cs ord, y => FTree.valFrom n cs 0 (presortOrd ord y)
def FTree.valFrom (n : Nat) : List (FTree α) → Nat → (Nat → Nat → Nat → α) → α
  | [], _, _ => ofNat 0
  | c :: cs, off, y => c.val n (shiftT y off) + FTree.valFrom n cs (off + c.T) y
end

mutual
def FTree.ll (n : Nat) : FTree α → (Nat → Nat → Nat → α) → Except PErr (Score α)
  | .leaf F, y => F.ll n y
  | .node cs ord, y => FTree.llFrom n cs 0 (presortOrd ord y)
def FTree.llFrom (n : Nat) : List (FTree α) → Nat → (Nat → Nat → Nat → α) → Except PErr (Score α)
  | [], _, _ => .ok Score.zero
  | c :: cs, off, y =>
    match c.ll n (shiftT y off) with
    | .error e => .error e
    | .ok s => match FTree.llFrom n cs (off + c.T) y with
      | .error e => .error e
      | .ok t => .ok (Score.add s t)
end

mutual
/-- `compute_sensitivities(...)[1][s, r, j]` in the order of the node's input -/
def FTree.grad (n : Nat) : FTree α → (Nat → Nat → Nat → α) → Nat → Nat → Nat → α
  | .leaf F, y, s, r, j => F.grad n y s r j
  | .node cs none, y, s, r, j => FTree.gradFrom n cs 0 y s r j
  | .node cs (some o), y, s, r, j => FTree.gradFrom n cs 0 (presortOrd (some o) y) s r (o.getD j 0)
def FTree.gradFrom (n : Nat) : List (FTree α) → Nat → (Nat → Nat → Nat → α) → Nat → Nat → Nat → α
  | [], _, _, _, _, _ => ofNat 0
  | c :: cs, off, y, s, r, k =>
    if k < off + c.T then c.grad n (shiftT y off) s r (k - off)
    else FTree.gradFrom n cs (off + c.T) y s r k
end

mutual
/-- the simple filters of a nested composition, left to right -/
def FTree.leaves : FTree α → List (Filt α)
  | .leaf F => [F]
  | .node cs _ => FTree.leavesL cs
def FTree.leavesL : List (FTree α) → List (Filt α)
  | [] => []
  | c :: cs => c.leaves ++ FTree.leavesL cs
end

mutual
/-- the index map of a nested composition: the column of the node's INPUT that holds the simulated values
    of the `k`-th time point in the order of the leaves -/
def FTree.col : FTree α → Nat → Nat
  | .leaf _, k => k
  | .node cs none, k => FTree.colL cs 0 k
  | .node cs (some o), k => (argsortNat o).getD (FTree.colL cs 0 k) 0
def FTree.colL : List (FTree α) → Nat → Nat → Nat
  | [], _, k => k
  | c :: cs, off, k => if k < off + c.T then off + c.col (k - off) else FTree.colL cs (off + c.T) k
end

mutual
/-- every order that was accepted by a `sort_times` call is a permutation of the node's time points -/
def FTree.WF : FTree α → Prop
  | .leaf _ => True
  | .node cs none => FTree.WFL cs
  | .node cs (some o) => FTree.WFL cs ∧ o.Perm (List.range (FTree.sumT cs))
def FTree.WFL : List (FTree α) → Prop
  | [] => True
  | c :: cs => c.WF ∧ FTree.WFL cs
end

/-- NOT chi: a constructor that replaces every composed sub-filter by that filter's own sub-filters —
    the deferred time orders of the inner filters are lost -/
def FTree.flattenDroppingOrders (t : FTree α) : Comp α := ⟨t.leaves, none⟩

/-! ## S: the documented densities, written from the class docstrings (executable spec) -/

/-- `N(x | mu, var)` -/
def npdf (mu var x : α) : α :=
  exp (Neg.neg ((x - mu) * (x - mu)) / (two * var)) / sqrt (two * pi * var)

/-- the rule-of-thumb bandwidth `(4 / (3 n_s))^{1/5} · sd` -/
def bwDoc (n : Nat) (var : α) : α :=
  exp (oneS / ofNat 5 * log (ofNat 4 / (ofNat 3 * ofNat n))) * sqrt var

/-- number / mean / variance (ddof = 1) of the non-missing measurements of a cell -/
def mcount (m : Nat) (o : Nat → Option α) : α := msum m o (fun _ => oneS)
def mmean (m : Nat) (o : Nat → Option α) : α := msum m o (fun v => v) / mcount m o
def mvar (m : Nat) (o : Nat → Option α) : α :=
  msum m o (fun v => (v - mmean m o) * (v - mmean m o)) / (mcount m o - oneS)

/-- documented log-density of ONE measurement `v` given the simulated values `y` of its cell -/
def docTerm (k : FKind) (_m n : Nat) (_o : Nat → Option α) (y : Nat → α) (v : α) : α :=
  match k with
  | .gauss => log (npdf (meanI n y) (varI n y) v)
  | .gkde =>
    let bw := bwDoc n (varI n y)
    log (isum n (fun s => npdf (y s) (bw * bw) v) / ofNat n)
  | .mix K =>
    let p := n / K
    log (isum K (fun c => npdf (meanI p (blk p c y)) (varI p (blk p c y)) v / ofNat K))
  | .lognorm => log (npdf (meanI n (logv y)) (varI n (logv y)) (log v) / v)
  | .lnkde =>
    -- the log-normal kernel density; bandwidth by the rule of thumb on the SIMULATED log-values
    -- (the docstring's bandwidth from the measured log-values is `docTermLnkdeMeasured`)
    let bw := bwDoc n (varI n (logv y))
    log (isum n (fun s => npdf (log (y s)) (bw * bw) (log v) / v) / ofNat n)

/-- the log-normal KDE with the bandwidth from the MEASURED log-values of the cell, as the class
    docstring states it (chi deviates: known finding, bandwidth only) -/
def docTermLnkdeMeasured (m n : Nat) (o : Nat → Option α) (y : Nat → α) (v : α) : α :=
  let bw := bwDoc n (mvar m (logo o))
  log (isum n (fun s => npdf (log (y s)) (bw * bw) (log v) / v) / ofNat n)

def docVal (k : FKind) (m n R T : Nat) (obs : Nat → Nat → Nat → Option α)
    (y : Nat → Nat → Nat → α) : α :=
  isum R (fun r => isum T (fun j =>
    msum m (fun i => obs i r j)
      (docTerm k m n (fun i => obs i r j) (fun s => y s r j))))

end PF
end ChiModel
