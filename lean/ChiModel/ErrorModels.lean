import ChiModel.Scalar
/-!
# chi/_error_models.py — the four error models, step by step

`n` observations; `ybar j`, `obs j` model output and measurement at index `j`;
`S j k` the sensitivity of `ybar j` w.r.t. mechanistic parameter `k` (`p` of them).
-/
namespace ChiModel
variable {α : Type} [Add α] [Sub α] [Mul α] [Div α] [Neg α] [ScalarFns α]
open ScalarFns

def two : α := ofNat 2
def halfLog2Pi : α := log (two * pi) / two

/-! ## GaussianErrorModel -/

/-- `_compute_log_likelihood`, `sigma > 0` branch -/
def gaussLLraw (n : Nat) (sigma : α) (ybar obs : Nat → α) : α :=
  Neg.neg (ofNat n * (halfLog2Pi + log sigma)) -
    isum n (fun j => (ybar j - obs j) * (ybar j - obs j)) / (sigma * sigma) / two

def gaussLL (n : Nat) (sigma : α) (ybar obs : Nat → α) : Score α :=
  if le sigma (ofNat 0) then .negInf else .val (gaussLLraw n sigma ybar obs)

/-- `_compute_pointwise_ll`, entry j -/
def gaussPW (sigma : α) (ybar obs : Nat → α) (j : Nat) : α :=
  Neg.neg (halfLog2Pi + log sigma) - (ybar j - obs j) * (ybar j - obs j) / (sigma * sigma) / two

/-- `_compute_sensitivities`: entry k < p of dpsi -/
def gaussDPsi (n : Nat) (sigma : α) (ybar obs : Nat → α) (S : Nat → Nat → α) (k : Nat) : α :=
  isum n (fun j => (obs j - ybar j) * S j k) / (sigma * sigma)

def gaussDSigma (n : Nat) (sigma : α) (ybar obs : Nat → α) : α :=
  isum n (fun j => (obs j - ybar j) * (obs j - ybar j)) / (sigma * sigma * sigma) - ofNat n / sigma

/-! ## MultiplicativeGaussianErrorModel  (sigma_tot = sigma_rel * ybar) -/

def multTot (srel : α) (ybar : Nat → α) (j : Nat) : α := srel * ybar j

def multLLraw (n : Nat) (srel : α) (ybar obs : Nat → α) : α :=
  Neg.neg (ofNat n * log (two * pi) / two) - isum n (fun j => log (multTot srel ybar j)) -
    isum n (fun j => (ybar j - obs j) * (ybar j - obs j) / (multTot srel ybar j * multTot srel ybar j)) / two

def multLL (n : Nat) (srel : α) (ybar obs : Nat → α) : Score α :=
  if le srel (ofNat 0) then .negInf
  else if iany n (fun j => le (multTot srel ybar j) (ofNat 0)) then .undefined
  else .val (multLLraw n srel ybar obs)

def multPW (srel : α) (ybar obs : Nat → α) (j : Nat) : α :=
  Neg.neg (log (two * pi) / two) - log (multTot srel ybar j) -
    (ybar j - obs j) * (ybar j - obs j) / (multTot srel ybar j * multTot srel ybar j) / two

def multDPsi (n : Nat) (srel : α) (ybar obs : Nat → α) (S : Nat → Nat → α) (k : Nat) : α :=
  let t := multTot srel ybar
  isum n (fun j => (obs j - ybar j) / (t j * t j) * S j k)
    - srel * isum n (fun j => S j k / t j)
    + srel * isum n (fun j => (obs j - ybar j) * (obs j - ybar j) / (t j * t j * t j) * S j k)

def multDSrel (n : Nat) (srel : α) (ybar obs : Nat → α) : α :=
  let t := multTot srel ybar
  isum n (fun j => (obs j - ybar j) * (obs j - ybar j) / (t j * t j * t j) * ybar j)
    - isum n (fun j => ybar j / t j)

/-! ## ConstantAndMultiplicativeGaussianErrorModel  (sigma_tot = sigma_base + sigma_rel * ybar) -/

def cmTot (sb sr : α) (ybar : Nat → α) (j : Nat) : α := sb + sr * ybar j

def cmLLraw (n : Nat) (sb sr : α) (ybar obs : Nat → α) : α :=
  Neg.neg (ofNat n * log (two * pi) / two) - isum n (fun j => log (cmTot sb sr ybar j)) -
    isum n (fun j => (ybar j - obs j) * (ybar j - obs j) / (cmTot sb sr ybar j * cmTot sb sr ybar j)) / two

def cmLL (n : Nat) (sb sr : α) (ybar obs : Nat → α) : Score α :=
  if le sb (ofNat 0) || le sr (ofNat 0) then .negInf
  else if iany n (fun j => le (cmTot sb sr ybar j) (ofNat 0)) then .undefined
  else .val (cmLLraw n sb sr ybar obs)

def cmPW (sb sr : α) (ybar obs : Nat → α) (j : Nat) : α :=
  Neg.neg (log (two * pi) / two) - log (cmTot sb sr ybar j) -
    (ybar j - obs j) * (ybar j - obs j) / (cmTot sb sr ybar j * cmTot sb sr ybar j) / two

def cmDPsi (n : Nat) (sb sr : α) (ybar obs : Nat → α) (S : Nat → Nat → α) (k : Nat) : α :=
  let t := cmTot sb sr ybar
  isum n (fun j => (obs j - ybar j) / (t j * t j) * S j k)
    - sr * isum n (fun j => S j k / t j)
    + sr * isum n (fun j => (obs j - ybar j) * (obs j - ybar j) / (t j * t j * t j) * S j k)

def cmDSb (n : Nat) (sb sr : α) (ybar obs : Nat → α) : α :=
  let t := cmTot sb sr ybar
  isum n (fun j => (obs j - ybar j) * (obs j - ybar j) / (t j * t j * t j))
    - isum n (fun j => ofNat 1 / t j)

def cmDSr (n : Nat) (sb sr : α) (ybar obs : Nat → α) : α :=
  let t := cmTot sb sr ybar
  isum n (fun j => (obs j - ybar j) * (obs j - ybar j) / (t j * t j * t j) * ybar j)
    - isum n (fun j => ybar j / t j)

/-! ## LogNormalErrorModel -/

/-- the "error" `log obs - log ybar + sigma^2/2` of `_compute_sensitivities` -/
def lnErr (sigma : α) (ybar obs : Nat → α) (j : Nat) : α :=
  log (obs j) - log (ybar j) + sigma * sigma / two

def lnLLraw (n : Nat) (sigma : α) (ybar obs : Nat → α) : α :=
  Neg.neg (ofNat n * (halfLog2Pi + log sigma)) - isum n (fun j => log (obs j)) -
    isum n (fun j => (log (ybar j) - sigma * sigma / two - log (obs j))
      * (log (ybar j) - sigma * sigma / two - log (obs j))) / (sigma * sigma) / two

def lnLL (n : Nat) (sigma : α) (ybar obs : Nat → α) : Score α :=
  if le sigma (ofNat 0) || iany n (fun j => le (ybar j) (ofNat 0)) then .negInf
  else if iany n (fun j => le (obs j) (ofNat 0)) then .undefined
  else .val (lnLLraw n sigma ybar obs)

def lnPW (sigma : α) (ybar obs : Nat → α) (j : Nat) : α :=
  Neg.neg (halfLog2Pi + log sigma) - log (obs j) -
    (log (ybar j) - sigma * sigma / two - log (obs j))
      * (log (ybar j) - sigma * sigma / two - log (obs j)) / (sigma * sigma) / two

def lnDPsi (n : Nat) (sigma : α) (ybar obs : Nat → α) (S : Nat → Nat → α) (k : Nat) : α :=
  isum n (fun j => lnErr sigma ybar obs j / ybar j * S j k) / (sigma * sigma)

def lnDSigma (n : Nat) (sigma : α) (ybar obs : Nat → α) : α :=
  Neg.neg (isum n (fun j => lnErr sigma ybar obs j)) / sigma
    + isum n (fun j => lnErr sigma ybar obs j * lnErr sigma ybar obs j) / (sigma * sigma * sigma)
    - ofNat n / sigma

end ChiModel
