import ChiModel.LogLik
import ChiModel.Reduced
/-!
# chi/_log_pdfs.py — LogLikelihood with fixed parameters

`LogLikelihood.fix_parameters` wraps the mechanistic model and every error model into a reduced
model (a mask + value buffer per sub-model, `ChiModel.Reduced`).  `__call__`,
`compute_pointwise_ll` and `evaluateS1` then split the argument — the FREE parameters only — into

* `parameters[:n_mechanistic_params]`     (the free mechanistic parameters), and, of the rest,
* `parameters[start:end]` per output, `end = start + n_error_params[output]`
  (the free parameters of that output's error model; possibly none at all),

and every sub-model fills its own buffer (`Reduced.fill`).  No Mathlib.
-/
namespace ChiModel
open Reduced
variable {α : Type}

/-- one sub-model's state: per parameter (in documented order) `(fixed?, fixed value)` -/
abbrev Cells (α : Type) := List (Bool × α)

/-- `start` of output `o`: the free parameters of the error models before it -/
def errStart (errs : List (Cells α)) (o : Nat) : Nat := ((errs.take o).map nFree).sum

/-- `parameters[start:end]` of output `o` (of the argument without its mechanistic head) -/
def errSlice (errs : List (Cells α)) (tail : List α) (o : Nat) : List α :=
  (tail.drop (errStart errs o)).take (nFree (errs.getD o []))

/-- the vector the wrapped mechanistic model is solved with -/
def reducedMech (mech : Cells α) (x : List α) : List α := fill mech (x.take (nFree mech))

/-- the vector the wrapped error model of output `o` is evaluated with -/
def reducedErr (mech : Cells α) (errs : List (Cells α)) (x : List α) (o : Nat) : List α :=
  fill (errs.getD o []) (errSlice errs (x.drop (nFree mech)) o)

/-- all outputs' error parameters, output by output -/
def reducedSig (mech : Cells α) (errs : List (Cells α)) (x : List α) : List α :=
  (List.range errs.length).flatMap (reducedErr mech errs x)

/-- number of parameters of the reduced likelihood -/
def nFreeAll (mech : Cells α) (errs : List (Cells α)) : Nat := nFree mech + (errs.map nFree).sum

section call
variable [Add α] [Sub α] [Mul α] [Div α] [Neg α] [ScalarFns α]

/-- `LogLikelihood.__call__` of a likelihood with fixed parameters at the free parameters `x`:
    `F psi o t` is the mechanistic prediction for output `o` at time `t` under `psi`.
    A wrong number of free parameters is a `ValueError` (numpy: shape mismatch on assignment). -/
def llReducedCall {τ : Type} [DecidableEq τ] (legacy : Bool) (lt : τ → τ → Bool) (ems : List EM)
    (F : List α → Nat → τ → α) (data : List (OutData τ α)) (mech : Cells α)
    (errs : List (Cells α)) (x : List α) : Except Err (Score α) :=
  if x.length ≠ nFreeAll mech errs then .error .shapeMismatch
  else llCall legacy lt ems (F (reducedMech mech x)) data (reducedSig mech errs x)

end call
end ChiModel
