/-!
# chi/_mechanistic_models.py — SBMLModel / ReducedMechanisticModel: the name ↔ position tables

What chi itself is responsible for in a simulation is bookkeeping: which entry of the parameter
vector is handed to the solver as the initial value of which state, which entry as the value of
which constant, which sensitivities are requested in which order, and which variables are logged in
which order.  The ODE solution is the solver's (myokit/CVODES; here `harness/refsim.py`) and enters
the theorems as a parameter.

Modelled, branch for branch:

* `SBMLModel._set_number_and_names`  (sorted names, `argsort ∘ argsort`, literal constants only)
* `SBMLModel._set_state`, `_set_const`, `simulate`                    (the solver call record)
* `SBMLModel.enable_sensitivities`                        (`init(name)` list, restriction by name)
* `SBMLModel.set_outputs`                                 (validity of outputs, order kept)
* `ReducedMechanisticModel.enable_sensitivities`, `simulate`   (free names, `values[~mask] = p`)

`np.argsort` is *not* modelled as a particular algorithm: the tables are parametrised by the two
argsort functions, and the theorems assume only "returns a permutation that sorts".  The
executable instance used by the correspondence check is `argsortBy` below.
-/
namespace ChiModel.Mech

variable {τ : Type} {α : Type}

inductive Err | indexError | valueError | keyError
  deriving Repr, DecidableEq

/-! ## sorting -/

/-- insertion into a sorted list -/
def insertBy {β : Type} (lt : β → β → Bool) (x : β) : List β → List β
  | [] => [x]
  | y :: ys => if lt x y then x :: y :: ys else y :: insertBy lt x ys

/-- Python `sorted(names)` -/
def sortBy {β : Type} (lt : β → β → Bool) (l : List β) : List β := l.foldr (insertBy lt) []

/-- an executable `np.argsort`: indices ordered by their keys (one admissible choice) -/
def argsortBy {β : Type} (lt : β → β → Bool) (l : List β) : List Nat :=
  (sortBy (fun p q => lt p.1 q.1) l.zipIdx).map (·.2)

def ltNat : Nat → Nat → Bool := fun a b => decide (a < b)

/-! ## the myokit model as chi sees it -/

/-- what `_set_number_and_names` / `set_outputs` read from the `myokit.Model` -/
structure Decl (τ : Type) where
  /-- `model.states()`: qualified names in the solver's own state order -/
  states : List τ
  /-- `model.variables(const=True)`: qualified name and `is_literal()` -/
  consts : List (τ × Bool)
  /-- intermediary variables (admissible outputs besides the states) -/
  inter : List τ

/-- the tables `_set_number_and_names` leaves behind -/
structure Tables (τ : Type) where
  nStates : Nat
  stateNames : List τ
  constNames : List τ
  nParameters : Nat
  originalOrder : List Nat
  parameterNames : List τ
  outputNames : List τ
  nOutputs : Nat

def literalConsts (d : Decl τ) : List τ := (d.consts.filter (·.2)).map (·.1)

/-- the loop `for var in variables(const=True): if not var.is_literal(): n_const -= 1; continue` -/
def countConsts : List (τ × Bool) → Nat → Nat
  | [], n => n
  | (_, true) :: r, n => countConsts r n
  | (_, false) :: r, n => countConsts r (n - 1)

/-- `SBMLModel._set_number_and_names` -/
def setNumberAndNames (lt : τ → τ → Bool) (argsortT : List τ → List Nat)
    (argsortN : List Nat → List Nat) (d : Decl τ) : Tables τ :=
  let names := d.states
  let stateNames := sortBy lt names
  let constNames := sortBy lt (literalConsts d)
  let nConst := countConsts d.consts d.consts.length
  let orderAfterSort := argsortT names
  { nStates := names.length
    stateNames := stateNames
    constNames := constNames
    nParameters := names.length + nConst
    originalOrder := argsortN orderAfterSort
    parameterNames := stateNames ++ constNames
    outputNames := stateNames
    nOutputs := names.length }

/-! ## simulate: what reaches the solver -/

/-- the record of one `simulate` call at the `myokit.Simulation` boundary -/
structure Record (τ α : Type) where
  /-- `set_state(vec)`, paired with the solver's own state names -/
  stateAssign : List (τ × α)
  /-- the sequence of `set_constant(name, value)` calls -/
  constCalls : List (τ × α)
  /-- `run(..., log=…)` -/
  log : List τ

/-- numpy integer-array indexing `a[idx]` -/
def fancyIndex (a : List α) : List Nat → Except Err (List α)
  | [] => .ok []
  | i :: is =>
    match a[i]? with
    | none => .error .indexError
    | some x =>
      match fancyIndex a is with
      | .ok r => .ok (x :: r)
      | .error e => .error e

/-- `_set_state(parameters[:n_states])`: the vector passed to `Simulation.set_state` -/
def setStateVec (T : Tables τ) (params : List α) : Except Err (List α) :=
  fancyIndex (params.take T.nStates) T.originalOrder

/-- `Simulation.set_state`: the vector is read in the solver's state order; wrong length raises -/
def solverSetState (d : Decl τ) (vec : List α) : Except Err (List (τ × α)) :=
  if vec.length = d.states.length then .ok (d.states.zip vec) else .error .valueError

/-- `for id_var, var in enumerate(self._const_names): set_constant(var, parameters[id_var])` -/
def constLoop : List τ → List α → Except Err (List (τ × α))
  | [], _ => .ok []
  | _ :: _, [] => .error .indexError
  | nm :: r, x :: xs =>
    match constLoop r xs with
    | .ok c => .ok ((nm, x) :: c)
    | .error e => .error e

/-- `_set_const(parameters[n_states:])` -/
def setConstCalls (T : Tables τ) (params : List α) : Except Err (List (τ × α)) :=
  constLoop T.constNames (params.drop T.nStates)

/-- `SBMLModel.simulate` up to the solver call -/
def simulateRecord (d : Decl τ) (T : Tables τ) (params : List α) : Except Err (Record τ α) := do
  let vec ← setStateVec T params
  let sa ← solverSetState d vec
  let cc ← setConstCalls T params
  pure { stateAssign := sa, constCalls := cc, log := T.outputNames }

/-- one assignment `name := value` -/
def upd [DecidableEq τ] (e : τ → α) (k : τ) (v : α) : τ → α := fun x => if x = k then v else e x

/-- the initial-value / constant environment the solver integrates with: assignments are applied
    in call order (the last one wins), untouched variables keep the model file's default -/
def envOf [DecidableEq τ] (dflt : τ → α) (assign : List (τ × α)) : τ → α :=
  assign.foldl (fun e kv => upd e kv.1 kv.2) dflt

/-- the solution of the model's initial-value problem as a function of the named initial values,
    the named constants, the logged variable and the time (a parameter of every theorem) -/
abbrev Solve (τ α T : Type) := (τ → α) → (τ → α) → τ → T → α

/-- `simulate` without sensitivities: `np.array([output[name] for name in self._output_names])`.
    `legacy = false` is the code as it is (since commit 3790485): after the state and the constants
    have been set an empty time grid gives one empty row per output.  `legacy = true` is the code
    before that commit: the run length was `times[-1] + 1`, so an empty grid raised `IndexError`. -/
def simulateValues [DecidableEq τ] {Tm : Type} (legacy : Bool) (sol : Solve τ α Tm)
    (dflt0 dfltC : τ → α) (d : Decl τ) (T : Tables τ) (params : List α) (times : List Tm) :
    Except Err (List (List α)) := do
  let r ← simulateRecord d T params
  if legacy && times.isEmpty then .error .indexError
  else
    let e0 := envOf dflt0 r.stateAssign
    let ec := envOf dfltC r.constCalls
    pure (T.outputNames.map (fun o => times.map (fun t => sol e0 ec o t)))

/-- the property's right-hand side: the environment in which the i-th vector entry is assigned to
    the i-th published parameter name (for the names in `dom`; others keep the file's default) -/
def specEnv [DecidableEq τ] (dflt : τ → α) (dom published : List τ) (params : List α) : τ → α :=
  fun nm => if nm ∈ dom then
      (match params[published.idxOf nm]? with | some x => x | none => dflt nm)
    else dflt nm

/-! ## sensitivities -/

/-- an entry of myokit's `sensitivities=(dependents, independents)` independents list -/
inductive SensParam (τ : Type) where
  | init (name : τ)     -- the string `'init(' + name + ')'`
  | const (name : τ)
  deriving Repr, DecidableEq

/-- the loop over `enumerate(self._parameter_names)` with `param_id < self._n_states` -/
def sensAll (T : Tables τ) : List (SensParam τ) :=
  T.parameterNames.zipIdx.map (fun (nm, i) => if i < T.nStates then .init nm else .const nm)

/-- `for index, public_name in enumerate(self._parameter_name_map.values()):
       if public_name in parameter_names: container.append(parameters[index])` -/
def restrictLoop [DecidableEq τ] {σ : Type} (given : List τ) (all : List σ) : List τ → Nat → List σ
  | [], _ => []
  | pn :: r, i =>
    if given.contains pn then
      match all[i]? with
      | some x => x :: restrictLoop given all r (i + 1)
      | none => restrictLoop given all r (i + 1)
    else restrictLoop given all r (i + 1)

/-- `SBMLModel.enable_sensitivities(True, parameter_names)`;
    `pub` are the values of `_parameter_name_map` in its (published) order -/
def enableSens [DecidableEq τ] (T : Tables τ) (pub : List τ) (given : Option (List τ)) :
    Except Err (List τ × List (SensParam τ)) :=
  let all := sensAll T
  let chosen := match given with
    | none => all
    | some g => restrictLoop g all pub 0
  if chosen.isEmpty then .error .valueError else .ok (T.outputNames, chosen)

/-- the solver's contract for sensitivities: for a requested independent `init(s)` it returns the
    derivative with respect to the initial value of `s` (`d0`), for a constant the derivative with
    respect to that constant (`dC`) -/
def solverSens {Tm : Type} (d0 dC : (τ → α) → (τ → α) → τ → Tm → τ → α)
    (e0 ec : τ → α) (o : τ) (t : Tm) : SensParam τ → α
  | .init nm => d0 e0 ec o t nm
  | .const nm => dC e0 ec o t nm

/-- shape of the sensitivity array `simulate` returns: `(n_times, n_outputs, n_columns)`; for an
    empty grid chi builds it from the stored number of requested parameters -/
def sensShape (nTimes : Nat) (T : Tables τ) (columns : Nat) : Nat × Nat × Nat :=
  (nTimes, T.outputNames.length, columns)

/-! ## the map from myokit names to public names -/

/-- `_parameter_name_map`: a Python dict, i.e. an insertion-ordered association list.
    `enable_sensitivities` reads its *values by position*, so its order matters. -/
abbrev NameMap (τ : Type) := List (τ × τ)

/-- `_set_number_and_names`: `dict(zip(parameter_names, parameter_names))` -/
def identityMap (names : List τ) : NameMap τ := names.map (fun n => (n, n))

/-- `set_parameter_names(names)`: values are replaced in place (`names[old_name]` if present) -/
def renameMap [DecidableEq τ] (m : NameMap τ) (ren : List (τ × τ)) : NameMap τ :=
  m.map (fun kv => (kv.1, match ren.lookup kv.2 with | some v => v | none => kv.2))

/-- `PKPDModel.set_administration`: `dict((name, old.get(name, name)) for name in parameter_names)`
    — rebuilt in the order of the new published names, user-given names kept -/
def rebuildMap [DecidableEq τ] (old : NameMap τ) (newNames : List τ) : NameMap τ :=
  newNames.map (fun n => (n, match old.lookup n with | some v => v | none => n))

/-- `parameters()`: `[map[name] for name in parameter_names]` -/
def publicNames [DecidableEq τ] (m : NameMap τ) (names : List τ) : List τ :=
  names.map (fun n => match m.lookup n with | some v => v | none => n)

/-- `enable_sensitivities(True, given)` reading `map.values()` by position -/
def enableSensMap [DecidableEq τ] (T : Tables τ) (m : NameMap τ) (given : Option (List τ)) :
    Except Err (List τ × List (SensParam τ)) :=
  enableSens T (m.map (·.2)) given

/-! ## outputs -/

/-- `SBMLModel.set_outputs` for myokit names: every output must be a state or an intermediary
    variable; the order given is kept -/
def setOutputs [DecidableEq τ] (d : Decl τ) (T : Tables τ) (outputs : List τ) :
    Except Err (Tables τ) :=
  let known := d.states ++ d.inter ++ d.consts.map (·.1)
  if outputs.any (fun o => !known.contains o) then .error .keyError
  else if outputs.any (fun o => !(d.states.contains o || d.inter.contains o)) then
    .error .valueError
  else .ok { T with outputNames := outputs, nOutputs := outputs.length }

/-! ## ReducedMechanisticModel -/

structure Reduced (τ α : Type) where
  /-- `_parameter_names` (published names of the wrapped model) -/
  names : List τ
  /-- `_fixed_params_mask` / `_fixed_params_values`; `none` = nothing fixed -/
  fixed : Option (List (Bool × α))

/-- `parameters()` of the reduced model: `names[~mask]` -/
def Reduced.free (r : Reduced τ α) : List τ :=
  match r.fixed with
  | none => r.names
  | some m => ((r.names.zip m).filter (fun x => !x.2.1)).map (·.1)

def nFree (m : List (Bool × α)) : Nat := (m.filter (fun x => !x.1)).length

/-- `values[~mask] = parameters` for a vector of matching length -/
def fillFree : List (Bool × α) → List α → List α
  | [], _ => []
  | (true, v) :: m, ps => v :: fillFree m ps
  | (false, v) :: m, [] => v :: fillFree m []
  | (false, _) :: m, p :: ps => p :: fillFree m ps

/-- `ReducedMechanisticModel.simulate`: the vector handed to the wrapped model
    (numpy broadcasts a length-one right-hand side; any other length mismatch raises) -/
def Reduced.fullVector (r : Reduced τ α) (params : List α) : Except Err (List α) :=
  match r.fixed with
  | none => .ok params
  | some m =>
    if params.length = nFree m then .ok (fillFree m params)
    else match params with
      | [p] => .ok (fillFree m (List.replicate (nFree m) p))
      | _ => .error .valueError

/-- the same when the caller's vector has another number type `ι` (e.g. Python ints / an int64
    array): the given entries are converted (`cast`) into the buffer of the stored fixed values,
    the fixed values themselves are not converted -/
def Reduced.fullVectorCast {ι : Type} (cast : ι → α) (r : Reduced τ α) (params : List ι) :
    Except Err (List α) :=
  r.fullVector (params.map cast)

/-- `ReducedMechanisticModel.enable_sensitivities(True)`: what the wrapped model's solver is asked
    for.  `none` = every parameter is fixed: the wrapped model's sensitivities are switched off and
    `simulate` appends an empty block of shape `(n_times, n_outputs, 0)` (commit f18d571).
    `legacy = true` is the code before that commit (the empty selection was passed on and raised). -/
def Reduced.enableSens [DecidableEq τ] (legacy : Bool) (r : Reduced τ α) (T : Tables τ)
    (pub : List τ) : Except Err (Option (List τ × List (SensParam τ))) :=
  if !legacy && r.free.isEmpty then .ok none
  else match Mech.enableSens T pub (some r.free) with
    | .ok q => .ok (some q)
    | .error e => .error e

/-- number of columns of the sensitivity array `simulate` then returns -/
def sensColumns : Option (List τ × List (SensParam τ)) → Nat
  | none => 0
  | some q => q.2.length

/-! ## histories: sensitivities switched on / re-selected / off, outputs changed, parameters fixed -/

/-- operations on an `SBMLModel` that rebuild its solver -/
inductive SensOp (τ : Type) where
  | enable (given : Option (List τ))      -- `enable_sensitivities(True, given)`
  | disable                               -- `enable_sensitivities(False)`
  | setOutputs (outs : List τ)            -- `set_outputs` (documented to reset the sensitivities)

/-- the part of the model's state a later `simulate` depends on -/
structure SimState (τ : Type) where
  tables : Tables τ
  /-- `none`: plain solver; `some`: solver built with this sensitivity request -/
  request : Option (List τ × List (SensParam τ))

/-- every `enable_sensitivities(True, …)` builds a new solver from the current selection, also when
    sensitivities are already on; a failing call leaves the state as it was -/
def sensStep [DecidableEq τ] (d : Decl τ) (pub : List τ) (s : SimState τ) :
    SensOp τ → Except Err (SimState τ)
  | .enable g => match enableSens s.tables pub g with
    | .ok q => .ok { s with request := some q }
    | .error e => .error e
  | .disable => .ok { s with request := none }
  | .setOutputs outs => match setOutputs d s.tables outs with
    | .ok T' => .ok { tables := T', request := none }
    | .error e => .error e

def sensRun [DecidableEq τ] (d : Decl τ) (pub : List τ) : SimState τ → List (SensOp τ) →
    Except Err (SimState τ)
  | s, [] => .ok s
  | s, op :: ops => match sensStep d pub s op with
    | .ok s' => sensRun d pub s' ops
    | .error e => .error e

/-- `ReducedMechanisticModel.simulate` uses the stored value buffer as scratch space:
    `self._fixed_params_values[~mask] = parameters` overwrites the entries at the *free* positions;
    the mask and the entries at the fixed positions are left alone -/
def bufferAfter : List (Bool × α) → List α → List (Bool × α)
  | [], _ => []
  | (true, v) :: m, ps => (true, v) :: bufferAfter m ps
  | (false, v) :: m, [] => (false, v) :: bufferAfter m []
  | (false, _) :: m, p :: ps => (false, p) :: bufferAfter m ps

/-- operations on a `ReducedMechanisticModel` -/
inductive RedOp (τ α : Type) where
  | enable
  | disable
  /-- `simulate(parameters, times)` -/
  | simulate (params : List α)
  /-- `fix_parameters(...)` with the resulting mask / values (`none` = everything free again) -/
  | fix (newFixed : Option (List (Bool × α)))
  | setOutputs (outs : List τ)

structure RedState (τ α : Type) where
  tables : Tables τ
  fixed : Option (List (Bool × α))
  /-- `has_sensitivities()` of the reduced model -/
  sensOn : Bool
  request : Option (List τ × List (SensParam τ))

/-- `fix_parameters` ends with `if self.has_sensitivities(): self.enable_sensitivities(True)` -/
def redStep [DecidableEq τ] (d : Decl τ) (pub : List τ) (s : RedState τ α) :
    RedOp τ α → Except Err (RedState τ α)
  | .enable => match Reduced.enableSens false { names := pub, fixed := s.fixed } s.tables pub with
    | .ok q => .ok { s with sensOn := true, request := q }
    | .error e => .error e
  | .disable => .ok { s with sensOn := false, request := none }
  | .simulate ps =>
    match Reduced.fullVector { names := pub, fixed := s.fixed } ps with
    | .error e => .error e
    | .ok _ => .ok { s with fixed := s.fixed.map (fun m => bufferAfter m ps) }
  | .fix nf =>
    if s.sensOn then
      match Reduced.enableSens false { names := pub, fixed := nf } s.tables pub with
      | .ok q => .ok { s with fixed := nf, request := q }
      | .error e => .error e
    else .ok { s with fixed := nf }
  | .setOutputs outs => match setOutputs d s.tables outs with
    | .ok T' => .ok { s with tables := T', sensOn := false, request := none }
    | .error e => .error e

def redRun [DecidableEq τ] (d : Decl τ) (pub : List τ) : RedState τ α → List (RedOp τ α) →
    Except Err (RedState τ α)
  | s, [] => .ok s
  | s, op :: ops => match redStep d pub s op with
    | .ok s' => redRun d pub s' ops
    | .error e => .error e

/-! ## a `PKPDModel`'s dosing regimen across solver rebuilds -/

/-- operations on a `PKPDModel` that touch its solver or its regimen (`ρ`: regimens) -/
inductive DoseOp (ρ : Type) where
  /-- `enable_sensitivities(enabled[, names])`; `set_outputs` ends with `enable_sensitivities(False)` -/
  | sens (enabled : Bool)
  /-- `set_dosing_regimen(...)` -/
  | setRegimen (r : ρ)

structure DoseState (ρ : Type) where
  /-- `has_sensitivities()` -/
  sensOn : Bool
  /-- `dosing_regimen()` -/
  regimen : Option ρ
  /-- the protocol the current `myokit.Simulation` integrates with -/
  solver : Option ρ

/-- `SBMLModel.enable_sensitivities`: builds a new solver (which has no protocol) unless the
    sensitivities are off and stay off -/
def sbmlSens {ρ : Type} (s : DoseState ρ) (enabled : Bool) : DoseState ρ :=
  if enabled || s.sensOn then { s with sensOn := enabled, solver := none } else s

/-- `PKPDModel.enable_sensitivities` decides BEFORE the call of the base class whether a new solver
    is going to be built, and hands the regimen to the new solver afterwards;
    `set_dosing_regimen` stores the regimen and hands it to the current solver -/
def doseStep {ρ : Type} (s : DoseState ρ) : DoseOp ρ → DoseState ρ
  | .sens enabled =>
    let newSim := enabled || (!enabled && s.sensOn)
    let s1 := sbmlSens s enabled
    if newSim then { s1 with solver := s1.regimen } else s1
  | .setRegimen r => { s with regimen := some r, solver := some r }

def doseRun {ρ : Type} : DoseState ρ → List (DoseOp ρ) → DoseState ρ
  | s, [] => s
  | s, op :: ops => doseRun (doseStep s op) ops

end ChiModel.Mech
