/-!
# The mask + value-buffer state machine shared by `ReducedErrorModel`,
# `ReducedMechanisticModel`, `ReducedPopulationModel` (chi: `fix_parameters` and every evaluation
# method of those wrappers), and the way `LogLikelihood` / `PredictiveModel` split one request
# over their sub-models.  No Mathlib.
-/
namespace ChiModel.Reduced
variable {α : Type}

/-- `dict(name_value_dict)` built from pairs: the last binding of a key wins;
    `some none` = "fix to `None`" = release -/
abbrev Req (α : Type) := List (String × Option α)

def lookupLast (d : Req α) (n : String) : Option (Option α) :=
  (d.reverse.find? (·.1 == n)).map (·.2)

/-- one iteration of `for index, name in enumerate(self._parameter_names)`:
    `mask[index] = value is not None; values[index] = value` (a `None` value stores `nan`) -/
def upd (garbage : α) (d : Req α) (n : String) (mb : Bool × α) : Bool × α :=
  match lookupLast d n with
  | none => mb
  | some none => (false, garbage)
  | some (some v) => (true, v)

/-- Python state: `None`, or the pair (mask, values) zipped -/
abbrev St (α : Type) := Option (List (Bool × α))

/-- `None` is re-materialised as an all-free mask over an uninitialised (`np.empty`) buffer -/
def view (names : List String) (garbage : α) : St α → List (Bool × α)
  | none => names.map (fun _ => (false, garbage))
  | some c => c

/-- `fix_parameters(name_value_dict)` -/
def fixStep (names : List String) (garbage : α) (st : St α) (d : Req α) : St α :=
  let c := List.zipWith (upd garbage d) names (view names garbage st)
  if c.all (fun x => !x.1) then none else some c

def run (names : List String) (garbage : α) (ops : List (Req α)) : St α :=
  ops.foldl (fixStep names garbage) none

/-- `values[~mask] = parameters; parameters = values`: the vector handed to the wrapped object.
    (A too-short `free` stops early — numpy raises; the harness compares lengths.) -/
def fill : List (Bool × α) → List α → List α
  | [], _ => []
  | (true, v) :: cs, free => v :: fill cs free
  | (false, _) :: cs, x :: free => x :: fill cs free
  | (false, _) :: _, [] => []

/-- `sensitivities[~mask]`, `names[~mask]` -/
def restrict {β : Type} : List (Bool × α) → List β → List β
  | [], _ => []
  | _, [] => []
  | (true, _) :: cs, _ :: gs => restrict cs gs
  | (false, _) :: cs, g :: gs => g :: restrict cs gs

def nFixed (c : List (Bool × α)) : Nat := c.countP (·.1)
def nFree (c : List (Bool × α)) : Nat := c.countP (fun x => !x.1)

/-- evaluation of a reduced object at the free parameters: the wrapped evaluation `F` sees the
    filled buffer -/
def evalReduced {β : Type} (names : List String) (garbage : α) (st : St α) (F : List α → β)
    (free : List α) : β := F (fill (view names garbage st) free)

/-! ## specification: the net dictionary of a history -/

def netStep (f : String → Option α) (d : Req α) : String → Option α :=
  fun n => match lookupLast d n with | none => f n | some r => r

/-- last write wins, `None` releases -/
def net (ops : List (Req α)) : String → Option α := ops.foldl netStep (fun _ => none)

/-- the unfixed object's full vector: fixed names take their net value, the others consume the
    free vector in order -/
def substitute (f : String → Option α) : List String → List α → List α
  | [], _ => []
  | n :: ns, free =>
    match f n, free with
    | some v, free => v :: substitute f ns free
    | none, x :: free => x :: substitute f ns free
    | none, [] => []

def freeNames (f : String → Option α) (names : List String) : List String :=
  names.filter (fun n => (f n).isNone)

/-- gradient of the unfixed object restricted to the free positions -/
def restrictSpec {β : Type} (f : String → Option α) : List String → List β → List β
  | [], _ => []
  | _, [] => []
  | n :: ns, g :: gs => if (f n).isNone then g :: restrictSpec f ns gs else restrictSpec f ns gs

end ChiModel.Reduced
