import ChiModel.ReducedResize
/-!
# A reduced population model over its whole life: the wrapped model's parameter list changes between
# stretches of fix / re-fix / release calls (`set_n_ids` directly, `HierarchicalLogLikelihood(lls, model)`,
# `ProblemModellingController.set_population_model(model)` with data — all end in
# `ReducedPopulationModel.set_n_ids`).  A *segment* is a stretch during which the parameter list is constant.
# No Mathlib.
-/
namespace ChiModel.Reduced
variable {α : Type}

/-- the parameter list of the wrapped model during a stretch, and the requests made in it -/
abbrev Seg (α : Type) := List String × List (Req α)

/-- entering the next stretch: the hidden state is carried over by `resize` (chi: `set_n_ids`), then the
    requests of the stretch are applied to the new parameter list -/
def segStep (garbage : α) (acc : List String × St α) (s : Seg α) : List String × St α :=
  (s.1, s.2.foldl (fixStep s.1 garbage) (resize garbage acc.1 s.1 acc.2))

/-- the current parameter list and the hidden state after all stretches -/
def runSegs (garbage : α) (first : Seg α) (rest : List (Seg α)) : List String × St α :=
  rest.foldl (segStep garbage) (first.1, run first.1 garbage first.2)

/-! ## specification -/

/-- the name-value pairs that survive a change of the parameter list: those whose names were parameters -/
def keep (f : String → Option α) (names : List String) : String → Option α :=
  fun n => if n ∈ names then f n else none

def netSegStep (acc : List String × (String → Option α)) (s : Seg α) : List String × (String → Option α) :=
  (s.1, s.2.foldl netStep (keep acc.2 acc.1))

/-- the net dictionary of a life: last write wins, `None` releases, and a change of the parameter list
    forgets the pairs whose names were not parameters of the list that is left (a request for a name that
    is not a parameter at the time of the request is thereby ignored for good) -/
def netSegs (first : Seg α) (rest : List (Seg α)) : List String × (String → Option α) :=
  rest.foldl netSegStep (first.1, net first.2)

end ChiModel.Reduced
