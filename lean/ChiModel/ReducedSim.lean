/-!
# The simulator held by an SBML / PKPD mechanistic model under `ReducedMechanisticModel`
# (chi/_mechanistic_models.py: `SBMLModel.enable_sensitivities`, `PKPDModel.enable_sensitivities`,
# `ReducedMechanisticModel.enable_sensitivities` / `fix_parameters`).  Every change of the sensitivity
# request builds a NEW simulator (without dosing protocol); `PKPDModel` sets the protocol on it again.
# Parameters have an internal (myokit) and a public (possibly user-defined) name; a request names
# public names, the simulator is told internal names.  No Mathlib.
-/
namespace ChiModel.Reduced.Sim

/-- one parameter: fixed?, internal name, public name -/
structure Par where
  fixed : Bool
  internal : String
  pub : String
deriving DecidableEq, Repr

/-- the `myokit.Simulation`: the sensitivity columns it computes (`none`: no sensitivities) and whether the
    model's dosing protocol has been set on it -/
structure Simulator where
  sens : Option (List String)
  protocol : Bool
deriving DecidableEq, Repr

structure Model where
  pars : List Par
  sim : Simulator
  has : Bool                -- `_has_sensitivities`
  emptySens : Bool          -- `ReducedMechanisticModel._empty_sensitivities`
deriving DecidableEq, Repr

/-- the second loop of `SBMLModel.enable_sensitivities`: positions whose PUBLIC name is requested,
    reported under their INTERNAL name -/
def select (pars : List Par) (req : List String) : List String :=
  (pars.filter (fun p => req.contains p.pub)).map (·.internal)

/-- `SBMLModel.enable_sensitivities(enabled, parameter_names)`; `none` = the `ValueError`
    "None of the parameters could be identified" -/
def sbmlEnable (m : Model) (enabled : Bool) (req : Option (List String)) : Option Model :=
  if !enabled then
    if m.has then some { m with sim := ⟨none, false⟩, has := false } else some m
  else
    let ps := match req with
      | none => m.pars.map (·.internal)
      | some r => select m.pars r
    if ps.isEmpty then none
    else some { m with sim := ⟨some ps, false⟩, has := true }

/-- `PKPDModel.enable_sensitivities`: the protocol is set again whenever a new simulator was built -/
def pkpdEnable (m : Model) (enabled : Bool) (req : Option (List String)) : Option Model :=
  let newSim := enabled || (!enabled && m.has)
  (sbmlEnable m enabled req).map fun m' =>
    if newSim then { m' with sim := { m'.sim with protocol := true } } else m'

def freePub (pars : List Par) : List String := (pars.filter (fun p => !p.fixed)).map (·.pub)

/-- `ReducedMechanisticModel.enable_sensitivities(enabled)` -/
def redEnable (m : Model) (enabled : Bool) : Option Model :=
  let m := { m with emptySens := false }
  if !enabled then pkpdEnable m false none
  else if (freePub m.pars).isEmpty then
    (pkpdEnable m false none).map fun m' => { m' with emptySens := true }
  else pkpdEnable m true (some (freePub m.pars))

def redHas (m : Model) : Bool := m.emptySens || m.has

/-- `fix_parameters` as far as the simulator is concerned: the new fixed flags (position by position; a
    shorter list leaves the rest as it is), then sensitivities are requested again if they were on -/
def setFixed : List Par → List Bool → List Par
  | [], _ => []
  | ps, [] => ps
  | p :: ps, b :: bs => { p with fixed := b } :: setFixed ps bs

def redFix (m : Model) (flags : List Bool) : Option Model :=
  let m' := { m with pars := setFixed m.pars flags }
  if redHas m' then redEnable m' true else some m'

inductive Op where
  | enable (b : Bool)
  | fix (flags : List Bool)
deriving Repr

def step (m : Model) : Op → Option Model
  | .enable b => redEnable m b
  | .fix fl => redFix m fl

/-- a life of the wrapper; a raising call is skipped (the model does not follow a partially updated object) -/
def life (m : Model) : List Op → Model
  | [] => m
  | o :: os => life ((step m o).getD m) os

/-- the reference: the internal names of the free parameters, in the original order -/
def freeInternal (pars : List Par) : List String := (pars.filter (fun p => !p.fixed)).map (·.internal)

end ChiModel.Reduced.Sim
