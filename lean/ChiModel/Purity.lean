import ChiModel.Reduced
/-!
# Hidden state touched by evaluations (C19): the Reduced* value buffer that every evaluation
# overwrites at the free positions (`values[~mask] = parameters; parameters = values`), the
# likelihood's sensitivity switch, and results that alias the buffer.  No Mathlib.
-/
namespace ChiModel.Purity
open ChiModel.Reduced
variable {α β : Type}

/-- `self._fixed_params_values[~self._fixed_params_mask] = parameters` -/
def writeFree : List (Bool × α) → List α → List (Bool × α)
  | [], _ => []
  | (true, v) :: cs, free => (true, v) :: writeFree cs free
  | (false, _) :: cs, x :: free => (false, x) :: writeFree cs free
  | (false, g) :: cs, [] => (false, g) :: writeFree cs []

/-- one evaluation (value, pointwise, sensitivities, seeded sample: any `F` of the full vector)
    of a reduced object: new hidden state and result -/
def evalStep (st : St α) (F : List α → β) (free : List α) : St α × β :=
  match st with
  | none => (none, F free)
  | some c => (some (writeFree c free), F (fill c free))

/-- a sequence of evaluations -/
def evalSeq (st : St α) (F : List α → β) : List (List α) → St α × List β
  | [] => (st, [])
  | free :: rest =>
    let r := evalStep st F free
    let r' := evalSeq r.1 F rest
    (r'.1, r.2 :: r'.2)

/-- what a single evaluation on the untouched object returns -/
def evalFresh (st : St α) (F : List α → β) (free : List α) : β := (evalStep st F free).2

/-! ## the likelihood's sensitivity switch -/

/-- `__call__` / `compute_pointwise_ll` switch sensitivities off first, `evaluateS1` on -/
inductive LLOp | call | pointwise | s1
  deriving DecidableEq, Repr

def llStep (flag : Bool) (op : LLOp) : Bool :=
  match op with
  | .call => false
  | .pointwise => false
  | .s1 => true

/-- the solver is asked for sensitivities exactly when the operation needs them, whatever the
    flag was before -/
def llRequests (flag : Bool) (op : LLOp) : Bool := llStep flag op

/-! ## results that alias hidden state -/

/-- a returned array: its own data, or a view of the wrapper's value buffer -/
inductive Result (α : Type) where
  | own : List α → Result α
  | viewOfBuffer : Result α

/-- reading a previously returned result NOW -/
def Result.read (st : St α) : Result α → List α
  | .own l => l
  | .viewOfBuffer => match st with
    | none => []
    | some c => c.map (·.2)

/-- `ReducedPopulationModel.compute_individual_parameters` over a `PooledModel`:
    `legacy` returns `np.broadcast_to(buffer…)`, a view; the repaired version a copy -/
def indivPooled (legacy : Bool) (st : St α) (free : List α) : St α × Result α :=
  match st with
  | none => (none, .own free)
  | some c =>
    let c' := writeFree c free
    (some c', if legacy then .viewOfBuffer else .own (c'.map (·.2)))

end ChiModel.Purity

/-! ## evaluations interleaved with re-configuration: the reduced mechanistic model's sensitivity set-up

`ReducedMechanisticModel` (chi/_mechanistic_models.py): `enable_sensitivities` asks the wrapped model for the
sensitivities with respect to the names that are free AT THAT MOMENT; `fix_parameters` therefore repeats the
request whenever sensitivities are on; `simulate` overwrites the free cells of the value buffer. -/
namespace ChiModel.Purity
open ChiModel.Reduced
variable {α β : Type}

/-- hidden state of a reduced mechanistic model together with the wrapped model's switch -/
structure MSt (α : Type) where
  /-- mask + value buffer (`None` when nothing is fixed) -/
  cfg : St α
  /-- the wrapped model: `none` = sensitivities off, `some ns` = on, with respect to the names `ns` -/
  inner : Option (List String)
  /-- `_empty_sensitivities`: on, but every parameter is fixed (the wrapped model is switched off) -/
  empty : Bool

def MSt.init : MSt α := ⟨none, none, false⟩

/-- `names[~mask]` -/
def freeOf (names : List String) (garbage : α) (st : St α) : List String :=
  restrict (view names garbage st) names

/-- `has_sensitivities()` -/
def MSt.hasSens (m : MSt α) : Bool := m.empty || m.inner.isSome

/-- `enable_sensitivities(enabled)` -/
def enableM (names : List String) (garbage : α) (m : MSt α) (enabled : Bool) : MSt α :=
  if !enabled then { m with inner := none, empty := false } else
  let fr := freeOf names garbage m.cfg
  if fr.isEmpty then { m with inner := none, empty := true } else { m with inner := some fr, empty := false }

/-- `fix_parameters(d)`: mask / buffer update, then "remove sensitivities for fixed parameters" -/
def fixM (names : List String) (garbage : α) (m : MSt α) (d : Req α) : MSt α :=
  let m' := { m with cfg := fixStep names garbage m.cfg d }
  if m'.hasSens then enableM names garbage m' true else m'

/-- the seeded shortcut: repeat the sensitivity set-up only when the NUMBER of free parameters changed -/
def fixMCount (names : List String) (garbage : α) (m : MSt α) (d : Req α) : MSt α :=
  let m' := { m with cfg := fixStep names garbage m.cfg d }
  if m'.hasSens && (freeOf names garbage m.cfg).length != (freeOf names garbage m'.cfg).length
  then enableM names garbage m' true else m'

/-- the columns of the sensitivity array `simulate` returns now: `none` = no sensitivities,
    `some ns` = one column per name in `ns` (an empty block when everything is fixed) -/
def MSt.columns (m : MSt α) : Option (List String) := if m.empty then some [] else m.inner

/-- `simulate(free, times)`: what the wrapped model is asked (full vector, sensitivity columns), and the
    state afterwards (free cells of the buffer overwritten) -/
def simM (names : List String) (garbage : α) (m : MSt α) (free : List α) : MSt α × (List α × Option (List String)) :=
  ({ m with cfg := (evalStep m.cfg (fun x => x) free).1 }, (evalFresh m.cfg (fun x => x) free, m.columns))

/-- what callers do to one reduced mechanistic model -/
inductive MOp (α : Type) where
  | fix (d : Req α)
  | sens (enabled : Bool)
  | sim (free : List α)

def MOp.isSim : MOp α → Bool
  | .sim _ => true
  | _ => false

def stepM (names : List String) (garbage : α) (m : MSt α) : MOp α → MSt α
  | .fix d => fixM names garbage m d
  | .sens b => enableM names garbage m b
  | .sim free => (simM names garbage m free).1

def runM (names : List String) (garbage : α) (m : MSt α) (p : List (MOp α)) : MSt α :=
  p.foldl (stepM names garbage) m

/-- outputs of all `sim` steps of a program -/
def outsM (names : List String) (garbage : α) : MSt α → List (MOp α) → List (List α × Option (List String))
  | _, [] => []
  | m, .sim free :: rest => (simM names garbage m free).2 :: outsM names garbage (simM names garbage m free).1 rest
  | m, op :: rest => outsM names garbage (stepM names garbage m op) rest

/-- the likelihood on top: `evaluateS1` switches on only if `has_sensitivities()` is false, `__call__` /
    pointwise switch off only if it is true; then `simulate` -/
def llEvalM (names : List String) (garbage : α) (m : MSt α) (op : LLOp) (free : List α) :
    MSt α × (List α × Option (List String)) :=
  let want := llStep m.hasSens op
  let m' := if m.hasSens == want then m else enableM names garbage m want
  simM names garbage m' free

end ChiModel.Purity

namespace ChiModel.Purity
open ChiModel.Reduced
variable {α β : Type}

/-- what callers do to one likelihood (its reduced mechanistic model): re-configure, or evaluate -/
inductive LOp (α : Type) where
  | fix (d : Req α)
  | eval (op : LLOp) (free : List α)

def LOp.isFix : LOp α → Bool
  | .fix _ => true
  | _ => false

def stepL (names : List String) (garbage : α) (m : MSt α) : LOp α → MSt α
  | .fix d => fixM names garbage m d
  | .eval op free => (llEvalM names garbage m op free).1

def runL (names : List String) (garbage : α) (m : MSt α) (p : List (LOp α)) : MSt α :=
  p.foldl (stepL names garbage) m

/-- the same with the seeded shortcut in `fix_parameters` -/
def stepLCount (names : List String) (garbage : α) (m : MSt α) : LOp α → MSt α
  | .fix d => fixMCount names garbage m d
  | .eval op free => (llEvalM names garbage m op free).1

/-- results of all evaluations of a program -/
def outsL (names : List String) (garbage : α) : MSt α → List (LOp α) → List (List α × Option (List String))
  | _, [] => []
  | m, .eval op free :: rest =>
    (llEvalM names garbage m op free).2 :: outsL names garbage (llEvalM names garbage m op free).1 rest
  | m, .fix d :: rest => outsL names garbage (fixM names garbage m d) rest

end ChiModel.Purity
