import ChiModel.Reduced
/-!
# Hidden state touched by evaluations (C19): the Reduced* value buffer that every evaluation
# overwrites at the free positions (`values[~mask] = parameters; parameters = values`), the
# likelihood's sensitivity switch, and results that alias the buffer.  No Mathlib.
-/
namespace ChiModel.Purity
open ChiModel.Reduced
variable {α β : Type}

/-- `self._fixed_params_values[~self._fixed_params_mask] = parameters` -/
def writeFree : List (Bool × α) → List α → List (Bool × α)
  | [], _ => []
  | (true, v) :: cs, free => (true, v) :: writeFree cs free
  | (false, _) :: cs, x :: free => (false, x) :: writeFree cs free
  | (false, g) :: cs, [] => (false, g) :: writeFree cs []

/-- one evaluation (value, pointwise, sensitivities, seeded sample: any `F` of the full vector)
    of a reduced object: new hidden state and result -/
def evalStep (st : St α) (F : List α → β) (free : List α) : St α × β :=
  match st with
  | none => (none, F free)
  | some c => (some (writeFree c free), F (fill c free))

/-- a sequence of evaluations -/
def evalSeq (st : St α) (F : List α → β) : List (List α) → St α × List β
  | [] => (st, [])
  | free :: rest =>
    let r := evalStep st F free
    let r' := evalSeq r.1 F rest
    (r'.1, r.2 :: r'.2)

/-- what a single evaluation on the untouched object returns -/
def evalFresh (st : St α) (F : List α → β) (free : List α) : β := (evalStep st F free).2

/-! ## the likelihood's sensitivity switch -/

/-- `__call__` / `compute_pointwise_ll` switch sensitivities off first, `evaluateS1` on -/
inductive LLOp | call | pointwise | s1
  deriving DecidableEq, Repr

def llStep (flag : Bool) (op : LLOp) : Bool :=
  match op with
  | .call => false
  | .pointwise => false
  | .s1 => true

/-- the solver is asked for sensitivities exactly when the operation needs them, whatever the
    flag was before -/
def llRequests (flag : Bool) (op : LLOp) : Bool := llStep flag op

/-! ## results that alias hidden state -/

/-- a returned array: its own data, or a view of the wrapper's value buffer -/
inductive Result (α : Type) where
  | own : List α → Result α
  | viewOfBuffer : Result α

/-- reading a previously returned result NOW -/
def Result.read (st : St α) : Result α → List α
  | .own l => l
  | .viewOfBuffer => match st with
    | none => []
    | some c => c.map (·.2)

/-- `ReducedPopulationModel.compute_individual_parameters` over a `PooledModel`:
    `legacy` returns `np.broadcast_to(buffer…)`, a view; the repaired version a copy -/
def indivPooled (legacy : Bool) (st : St α) (free : List α) : St α × Result α :=
  match st with
  | none => (none, .own free)
  | some c =>
    let c' := writeFree c free
    (some c', if legacy then .viewOfBuffer else .own (c'.map (·.2)))

end ChiModel.Purity
