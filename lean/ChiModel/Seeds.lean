import ChiModel.LogLik
/-!
# A symbolic random-number generator and chi's sampling entry points as programs over it  (C16, C15)

What is modelled is *which primitive variate every returned number is computed from*, not the
numbers.  A primitive variate is identified by a `Read`: the stream it comes from, the index of the
distribution *call* on that stream (numpy's ziggurat consumes a variable number of raw words per
variate, so raw positions are meaningless; the call index after the same call history is what
identifies a random variable) and the position inside that call's array.

* `StreamId` – which bit stream: `default_rng(int)`, the legacy global after `np.random.seed(int)`,
  fresh OS entropy (`default_rng(None)` / `np.random.seed(None)`), the legacy global in whatever
  state the caller left it, and the legacy global after `np.random.seed(g.integers(0, 1e6))`
  (`legacyDerived`: seeded with the value of one call on another stream).
* `Gen` – a generator *object*: stream + number of calls made so far.  numpy `Generator`s are
  mutable objects: a callee that draws from a `Generator` argument advances the caller's object.
  That is modelled by threading: every sampler returns the seed argument as the caller sees it
  afterwards (`int`s are immutable, a `gen` comes back advanced).
* `World` – what is global in `np.random`: the legacy global generator and the supply of entropy.
* `Cell` – one entry of a returned array / table (sample ID `unit`, output `out`, time index `time`)
  with the reads its *parameters* (`par`) and its *noise* (`noise`) are computed from.
* `Out.calls` – every distribution call in program order (the consumption trace the harness replays
  with real numpy generators).

`Variant` selects the code as it is (`asIs`, after the `fix:` commits 80b4fea, d48fa6e, b1514f4) or the
pre-fix behaviour (`legacy`, kept for the counterexample theorems only) at the three places where chi
was defective (Appendix A #14).
-/
namespace ChiModel.Seeds
open ChiModel

inductive StreamId where
  | seeded (s : Int)
  | legacySeeded (s : Int)
  | entropy (u : Nat)
  | legacyEntropy (u : Nat)
  | legacyUnseeded
  | legacyDerived (parent : StreamId) (call : Nat)
  deriving DecidableEq, Repr, Inhabited

/-- the distribution call (only the harness' replay looks at it) -/
inductive Kind where
  | normal         -- Generator.normal / .lognormal: `size` standard-normal variates
  | choice         -- Generator.choice(ids, size, replace=True): `size` bounded integers
  | choiceRow      -- Generator.choice(rows): one bounded integer
  | seedInt        -- Generator.integers(0, 1e6): the value handed to np.random.seed
  | legacyUniform  -- scipy truncnorm.rvs on the global RandomState: `size` uniforms
  | legacyChoice   -- np.random.choice(p=weights, size): `size` uniforms
  | prior          -- pints LogPrior.sample(size) on the global RandomState
  deriving DecidableEq, Repr, Inhabited

structure Gen where
  stream : StreamId
  ctr : Nat
  deriving DecidableEq, Repr, Inhabited

structure Call where
  stream : StreamId
  idx : Nat
  kind : Kind
  size : Nat
  deriving DecidableEq, Repr

structure Read where
  stream : StreamId
  call : Nat
  pos : Nat
  deriving DecidableEq, Repr

abbrev Reads := List Read

structure Cell where
  unit : Nat
  out : Nat
  time : Nat
  par : Reads
  noise : Reads
  deriving DecidableEq, Repr

structure Out where
  cells : List Cell
  calls : List Call
  /-- reads that decide how many samples come from which model (PAM) -/
  alloc : Reads
  /-- a modelled `TypeError` (a seed object the code cannot handle) -/
  err : Bool
  deriving DecidableEq, Repr

def Out.empty : Out := ⟨[], [], [], false⟩
def Out.append (a b : Out) : Out := ⟨a.cells ++ b.cells, a.calls ++ b.calls, a.alloc ++ b.alloc, a.err || b.err⟩

structure World where
  glob : Gen
  freshU : Nat
  deriving DecidableEq, Repr

inductive SeedArg where
  | none
  | int (s : Int)
  | gen (g : Gen)
  deriving DecidableEq, Repr

/-- `sample(..., seed)`: returns the output, the seed object as the caller sees it afterwards, and
    the new global state -/
abbrev Sampler := SeedArg → World → (Out × SeedArg) × World

/-- `np.random.default_rng(seed)` -/
def defaultRng : SeedArg → World → Gen × World
  | .none, w => (⟨.entropy w.freshU, 0⟩, { w with freshU := w.freshU + 1 })
  | .int s, w => (⟨.seeded s, 0⟩, w)
  | .gen g, w => (g, w)

/-- what the caller's seed object is after the callee used generator state `cur` -/
def finalSeed : SeedArg → SeedArg → SeedArg
  | .gen _, .gen g' => .gen g'
  | orig, _ => orig

/-- `rng = np.random.default_rng(seed); body(rng)` -/
def withRng (body : Sampler) : Sampler := fun sd w =>
  let gw := defaultRng sd w
  let r := body (.gen gw.1) gw.2
  ((r.1.1, finalSeed sd r.1.2), r.2)

/-- `m` consecutive distribution calls on the generator; `mk stream firstCall` builds the entries.
    (Only ever run with a `Generator`.) -/
def drawS (calls : List (Kind × Nat)) (mk : StreamId → Nat → List Cell) : Sampler := fun sd w =>
  match sd with
  | .gen g =>
    ((⟨mk g.stream g.ctr,
       calls.zipIdx.map (fun kn => ⟨g.stream, g.ctr + kn.2, kn.1.1, kn.1.2⟩), [], false⟩,
      .gen ⟨g.stream, g.ctr + calls.length⟩), w)
  | _ => ((Out.empty, sd), w)

def seqS (a b : Sampler) : Sampler := fun sd w =>
  let r1 := a sd w
  let r2 := b r1.1.2 r1.2
  ((r1.1.1.append r2.1.1, r2.1.2), r2.2)

def skipS : Sampler := fun sd w => ((Out.empty, sd), w)

/-- `for x in xs: body(x, seed)` with the same seed object handed to every iteration -/
def loopS {ι : Type} (body : ι → Sampler) : List ι → Sampler
  | [] => skipS
  | x :: xs => seqS (body x) (loopS body xs)

def mapCells (f : Cell → Cell) (P : Sampler) : Sampler := fun sd w =>
  let r := P sd w
  (({ r.1.1 with cells := r.1.1.cells.map f }, r.1.2), r.2)

/-! ## error models (`chi/_error_models.py`, every `sample`) -/

def EM.nCalls : EM → Nat
  | .cm => 2
  | _ => 1

/-- entries of an `(nT, nS)` array in C order: flat position `p` is entry `(p / nS, p % nS)` -/
def gridCells (nT nS : Nat) (mk : Nat → Cell) : List Cell := (List.range (nT * nS)).map mk

/-- `rng.normal(size=(n_times, n_samples))` once (twice for constant+multiplicative); entry
    `(t, s)` is computed from flat position `t * n_samples + s` of each array -/
def errBody (k : EM) (nT nS : Nat) : Sampler :=
  drawS (List.replicate (EM.nCalls k) (Kind.normal, nT * nS))
    (fun S c => gridCells nT nS (fun p =>
      ⟨p % nS, 0, p / nS, [], (List.range (EM.nCalls k)).map (fun j => ⟨S, c + j, p⟩)⟩))

def errSample (k : EM) (nT nS : Nat) : Sampler := withRng (errBody k nT nS)

/-! ## population models (`chi/_population_models.py`, every `sample`) -/

inductive Elem where
  | gaussian | logNormal | pooled | hetero | truncGauss
  deriving DecidableEq, Repr, Inhabited

/-- an elementary population model, possibly wrapped in a `CovariatePopulationModel`
    (`ReducedPopulationModel` wrappers hand the seed through unchanged) -/
structure SubModel where
  elem : Elem
  nDim : Nat
  cov : Bool
  deriving DecidableEq, Repr, Inhabited

inductive Pop where
  | single (m : SubModel)
  | composed (ms : List SubModel)
  deriving Repr, Inhabited

/-- entries of an `(n, nDim)` array of individual parameters in C order (flat position `p` is entry
    `(p / nDim, p % nDim)`); population draws are parameter reads -/
def popCells (n nDim : Nat) (rd : Nat → Reads) : List Cell :=
  (List.range (n * nDim)).map (fun p => ⟨p / nDim, p % nDim, 0, rd p, []⟩)

/-- `TruncatedGaussianModel.sample`: scipy's `truncnorm.rvs` draws from the legacy global generator,
    which is re-seeded with the integer seed, with a value drawn from the `Generator`, or from
    entropy (`np.random.seed(None)`) -/
def truncSample (nDim n : Nat) : Sampler := fun sd w =>
  match sd with
  | .gen g =>
    let S' := StreamId.legacyDerived g.stream g.ctr
    ((⟨popCells n nDim (fun p => [⟨S', 0, p⟩]),
       [⟨g.stream, g.ctr, .seedInt, 1⟩, ⟨S', 0, .legacyUniform, n * nDim⟩], [], false⟩,
      .gen ⟨g.stream, g.ctr + 1⟩), { w with glob := ⟨S', 1⟩ })
  | .int s =>
    let S' := StreamId.legacySeeded s
    ((⟨popCells n nDim (fun p => [⟨S', 0, p⟩]),
       [⟨S', 0, .legacyUniform, n * nDim⟩], [], false⟩, .int s), { w with glob := ⟨S', 1⟩ })
  | .none =>
    let S' := StreamId.legacyEntropy w.freshU
    ((⟨popCells n nDim (fun p => [⟨S', 0, p⟩]),
       [⟨S', 0, .legacyUniform, n * nDim⟩], [], false⟩, .none),
     { glob := ⟨S', 1⟩, freshU := w.freshU + 1 })

def elemSample (e : Elem) (nDim n : Nat) : Sampler :=
  match e with
  | .gaussian | .logNormal =>
    withRng (drawS [(.normal, n * nDim)] (fun S c => popCells n nDim (fun p => [⟨S, c, p⟩])))
  | .pooled => fun sd w => ((⟨popCells n nDim (fun _ => []), [], [], false⟩, sd), w)
  | .hetero =>
    withRng (drawS [(.choice, n)] (fun S c => popCells n nDim (fun p => [⟨S, c, p / nDim⟩])))
  | .truncGauss => truncSample nDim n

/-- `CovariatePopulationModel.sample`: `seed = default_rng(seed)`, then one call of the wrapped
    model per individual with `n_samples=1, seed=seed` -/
def subSample (m : SubModel) (n : Nat) : Sampler :=
  if m.cov then
    withRng (loopS (fun i => mapCells (fun c => { c with unit := i }) (elemSample m.elem m.nDim 1))
      (List.range n))
  else elemSample m.elem m.nDim n

def withOffsets : Nat → List SubModel → List (SubModel × Nat)
  | _, [] => []
  | off, m :: ms => (m, off) :: withOffsets (off + m.nDim) ms

/-- `ComposedPopulationModel.sample`: `rng = default_rng(seed)`, every sub-model gets `seed=rng` -/
def popSample (p : Pop) (n : Nat) : Sampler :=
  match p with
  | .single m => subSample m n
  | .composed ms =>
    withRng (loopS (fun mo => mapCells (fun c => { c with out := c.out + mo.2 }) (subSample mo.1 n))
      (withOffsets 0 ms))

/-! ## predictive models (`chi/_predictive_models.py`) -/

/-- the three places where the code *was* defective (Appendix A #14); every field set as in `asIs` is
    the code as it is now -/
structure Variant where
  /-- pre-fix `PredictiveModel.sample`: `seed` itself handed to every error model (now: one generator
      built from the seed and threaded through, 80b4fea) -/
  sharedSeed : Bool
  /-- pre-fix `PAMPredictiveModel.sample`: models chosen with `np.random.choice` (now: with the seeded
      generator, d48fa6e) -/
  globalChoice : Bool
  /-- `PriorPredictiveModel.sample` with a `Generator`: `none` — pre-fix, `np.random.seed(Generator)`
      raises; `some s'` — now (b1514f4): `seed = int(seed.integers(0, 1e6))`, and `s'` is the value that
      call returned (every outcome of the draw is covered, like the allocation of PAM) -/
  priorGen : Option Int := Option.none
  deriving DecidableEq, Repr

/-- the code as it is; `priorDraw` is the value `PriorPredictiveModel` would draw from a `Generator` seed -/
def asIs (priorDraw : Int) : Variant := ⟨false, false, some priorDraw⟩
/-- the code before the `fix:` commits -/
def legacy : Variant := ⟨true, true, Option.none⟩

/-- `PredictiveModel.sample` (array form, shape `(n_outputs, n_times, n_samples)`) -/
def predSample (v : Variant) (kinds : List EM) (nT nS : Nat) : Sampler :=
  let body : EM × Nat → Sampler := fun ko =>
    mapCells (fun c => { c with out := ko.2 }) (errSample ko.1 nT nS)
  if v.sharedSeed then loopS body kinds.zipIdx else withRng (loopS body kinds.zipIdx)

/-- `if seed is not None: seed = np.random.default_rng(seed)` -/
def convertSeed : SeedArg → World → SeedArg × World
  | .none, w => (.none, w)
  | sd, w => (.gen (defaultRng sd w).1, (defaultRng sd w).2)

def patientReads (patients : List Cell) (i : Nat) : Reads :=
  (patients.filter (fun c => c.unit == i)).flatMap (fun c => c.par)

/-- `PopulationPredictiveModel.sample` after the seed conversion: patients from the population model,
    then one `PredictiveModel.sample(seed=seed)` per patient -/
def popPredCore (v : Variant) (p : Pop) (kinds : List EM) (nT n : Nat) : Sampler := fun sd w =>
  let r1 := popSample p n sd w
  let r2 := loopS (fun i => mapCells (fun c => { c with unit := i }) (predSample v kinds nT 1))
    (List.range n) r1.1.2 r1.2
  ((⟨r2.1.1.cells.map (fun c => { c with par := patientReads r1.1.1.cells c.unit }),
     r1.1.1.calls ++ r2.1.1.calls, [], false⟩, r2.1.2), r2.2)

def popPredSample (v : Variant) (p : Pop) (kinds : List EM) (nT n : Nat) : Sampler := fun sd w =>
  let sw := convertSeed sd w
  let r := popPredCore v p kinds nT n sw.1 sw.2
  ((r.1.1, finalSeed sd r.1.2), r.2)

/-- the individual-level or population-level model an averaged predictive model wraps -/
inductive PredSpec where
  | indiv (kinds : List EM)
  | pop (p : Pop) (kinds : List EM)
  deriving Repr, Inhabited

def anyPred (v : Variant) (spec : PredSpec) (nT nS : Nat) : Sampler :=
  match spec with
  | .indiv kinds => predSample v kinds nT nS
  | .pop p kinds => popPredSample v p kinds nT nS

/-- `sample[output_id, :, 0]`, labelled with sample ID `k`, with one more parameter read in front -/
def keepFirst (k : Nat) (extra : Reads) (cells : List Cell) : List Cell :=
  (cells.filter (fun c => c.unit == 0)).map (fun c => { c with unit := k, par := extra ++ c.par })

/-- one iteration of `PosteriorPredictiveModel.sample`: `parameters = rng.choice(posterior)`, then
    `predictive_model.sample(parameters, times, n_samples, rng)` of which column 0 is kept -/
def postIter (v : Variant) (spec : PredSpec) (nT n : Nat) (k : Nat) : Sampler := fun sd w =>
  match sd with
  | .gen g =>
    let r := anyPred v spec nT n (.gen ⟨g.stream, g.ctr + 1⟩) w
    ((⟨keepFirst k [⟨g.stream, g.ctr, 0⟩] r.1.1.cells,
       ⟨g.stream, g.ctr, .choiceRow, 1⟩ :: r.1.1.calls, [], false⟩, r.1.2), r.2)
  | _ => ((Out.empty, sd), w)

/-- `PosteriorPredictiveModel.sample` -/
def postPredSample (v : Variant) (spec : PredSpec) (nT n : Nat) : Sampler :=
  withRng (loopS (postIter v spec nT n) (List.range n))

/-- the legacy global generator makes one call (`log_prior.sample`, `np.random.choice`) -/
def globCall (kind : Kind) (size : Nat) (w : World) : Call × World :=
  (⟨w.glob.stream, w.glob.ctr, kind, size⟩, { w with glob := ⟨w.glob.stream, w.glob.ctr + 1⟩ })

/-- iterations `k, k+1, …` of `PriorPredictiveModel.sample`: `log_prior.sample()` on the global
    generator, then the predictive model with `seed = base_seed + sample_id` -/
def priorLoop (v : Variant) (spec : PredSpec) (nT n : Nat) (base : Option Int) :
    List Nat → World → Out × World
  | [], w => (Out.empty, w)
  | k :: ks, w =>
    let row : Read := ⟨w.glob.stream, w.glob.ctr, 0⟩
    let cw := globCall .prior 1 w
    let sd : SeedArg := match base with
      | some s => .int (s + (k + 1))
      | Option.none => .none
    let r := anyPred v spec nT n sd cw.2
    let rest := priorLoop v spec nT n base ks r.2
    (Out.append ⟨keepFirst k [row] r.1.1.cells, cw.1 :: r.1.1.calls, [], false⟩ rest.1, rest.2)

/-- `PriorPredictiveModel.sample`: `np.random.seed(seed)` if a seed is given; a `Generator` is
    documented as accepted but `np.random.seed(Generator)` raises `TypeError` (as it is); repaired, one
    integer is drawn from the `Generator` (which is thereby advanced by one call) and used as the seed -/
def priorPredSample (v : Variant) (spec : PredSpec) (nT n : Nat) : Sampler := fun sd w =>
  match sd with
  | .gen g =>
    match v.priorGen with
    | Option.none => ((⟨[], [], [], true⟩, .gen g), w)
    | some s =>
      let r := priorLoop v spec nT n (some s) (List.range n) { w with glob := ⟨.legacySeeded s, 0⟩ }
      (({ r.1 with calls := ⟨g.stream, g.ctr, .seedInt, 1⟩ :: r.1.calls }, .gen ⟨g.stream, g.ctr + 1⟩), r.2)
  | .int s =>
    let r := priorLoop v spec nT n (some s) (List.range n) { w with glob := ⟨.legacySeeded s, 0⟩ }
    ((r.1, .int s), r.2)
  | .none =>
    let r := priorLoop v spec nT n Option.none (List.range n) w
    ((r.1, .none), r.2)

/-- per model: `model.sample(times, n_m, individual, seed=rng)` when `n_m > 0`, IDs shifted by the
    number of samples of the previous models -/
def pamLoop (v : Variant) (nT : Nat) : Nat → List (PredSpec × Nat) → Sampler
  | _, [] => skipS
  | shift, (spec, cnt) :: rest =>
    seqS (if cnt = 0 then skipS
          else mapCells (fun c => { c with unit := c.unit + shift }) (postPredSample v spec nT cnt))
      (pamLoop v nT (shift + cnt) rest)

/-- `PAMPredictiveModel.sample`; `models` pairs every candidate with the number of samples the
    weighted choice allotted to it (any outcome of the choice is covered) -/
def pamSample (v : Variant) (models : List (PredSpec × Nat)) (nT : Nat) : Sampler := fun sd w =>
  let n := (models.map (·.2)).sum
  let gw := defaultRng sd w
  if v.globalChoice then
    -- `np.random.choice(model_indices, p=weights, size=n_samples)`: the global generator
    let alloc := (List.range n).map (fun k => (⟨gw.2.glob.stream, gw.2.glob.ctr, k⟩ : Read))
    let cw := globCall .legacyChoice n gw.2
    let r := pamLoop v nT 0 models (.gen gw.1) cw.2
    ((⟨r.1.1.cells, cw.1 :: r.1.1.calls, alloc, false⟩, finalSeed sd r.1.2), r.2)
  else
    -- intended: `rng.choice(...)`
    let alloc := (List.range n).map (fun k => (⟨gw.1.stream, gw.1.ctr, k⟩ : Read))
    let r := pamLoop v nT 0 models (.gen ⟨gw.1.stream, gw.1.ctr + 1⟩) gw.2
    ((⟨r.1.1.cells, ⟨gw.1.stream, gw.1.ctr, .choice, n⟩ :: r.1.1.calls, alloc, false⟩,
      finalSeed sd r.1.2), r.2)

/-! ## `sample_initial_parameters` (`chi/_log_pdfs.py`) -/

/-- `np.random.seed(seed)` -/
def seedGlobal : SeedArg → World → Option World
  | .int s, w => some { w with glob := ⟨.legacySeeded s, 0⟩ }
  | .none, w => some { glob := ⟨.legacyEntropy w.freshU, 0⟩, freshU := w.freshU + 1 }
  | .gen _, _ => Option.none

/-- `LogPosterior.sample_initial_parameters`: `np.random.seed(seed); log_prior.sample(n)`.
    One entry per sample (a parameter vector), computed from row `k` of the prior's array. -/
def initLogPosterior (n : Nat) : Sampler := fun sd w =>
  match seedGlobal sd w with
  | Option.none => ((⟨[], [], [], true⟩, sd), w)
  | some w0 =>
    let cw := globCall .prior n w0
    ((⟨(List.range n).map (fun k => ⟨k, 0, 0, [⟨cw.1.stream, cw.1.idx, k⟩], []⟩), [cw.1], [], false⟩, sd),
     cw.2)

/-- one vector of bottom-level parameters: `population_model.sample(top_k, n_ids, seed=rng)`;
    one entry per individual, computed from that individual's population draws -/
def initIter (p : Pop) (nIds : Nat) (k : Nat) : Sampler := fun sd w =>
  let r := popSample p nIds sd w
  ((⟨(List.range nIds).map (fun i => ⟨k, i + 1, 0, [], patientReads r.1.1.cells i⟩),
     r.1.1.calls, [], false⟩, r.1.2), r.2)

/-- the noise realisations of the filter posterior: `rng.normal(size=(n, nEps))` after the loop -/
def epsDraw (nIds nEps n : Nat) : Sampler :=
  if nEps = 0 then skipS
  else drawS [(.normal, n * nEps)] (fun S c => (List.range n).map (fun k =>
    ⟨k, nIds + 1, 0, [], (List.range nEps).map (fun j => ⟨S, c, k * nEps + j⟩)⟩))

/-- `HierarchicalLogPosterior.sample_initial_parameters` (`nEps = 0`) and
    `PopulationFilterLogPosterior.sample_initial_parameters` (`nEps` noise realisations per sample):
    the top level from the legacy global generator seeded with `seed`, the bottom level from
    `default_rng(seed + 1)`.  Entry `(k, 0)` is the top-level vector of sample `k`, entries
    `(k, i + 1)` the bottom-level parameters of individual `i` (which also depend on the top-level
    draw of sample `k`), entry `(k, nIds + 1)` the noise realisations. -/
def initHier (p : Pop) (nIds nEps n : Nat) : Sampler := fun sd w =>
  match seedGlobal sd w with
  | Option.none => ((⟨[], [], [], true⟩, sd), w)
  | some w0 =>
    let cw := globCall .prior n w0
    let top : Nat → Read := fun k => ⟨cw.1.stream, cw.1.idx, k⟩
    let sd1 : SeedArg := match sd with
      | .int s => .int (s + 1)
      | other => other
    let r := withRng (seqS (loopS (initIter p nIds) (List.range n)) (epsDraw nIds nEps n)) sd1 cw.2
    ((⟨(List.range n).map (fun k => ⟨k, 0, 0, [top k], []⟩)
        ++ r.1.1.cells.map (fun c => if c.out ≤ nIds then { c with par := [top c.unit] } else c),
       cw.1 :: r.1.1.calls, [], false⟩, sd), r.2)

/-! ## all entry points -/

inductive Entry where
  | error (k : EM) (nT nS : Nat)
  | population (p : Pop) (n : Nat)
  | predictive (kinds : List EM) (nT nS : Nat)
  | popPredictive (p : Pop) (kinds : List EM) (nT n : Nat)
  | priorPredictive (spec : PredSpec) (nT n : Nat)
  | posteriorPredictive (spec : PredSpec) (nT n : Nat)
  | pam (models : List (PredSpec × Nat)) (nT : Nat)
  | initLogPosterior (n : Nat)
  | initHierarchical (p : Pop) (nIds nEps n : Nat)
  deriving Repr, Inhabited

def Entry.run (v : Variant) : Entry → Sampler
  | .error k nT nS => errSample k nT nS
  | .population p n => popSample p n
  | .predictive kinds nT nS => predSample v kinds nT nS
  | .popPredictive p kinds nT n => popPredSample v p kinds nT n
  | .priorPredictive spec nT n => priorPredSample v spec nT n
  | .posteriorPredictive spec nT n => postPredSample v spec nT n
  | .pam models nT => pamSample v models nT
  | .initLogPosterior n => Seeds.initLogPosterior n
  | .initHierarchical p nIds nEps n => initHier p nIds nEps n

end ChiModel.Seeds
