import ChiModel.ErrorModels
/-!
# chi/_log_pdfs.py — LogLikelihood: union grid, per-output selection, score accumulation
-/
namespace ChiModel
variable {α : Type} [Add α] [Sub α] [Mul α] [Div α] [Neg α] [ScalarFns α]
open ScalarFns

/-- Python float addition on scores: `nan` absorbs everything, then `-inf`. -/
def Score.add : Score α → Score α → Score α
  | .undefined, _ => .undefined
  | _, .undefined => .undefined
  | .negInf, _ => .negInf
  | _, .negInf => .negInf
  | .val a, .val b => .val (a + b)

def Score.zero : Score α := .val (ofNat 0)

/-- the four error models -/
inductive EM | gauss | mult | cm | ln
  deriving Repr, DecidableEq

def EM.nParams : EM → Nat
  | .cm => 2
  | _ => 1

/-- `error_model.compute_log_likelihood(parameters, model_output, observations)` -/
def emLL (k : EM) (sig : List α) (n : Nat) (ybar obs : Nat → α) : Score α :=
  let s0 := sig.getD 0 (ofNat 0)
  let s1 := sig.getD 1 (ofNat 0)
  match k with
  | .gauss => gaussLL n s0 ybar obs
  | .mult => multLL n s0 ybar obs
  | .cm => cmLL n s0 s1 ybar obs
  | .ln => lnLL n s0 ybar obs

inductive Err | lengthMismatch | notIncreasing | negativeTime | shapeMismatch
  deriving Repr, DecidableEq

section grid
variable {τ : Type} [DecidableEq τ]

/-- insertion into a sorted duplicate-free list (`sorted(set(...))`, element by element) -/
def insertSorted (lt : τ → τ → Bool) (x : τ) : List τ → List τ
  | [] => [x]
  | y :: ys => if x = y then y :: ys else if lt x y then x :: y :: ys else y :: insertSorted lt x ys

/-- `sorted(set(t for ts in times for t in ts))` -/
def unionGrid (lt : τ → τ → Bool) (times : List (List τ)) : List τ :=
  times.flatten.foldl (fun acc t => insertSorted lt t acc) []

/-- legacy chi: boolean mask over the union grid, then boolean indexing of the predictions -/
def pickMask (u : List τ) (ts : List τ) (pred : τ → α) : List α :=
  (u.filter (fun t => ts.contains t)).map pred

/-- intended (and trial fix): integer positions of every measurement time -/
def pickIdx (_u : List τ) (ts : List τ) (pred : τ → α) : List α := ts.map pred

end grid

/-- one output's data after the constructor: times (sorted) and observations -/
structure OutData (τ α : Type) where
  times : List τ
  obs : List α

/-- slice of the error parameters belonging to output `o` -/
def sliceFor (ems : List EM) (sig : List α) (o : Nat) : List α :=
  let start := ((ems.take o).map EM.nParams).sum
  (sig.drop start).take ((ems.getD o .gauss).nParams)

def vecOf (l : List α) : Nat → α := fun j => l.getD j (ofNat 0)

/-- `LogLikelihood.__call__` after the mechanistic model has been solved on the union grid:
    `f o t` is the prediction for output `o` at time `t`. `legacy = true` is the code as it is. -/
def llCall {τ : Type} [DecidableEq τ] (legacy : Bool) (lt : τ → τ → Bool) (ems : List EM)
    (f : Nat → τ → α) (data : List (OutData τ α)) (sig : List α) : Except Err (Score α) :=
  let u := unionGrid lt (data.map (·.times))
  let rec go (o : Nat) (rest : List (OutData τ α)) (acc : Score α) : Except Err (Score α) :=
    match rest with
    | [] => .ok acc
    | d :: ds =>
      let pred := if legacy then pickMask u d.times (f o) else pickIdx u d.times (f o)
      if pred.length ≠ d.obs.length then .error .lengthMismatch
      else
        let s := emLL (ems.getD o .gauss) (sliceFor ems sig o) d.obs.length (vecOf pred) (vecOf d.obs)
        go (o + 1) ds (Score.add acc s)
  go 0 data Score.zero

/-- the property's right-hand side: every measurement scored once against the prediction
    for its own output at its own time -/
def llSpec {τ : Type} (ems : List EM) (f : Nat → τ → α) (data : List (OutData τ α))
    (sig : List α) : Score α :=
  let rec go (o : Nat) (rest : List (OutData τ α)) (acc : Score α) : Score α :=
    match rest with
    | [] => acc
    | d :: ds =>
      let s := emLL (ems.getD o .gauss) (sliceFor ems sig o) d.obs.length
        (vecOf (d.times.map (f o))) (vecOf d.obs)
      go (o + 1) ds (Score.add acc s)
  go 0 data Score.zero

end ChiModel
