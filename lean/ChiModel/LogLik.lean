import ChiModel.ErrorModels
/-!
# chi/_log_pdfs.py — LogLikelihood: union grid, per-output selection, score accumulation
-/
namespace ChiModel
variable {α : Type} [Add α] [Sub α] [Mul α] [Div α] [Neg α] [ScalarFns α]
open ScalarFns

/-- Python float addition on scores: `nan` absorbs everything, then `-inf`. -/
def Score.add : Score α → Score α → Score α
  | .undefined, _ => .undefined
  | _, .undefined => .undefined
  | .negInf, _ => .negInf
  | _, .negInf => .negInf
  | .val a, .val b => .val (a + b)

def Score.zero : Score α := .val (ofNat 0)

/-- the four error models -/
inductive EM | gauss | mult | cm | ln
  deriving Repr, DecidableEq

def EM.nParams : EM → Nat
  | .cm => 2
  | _ => 1

/-- `error_model.compute_log_likelihood(parameters, model_output, observations)` -/
def emLL (k : EM) (sig : List α) (n : Nat) (ybar obs : Nat → α) : Score α :=
  let s0 := sig.getD 0 (ofNat 0)
  let s1 := sig.getD 1 (ofNat 0)
  match k with
  | .gauss => gaussLL n s0 ybar obs
  | .mult => multLL n s0 ybar obs
  | .cm => cmLL n s0 s1 ybar obs
  | .ln => lnLL n s0 ybar obs

inductive Err | lengthMismatch | notIncreasing | negativeTime | shapeMismatch
  deriving Repr, DecidableEq

section grid
variable {τ : Type} [DecidableEq τ]

/-- insertion into a sorted duplicate-free list (`sorted(set(...))`, element by element) -/
def insertSorted (lt : τ → τ → Bool) (x : τ) : List τ → List τ
  | [] => [x]
  | y :: ys => if x = y then y :: ys else if lt x y then x :: y :: ys else y :: insertSorted lt x ys

/-- `sorted(set(t for ts in times for t in ts))` -/
def unionGrid (lt : τ → τ → Bool) (times : List (List τ)) : List τ :=
  times.flatten.foldl (fun acc t => insertSorted lt t acc) []

/-- legacy chi: boolean mask over the union grid, then boolean indexing of the predictions -/
def pickMask (u : List τ) (ts : List τ) (pred : τ → α) : List α :=
  (u.filter (fun t => ts.contains t)).map pred

/-- intended (and trial fix): integer positions of every measurement time -/
def pickIdx (_u : List τ) (ts : List τ) (pred : τ → α) : List α := ts.map pred

end grid

/-- one output's data after the constructor: times (sorted) and observations -/
structure OutData (τ α : Type) where
  times : List τ
  obs : List α

/-- slice of the error parameters belonging to output `o` -/
def sliceFor (ems : List EM) (sig : List α) (o : Nat) : List α :=
  let start := ((ems.take o).map EM.nParams).sum
  (sig.drop start).take ((ems.getD o .gauss).nParams)

def vecOf (l : List α) : Nat → α := fun j => l.getD j (ofNat 0)

/-- `LogLikelihood.__call__` after the mechanistic model has been solved on the union grid:
    `f o t` is the prediction for output `o` at time `t`. `legacy = true` is the code as it is. -/
def llCall {τ : Type} [DecidableEq τ] (legacy : Bool) (lt : τ → τ → Bool) (ems : List EM)
    (f : Nat → τ → α) (data : List (OutData τ α)) (sig : List α) : Except Err (Score α) :=
  let u := unionGrid lt (data.map (·.times))
  let rec go (o : Nat) (rest : List (OutData τ α)) (acc : Score α) : Except Err (Score α) :=
    match rest with
    | [] => .ok acc
    | d :: ds =>
      let pred := if legacy then pickMask u d.times (f o) else pickIdx u d.times (f o)
      if pred.length ≠ d.obs.length then .error .lengthMismatch
      else
        let s := emLL (ems.getD o .gauss) (sliceFor ems sig o) d.obs.length (vecOf pred) (vecOf d.obs)
        go (o + 1) ds (Score.add acc s)
  go 0 data Score.zero

/-- the property's right-hand side: every measurement scored once against the prediction
    for its own output at its own time -/
def llSpec {τ : Type} (ems : List EM) (f : Nat → τ → α) (data : List (OutData τ α))
    (sig : List α) : Score α :=
  let rec go (o : Nat) (rest : List (OutData τ α)) (acc : Score α) : Score α :=
    match rest with
    | [] => acc
    | d :: ds =>
      let s := emLL (ems.getD o .gauss) (sliceFor ems sig o) d.obs.length
        (vecOf (d.times.map (f o))) (vecOf d.obs)
      go (o + 1) ds (Score.add acc s)
  go 0 data Score.zero

/-- `error_model.compute_pointwise_ll`, entry `j` (inside the support) -/
def emPW (k : EM) (sig : List α) (ybar obs : Nat → α) (j : Nat) : α :=
  let s0 := sig.getD 0 (ofNat 0)
  let s1 := sig.getD 1 (ofNat 0)
  match k with
  | .gauss => gaussPW s0 ybar obs j
  | .mult => multPW s0 ybar obs j
  | .cm => cmPW s0 s1 ybar obs j
  | .ln => lnPW s0 ybar obs j

/-- `LogLikelihood.compute_pointwise_ll`: output by output, in time order (`np.hstack`);
    `none` marks an entry that is not a finite log-density (guard / nan) -/
def llPointwise {τ : Type} (ems : List EM) (f : Nat → τ → α) (data : List (OutData τ α))
    (sig : List α) : List (Option α) :=
  let rec go (o : Nat) (rest : List (OutData τ α)) : List (Option α) :=
    match rest with
    | [] => []
    | d :: ds =>
      let k := ems.getD o .gauss
      let sg := sliceFor ems sig o
      let yb := vecOf (d.times.map (f o))
      let ob := vecOf d.obs
      let row := match emLL k sg d.obs.length yb ob with
        | .val _ => (List.range d.obs.length).map (fun j => some (emPW k sg yb ob j))
        | _ => (List.range d.obs.length).map (fun _ => none)
      row ++ go (o + 1) ds
  go 0 data

/-- `n_observations()` -/
def nObservations {τ : Type} (data : List (OutData τ α)) : Nat := (data.map (·.obs.length)).sum

/-- number of parameters: mechanistic ones, then every error model's -/
def nParameters (nMech : Nat) (ems : List EM) : Nat := nMech + (ems.map EM.nParams).sum

/-- the constructor's checks on one output's `(times, observations)`:
    equal shape, no decrease between neighbours (`np.any(ts[:-1] > ts[1:])`).
    Ties pass. -/
def adjacentOk {τ : Type} (lt : τ → τ → Bool) : List τ → Bool
  | [] => true
  | [_] => true
  | a :: b :: rest => !(lt b a) && adjacentOk lt (b :: rest)

def constructorAccepts {τ : Type} (lt : τ → τ → Bool) (nOutputs : Nat) (ems : List EM)
    (data : List (OutData τ α)) : Except Err Unit :=
  if ems.length ≠ nOutputs || data.length ≠ nOutputs then .error .shapeMismatch
  else if data.any (fun d => !(adjacentOk lt d.times)) then .error .notIncreasing
  else if data.any (fun d => d.times.length ≠ d.obs.length) then .error .shapeMismatch
  else .ok ()

/-- `LogPosterior.__call__`: prior first; `-inf` prior short-circuits -/
def logPosterior (prior : Score α) (ll : Unit → Except Err (Score α)) : Except Err (Score α) :=
  match prior with
  | .negInf => .ok .negInf
  | p => match ll () with
    | .error e => .error e
    | .ok s => .ok (Score.add p s)

end ChiModel
