/-!
# Labelling the individual log-likelihoods of a hierarchical log-likelihood
(`HierarchicalLogLikelihood._label_log_likelihoods`)

Each individual log-likelihood carries a label or none (Python: `None`, and also the empty string, which is
falsy). An unlabelled one receives `'Log-likelihood <position>'` (positions count from 1) and the
uniqueness test is made on the label the individual ends up with.
-/
namespace ChiModel.Labels

/-- the default label of position `k` (0-based) -/
def defaultLabel (k : Nat) : String := "Log-likelihood " ++ toString (k + 1)

/-- Python truthiness of a label: `None` and `''` are "no label" -/
def effective (k : Nat) (l : Option String) : String :=
  match l with
  | none => defaultLabel k
  | some s => if s.isEmpty then defaultLabel k else s

/-- the loop of `_label_log_likelihoods`: `none` is the `ValueError('Log-likelihood IDs need to be unique.')` -/
def labelGo : Nat → List (Option String) → List String → Option (List String)
  | _, [], seen => some seen.reverse
  | k, l :: ls, seen =>
    let id := effective k l
    if id ∈ seen then none else labelGo (k + 1) ls (id :: seen)

def label (ls : List (Option String)) : Option (List String) := labelGo 0 ls []

/-- the labels every individual ends up with, by position -/
def effectiveFrom : Nat → List (Option String) → List String
  | _, [] => []
  | k, l :: ls => effective k l :: effectiveFrom (k + 1) ls

/-- the seeded slip: uniqueness tested on the label BEFORE the default is filled in -/
def labelGoEarly : Nat → List (Option String) → List String → Option (List String)
  | _, [], seen => some seen.reverse
  | k, l :: ls, seen =>
    let raw := match l with | none => "" | some s => s
    if raw ∈ seen then none else labelGoEarly (k + 1) ls (effective k l :: seen)

end ChiModel.Labels
