import ChiModel.PopModels
/-!
# chi/_population_models.py — sensitivities of the elementary population models

Index form, after the parameter layout has been normalised (`PopLayout.lean`):
`th i p d` is parameter `p` of dimension `d` as seen by individual `i` (the same convention as
`PopModels.lean`), `eta i d` the "observation" (individual-level entry), `up i d` the supplied
upstream sensitivity `dlogp_dpsi[i, d]` (`none` = not supplied).

Modelled, branch for branch: `_compute_sensitivities`, `_compute_dpsi`,
`_compute_non_centered_sensitivities`, the guards of `compute_sensitivities`, the three `_shape`
overrides and `n_hierarchical_parameters` of `GaussianModel`, `LogNormalModel`,
`TruncatedGaussianModel`, `PooledModel`, `HeterogeneousModel`.
-/
namespace ChiModel
variable {α : Type} [Add α] [Sub α] [Mul α] [Div α] [Neg α] [ScalarFns α]
open ScalarFns

def oneS : α := ofNat 1

/-! ## raw values of `popLL` (the `.val` branches), named -/

def gaussCTerm (mu sigma psi : α) : α :=
  log (two * pi * (sigma * sigma)) / two + (psi - mu) * (psi - mu) / (two * (sigma * sigma))

def gaussCLLraw (nIds nDim : Nat) (mu sigma psi : Nat → Nat → α) : α :=
  Neg.neg (isum2 nIds nDim (fun i d => gaussCTerm (mu i d) (sigma i d) (psi i d)))

def lognCTerm (mu sigma psi : α) : α :=
  log (two * pi * (sigma * sigma)) / two + log psi
    + (log psi - mu) * (log psi - mu) / two / (sigma * sigma)

def lognCLLraw (nIds nDim : Nat) (mu sigma psi : Nat → Nat → α) : α :=
  Neg.neg (isum2 nIds nDim (fun i d => lognCTerm (mu i d) (sigma i d) (psi i d)))

def truncTerm [HasErf α] (mu sigma psi : α) : α :=
  log (two * pi * (sigma * sigma)) / two + (psi - mu) * (psi - mu) / (two * (sigma * sigma))
    + log (ofNat 1 - normCdf (Neg.neg mu / sigma))

def truncLLraw [HasErf α] (nIds nDim : Nat) (mu sigma psi : Nat → Nat → α) : α :=
  Neg.neg (isum2 nIds nDim (fun i d => truncTerm (mu i d) (sigma i d) (psi i d)))

/-! ## pointwise sensitivity kernels -/

/-- `GaussianModel._compute_sensitivities`: `dpsi = (mus - psi) / vars` -/
def gcDPsi (mu sigma psi : α) : α := (mu - psi) / (sigma * sigma)
/-- `dmus = (psi - mus) / vars` -/
def gcDMu (mu sigma psi : α) : α := (psi - mu) / (sigma * sigma)
/-- `dstd = (-1 + (psi - mus)**2 / vars) / np.sqrt(vars)` -/
def gcDStd (mu sigma psi : α) : α :=
  (Neg.neg oneS + (psi - mu) * (psi - mu) / (sigma * sigma)) / sqrt (sigma * sigma)

/-- `LogNormalModel._compute_sensitivities`: `dpsi = - ((log psi - mus) / vars + 1) / psi` -/
def lcDPsi (mu sigma psi : α) : α :=
  Neg.neg ((log psi - mu) / (sigma * sigma) + oneS) / psi
def lcDMu (mu sigma psi : α) : α := (log psi - mu) / (sigma * sigma)
def lcDStd (mu sigma psi : α) : α :=
  (Neg.neg oneS + (log psi - mu) * (log psi - mu) / (sigma * sigma)) / sqrt (sigma * sigma)

/-- `_norm_pdf(x) = exp(-x**2/2) / sqrt(2 pi)` -/
def normPdf (x : α) : α := exp (Neg.neg (x * x) / two) / sqrt (two * pi)

/-- `TruncatedGaussianModel._compute_sensitivities` -/
def tgDPsi (mu sigma psi : α) : α := (mu - psi) / (sigma * sigma)
def tgDMu [HasErf α] (mu sigma psi : α) : α :=
  ((psi - mu) / sigma - normPdf (mu / sigma) / (oneS - normCdf (Neg.neg mu / sigma))) / sigma
def tgDSigma [HasErf α] (mu sigma psi : α) : α :=
  (Neg.neg oneS + (psi - mu) * (psi - mu) / (sigma * sigma)
    + normPdf (mu / sigma) * mu / sigma / (oneS - normCdf (Neg.neg mu / sigma))) / sigma

/-- `LogNormalModel._compute_dpsi`: `psi = exp(mu + sigma * eta)` -/
def lnPsi (mu sigma eta : α) : α := exp (mu + sigma * eta)

/-! ## `compute_sensitivities` after layout normalisation -/

/-- what `compute_sensitivities` hands to `_shape`. `defined = false`: the arrays are `np.empty`
    (or non-finite by-products of a score that collapsed to `-inf`): only their shapes mean
    anything. `dtheta i p d` has shape `(n_ids, nPer, n_dim)`. -/
structure SensOut (α : Type) where
  score : Score α
  defined : Bool
  dpsi : Nat → Nat → α
  dtheta : Nat → Nat → Nat → α

def upAt (up : Option (Nat → Nat → α)) (i d : Nat) : α :=
  match up with
  | none => zero
  | some u => u i d

/-- `dpsi += dlogp_dpsi` only `if dlogp_dpsi is not None` -/
def addUp (up : Option (Nat → Nat → α)) (g : Nat → Nat → α) : Nat → Nat → α :=
  match up with
  | none => g
  | some u => fun i d => g i d + u i d

def garbage : SensOut α := ⟨.negInf, false, fun _ _ => zero, fun _ _ _ => zero⟩

/-- `compute_sensitivities` of one elementary model (parameters already normalised).
    `anyNeg` / `anyNonPos`: the guards `np.any(sigmas < 0)` / `np.any(sigmas <= 0)` evaluated on
    the raw scale array. -/
def popSens [HasErf α] (k : Kind) (nIds nDim : Nat) (th : Nat → Nat → Nat → α)
    (eta : Nat → Nat → α) (up : Option (Nat → Nat → α)) : SensOut α :=
  let mu := fun i d => th i 0 d
  let sg := fun i d => th i 1 d
  let anyNeg := iany2 nIds nDim (fun i d => lt (sg i d) zero)
  match k with
  | .gauss true =>
    if anyNeg then garbage else
    match popLL (.gauss true) nIds nDim th eta with
    | .val v => ⟨.val v, true,
        addUp up (fun i d => gcDPsi (mu i d) (sg i d) (eta i d)),
        fun i p d => if p = 0 then gcDMu (mu i d) (sg i d) (eta i d)
                     else gcDStd (mu i d) (sg i d) (eta i d)⟩
    | s => ⟨s, false, fun _ _ => zero, fun _ _ _ => zero⟩
  | .gauss false =>
    if anyNeg then garbage else
    -- `_compute_non_centered_sensitivities`: deta = (0 - eta) / 1, dpsi_deta = sigma,
    -- dpsi_dtheta = (1, eta)
    ⟨.val (stdNormalLL nIds nDim eta), true,
      fun i d => upAt up i d * sg i d + (zero - eta i d) / oneS,
      fun i p d => if p = 0 then upAt up i d * oneS else upAt up i d * eta i d⟩
  | .logn true =>
    if anyNeg then garbage else
    match popLL (.logn true) nIds nDim th eta with
    | .val v => ⟨.val v, true,
        addUp up (fun i d => lcDPsi (mu i d) (sg i d) (eta i d)),
        fun i p d => if p = 0 then lcDMu (mu i d) (sg i d) (eta i d)
                     else lcDStd (mu i d) (sg i d) (eta i d)⟩
    | s => ⟨s, false, fun _ _ => zero, fun _ _ _ => zero⟩
  | .logn false =>
    if anyNeg then garbage else
    ⟨.val (stdNormalLL nIds nDim eta), true,
      fun i d => upAt up i d * (sg i d * lnPsi (mu i d) (sg i d) (eta i d)) + Neg.neg (eta i d),
      fun i p d => if p = 0 then upAt up i d * lnPsi (mu i d) (sg i d) (eta i d)
                   else upAt up i d * (eta i d * lnPsi (mu i d) (sg i d) (eta i d))⟩
  | .trunc =>
    match popLL .trunc nIds nDim th eta with
    | .val v => ⟨.val v, true,
        addUp up (fun i d => tgDPsi (mu i d) (sg i d) (eta i d)),
        fun i p d => if p = 0 then tgDMu (mu i d) (sg i d) (eta i d)
                     else tgDSigma (mu i d) (sg i d) (eta i d)⟩
    | s => ⟨s, false, fun _ _ => zero, fun _ _ _ => zero⟩
  | .pooled =>
    match popLL .pooled nIds nDim th eta with
    | .val v => ⟨.val v, true, addUp up (fun _ _ => zero), fun _ _ _ => zero⟩
    | s => ⟨s, false, fun _ _ => zero, fun _ _ _ => zero⟩
  | .hetero =>
    match popLL .hetero nIds nDim th eta with
    | .val v => ⟨.val v, true, addUp up (fun _ _ => zero), fun _ _ _ => zero⟩
    | s => ⟨s, false, fun _ _ => zero, fun _ _ _ => zero⟩

/-! ## `_shape` (three overrides) and the parameter counts -/

/-- `dpsi.flatten()` — C order: individual-major -/
def flatPsi (nIds nDim : Nat) (dpsi : Nat → Nat → α) : List α :=
  (List.range nIds).flatMap (fun i => (List.range nDim).map (fun d => dpsi i d))

/-- `np.sum(dtheta, axis=0).flatten()` — parameter-major, then dimension -/
def flatTheta (nIds nPer nDim : Nat) (dtheta : Nat → Nat → Nat → α) : List α :=
  (List.range nPer).flatMap (fun p => (List.range nDim).map (fun d =>
    isum nIds (fun i => dtheta i p d)))

/-- `n_parameters()` -/
def Kind.nParams (k : Kind) (nIds nDim : Nat) : Nat := k.perDim nIds * nDim

/-- `n_hierarchical_parameters(n_ids)` = (bottom, top) -/
def Kind.nHierParams (k : Kind) (nIds nDim : Nat) : Nat × Nat :=
  (if k.hierarchical then nIds * nDim else 0, k.nParams nIds nDim)

/-- `flattened=True` (and not `reduce`): the third return value -/
def shapeFlattened (k : Kind) (nIds nDim : Nat) (s : SensOut α) : List α :=
  match k with
  | .pooled => List.replicate nDim zero          -- `np.zeros(self._n_parameters)`
  | .hetero => List.replicate (nIds * nDim) zero -- `np.zeros(self._n_parameters)`
  | _ => flatTheta nIds 2 nDim s.dtheta

/-- `reduce=True`: the single gradient vector -/
def shapeReduce (k : Kind) (nIds nDim : Nat) (s : SensOut α) : List α :=
  match k with
  | .pooled => (List.range nDim).map (fun d => isum nIds (fun i => s.dpsi i d))  -- `np.sum(dpsi, axis=0)`
  | .hetero => flatPsi nIds nDim s.dpsi                                         -- `dpsi.flatten()`
  | _ => flatPsi nIds nDim s.dpsi ++ flatTheta nIds 2 nDim s.dtheta

/-- `flattened=False`, `reduce=False`: `dtheta` of shape `(n_ids, nPer, n_dim)` as nested lists -/
def shapeSeparate (k : Kind) (nIds nDim : Nat) (s : SensOut α) : List (List (List α)) :=
  (List.range nIds).map (fun i => (List.range (k.perDim nIds)).map (fun p =>
    (List.range nDim).map (fun d => s.dtheta i p d)))

def psiRows (nIds nDim : Nat) (dpsi : Nat → Nat → α) : List (List α) :=
  (List.range nIds).map (fun i => (List.range nDim).map (fun d => dpsi i d))

end ChiModel
