/-!
# Line protocol between the Python harness and the executable model

One request per line: `<id> <opcode> <value>*`, one reply per line: `<id> <value>*`.
Values are self-describing tokens separated by single spaces:

* `i<int>`      integer (may be negative)
* `f<uint64>`   IEEE double as the decimal of its bit pattern (never printed as decimal text)
* `s<text>`     string without blanks (`%20`-style escaping is done by the harness)
* `n`           Python `None`
* `t` / `u`     `True` / `False`
* `[` … `]`     list

Nothing here is used by a theorem; it is the transport of the correspondence check.
-/
namespace Wire

inductive Val where
  | int (n : Int)
  | flt (x : Float)
  | str (s : String)
  | none
  | bool (b : Bool)
  | list (l : List Val)
  deriving Inhabited

/-- parse one value from the token list; `fuel` bounds nesting -/
partial def parseVal : List String → Option (Val × List String)
  | [] => .none
  | tok :: rest =>
    if tok == "[" then
      let rec items (acc : List Val) (ts : List String) : Option (Val × List String) :=
        match ts with
        | [] => .none
        | "]" :: r => some (.list acc.reverse, r)
        | _ => match parseVal ts with
          | .none => .none
          | some (v, r) => items (v :: acc) r
      items [] rest
    else if tok == "n" then some (.none, rest)
    else if tok == "t" then some (.bool true, rest)
    else if tok == "u" then some (.bool false, rest)
    else
      let body := (tok.drop 1).toString
      match tok.front with
      | 'i' => body.toInt?.map (fun n => (.int n, rest))
      | 'f' => body.toNat?.map (fun n => (.flt (Float.ofBits n.toUInt64), rest))
      | 's' => some (.str body, rest)
      | _ => .none

partial def parseAll (ts : List String) : Option (List Val) :=
  match ts with
  | [] => some []
  | _ => match parseVal ts with
    | .none => .none
    | some (v, r) => (parseAll r).map (v :: ·)

partial def Val.render : Val → String
  | .int n => "i" ++ toString n
  | .flt x => "f" ++ toString x.toBits.toNat
  | .str s => "s" ++ s
  | .none => "n"
  | .bool true => "t"
  | .bool false => "u"
  | .list l => "[ " ++ String.join (l.map (fun v => v.render ++ " ")) ++ "]"

/-! accessors returning `Option`, so that a malformed request is answered `bad-op`, never defaulted -/
def Val.nat? : Val → Option Nat
  | .int n => if n ≥ 0 then some n.toNat else .none
  | _ => .none
def Val.int? : Val → Option Int
  | .int n => some n
  | _ => .none
def Val.flt? : Val → Option Float
  | .flt x => some x
  | _ => .none
def Val.str? : Val → Option String
  | .str s => some s
  | _ => .none
def Val.bool? : Val → Option Bool
  | .bool b => some b
  | _ => .none
def Val.list? : Val → Option (List Val)
  | .list l => some l
  | _ => .none
def Val.flts? (v : Val) : Option (List Float) := v.list? >>= (·.mapM Val.flt?)
def Val.nats? (v : Val) : Option (List Nat) := v.list? >>= (·.mapM Val.nat?)
def Val.strs? (v : Val) : Option (List String) := v.list? >>= (·.mapM Val.str?)
def Val.fltss? (v : Val) : Option (List (List Float)) := v.list? >>= (·.mapM Val.flts?)
def Val.natss? (v : Val) : Option (List (List Nat)) := v.list? >>= (·.mapM Val.nats?)
/-- `None` or a value -/
def Val.opt? {β} (f : Val → Option β) : Val → Option (Option β)
  | .none => some .none
  | v => (f v).map some

def ofFlts (l : List Float) : Val := .list (l.map .flt)
def ofNats (l : List Nat) : Val := .list (l.map (fun n => .int (Int.ofNat n)))
def ofStrs (l : List String) : Val := .list (l.map .str)

end Wire
