import ChiModel.PopModels
/-!
# ComposedPopulationModel / CovariatePopulationModel / HierarchicalLogLikelihood.__call__
(value path: population score and the individual parameters handed to the likelihoods)
-/
namespace ChiModel
variable {α : Type} [Add α] [Sub α] [Mul α] [Div α] [Neg α] [ScalarFns α]
open ScalarFns

structure SubModel where
  kind : Kind
  nDim : Nat
  /-- number of covariates of the wrapping covariate model, 0 = not wrapped -/
  nCov : Nat
  /-- stored selection (de-duplicated, ordered) of transformed `(param, dim)` pairs -/
  sel : List (Nat × Nat)
  deriving Repr

def SubModel.nPop (s : SubModel) (nIds : Nat) : Nat := s.kind.perDim nIds * s.nDim
def SubModel.nTop (s : SubModel) (nIds : Nat) : Nat := s.nPop nIds + s.nCov * s.sel.length
def SubModel.nHier (s : SubModel) : Nat := if s.kind.hierarchical then s.nDim else 0

/-- population parameters as seen by individual `i` (LinearCovariateModel.compute_population_parameters) -/
def SubModel.th (s : SubModel) (nIds : Nat) (top : Nat → α) (cov : Nat → Nat → α) : Nat → Nat → Nat → α :=
  fun i p d =>
    let base := top (p * s.nDim + d)
    if s.nCov = 0 then base else
    match s.sel.idxOf? (p, d) with
    | none => base
    | some k => base + isum s.nCov (fun c => cov i c * top (s.nPop nIds + k * s.nCov + c))

structure HierOut (α : Type) where
  popScore : Score α
  psi : List (List (PsiVal α))        -- nIds rows of nDim values
  deriving Repr

inductive HErr | notImplemented | badLength
  deriving Repr, DecidableEq

/-- one sub-model of the composite on its own slice of population parameters (`topOff`),
    covariates (`covOff`) and individual-level columns (`hierOff`): its score and its `nDim`
    columns of individual parameters -/
def subEval [HasErf α] (legacyTrunc : Bool) (nIds nHierTot : Nat) (params : Nat → α)
    (covAll : Nat → Nat → α) (s : SubModel) (topOff covOff hierOff : Nat) :
    Score α × List (Nat → PsiVal α) :=
  let nBottom := nIds * nHierTot
  let top : Nat → α := fun j => params (nBottom + topOff + j)
  let cov : Nat → Nat → α := fun i c => covAll i (covOff + c)
  let th := s.th nIds top cov
  -- eta of this sub-model: own bottom entries, or (pooled / heterogeneous) the values that
  -- `compute_individual_parameters(return_eta=True)` fills in
  let eta : Nat → Nat → α := fun i d =>
    match s.kind with
    | .pooled => th i 0 d
    | .hetero => th i i d
    | _ => params (i * nHierTot + hierOff + d)
  (popLL s.kind nIds s.nDim th eta,
   (List.range s.nDim).map (fun d => fun i => indiv legacyTrunc s.kind nIds s.nDim th eta i d))

/-- walk over the sub-models with running offsets -/
def hierGo [HasErf α] (legacyTrunc : Bool) (nIds nHierTot : Nat) (params : Nat → α)
    (covAll : Nat → Nat → α) :
    List SubModel → (topOff covOff hierOff : Nat) → (acc : Score α) → (cols : List (Nat → PsiVal α)) →
      Except HErr (Score α × List (Nat → PsiVal α))
  | [], _, _, _, acc, cols => .ok (acc, cols)
  | s :: ss, topOff, covOff, hierOff, acc, cols =>
    let r := subEval legacyTrunc nIds nHierTot params covAll s topOff covOff hierOff
    hierGo legacyTrunc nIds nHierTot params covAll ss (topOff + s.nTop nIds) (covOff + s.nCov)
      (hierOff + s.nHier) (Score.add acc r.1) (cols ++ r.2)

def hierCall [HasErf α] (legacyTrunc : Bool) (nIds : Nat) (subs : List SubModel) (params : List α)
    (covAll : Nat → Nat → α) : Except HErr (HierOut α) :=
  let nHierTot := (subs.map SubModel.nHier).sum
  let nTopTot := (subs.map (·.nTop nIds)).sum
  if params.length ≠ nIds * nHierTot + nTopTot then .error .badLength else
  match hierGo legacyTrunc nIds nHierTot (vecOf params) covAll subs 0 0 0 Score.zero [] with
  | .error e => .error e
  | .ok (sc, cols) =>
    let rows := (List.range nIds).map (fun i => cols.map (fun c => c i))
    if rows.any (fun r => r.any (fun v => match v with | .notImpl => true | _ => false))
    then .error .notImplemented
    else .ok ⟨sc, rows⟩

end ChiModel
