import ChiModel.MechConfig
/-!
# C11 — the canonical calls that apply a configuration to a freshly created object

`canonical c` is the list of configuration calls with which the check (and a user) configures a new
object to have the configuration `c`: route of administration, parameter names, outputs, output names,
regimen, sensitivities, then wrapping, fixing, and (if every parameter is fixed) sensitivities through the
wrapper.  `Canon c` collects the conditions under which these calls are accepted and reach exactly `c`
(`ChiProofs`: `C11_canonical_reaches`); the harness evaluates `Canon` on the net configuration of every
generated history.
-/
namespace ChiModel.MechConfig
variable (b : Base)

/-- the entries of a name dictionary that differ from the default -/
def renamePairs (m : List (String × String)) : List (String × String) := m.filter (fun p => p.1 ≠ p.2)

/-- displayed names of the parameters whose sensitivity expressions are `sel` -/
def sensNames (c : Config) (sel : List String) : List String :=
  ((c.pmap.map Prod.snd).zip (sensExprs (cfgTables b c))).filterMap
    (fun (pe : String × String) => if pe.2 ∈ sel then some pe.1 else none)

/-- the dictionary handed to `fix_parameters` -/
def fixPairs : List String → List Bool → List Src → List (String × Option Nat)
  | n :: ns, m :: ms, v :: vs =>
    match m, v with
    | true, Src.fixed x => (n, some x) :: fixPairs ns ms vs
    | _, _ => fixPairs ns ms vs
  | _, _, _ => []

def canonicalRed (c : Config) : List Op :=
  match c.red with
  | none => []
  | some r =>
    [Op.wrap] ++
    (match r.mask, r.values with
     | some m, some v => [Op.fix (fixPairs ((cfgPublic b c).getD []) m v)]
     | _, _ => []) ++
    (if r.emptySens then [Op.enableSens true none] else [])

def canonAdmin (c : Config) : List Op := match c.admin with
  | some a => [Op.setAdmin a]
  | none => []

def canonRegimen (c : Config) : List Op := match c.regimen with
  | some r => [Op.setRegimen r]
  | none => []

def canonSens (c : Config) : List Op := match c.sens with
  | some sel => [Op.enableSens true (some (sensNames b c sel))]
  | none => []

def canonical (c : Config) : List Op :=
  canonAdmin c ++
  [Op.setParamNames (renamePairs c.pmap), Op.setOutputs c.outputs, Op.setOutputNames (renamePairs c.omap)] ++
  canonRegimen c ++ canonSens b c ++ canonicalRed b c

/-- `c` with the unobservable residue `_n_sensitivity_parameters` as a new object has it: the number of
selected parameters while sensitivities are enabled, 0 otherwise -/
def normCount (c : Config) : Config :=
  { c with sensCount := match c.sens with
      | some sel => sel.length
      | none => 0 }

/-! ## when the canonical calls reach the configuration -/

def Canon.adminOK (c : Config) : Prop := match c.admin with
  | none => True
  | some a => b.pkpd = true ∧ validAdmin b a = none

def Canon.sensOK (c : Config) : Prop := match c.sens with
  | none => True
  | some sel => sel ≠ [] ∧ sensSelect (cfgTables b c) c.pmap (some (sensNames b c sel)) = sel

def Canon.redOK (c : Config) : Prop := match c.red with
  | none => True
  | some r =>
    (match r.mask, r.values with
     | none, none => True
     | some m, some v =>
       fixMask ((cfgPublic b c).getD []) (cfgTables b c).nParams none none
         (fixPairs ((cfgPublic b c).getD []) m v) = (some m, some v) ∧
       (match c.sens with
        | none => True
        | some sel => cfgFree b c r ≠ [] ∧
            sensSelect (cfgTables b c) c.pmap (some (cfgFree b c r)) = sel)
     | _, _ => False) ∧
    (r.emptySens = true → c.sens = none ∧ cfgFree b c r = [])

/-- the configuration is one a user can reach on a new object with one call per setting: the route is
valid, every parameter / output has a dictionary entry, the displayed names that differ from the defaults
are distinct and are not themselves default names, the outputs exist, a regimen presupposes a route, the
sensitivity selection and the fixed values can be expressed by displayed names -/
def Canon (c : Config) : Prop :=
  Canon.adminOK b c ∧
  c.pmap.map Prod.fst = (cfgTables b c).paramNames ∧ (cfgTables b c).paramNames.Nodup ∧
  (∀ p ∈ c.pmap, p.1 ≠ p.2 → p.2 ∉ (cfgTables b c).paramNames) ∧
  ((renamePairs c.pmap).map Prod.snd).Nodup ∧
  firstErr (outputCheck b (variantOf c.admin)) c.outputs = none ∧
  c.omap.map Prod.fst = dedup c.outputs ∧
  (∀ p ∈ c.omap, p.1 ≠ p.2 → p.2 ∉ dedup c.outputs) ∧
  ((renamePairs c.omap).map Prod.snd).Nodup ∧
  (c.regimen.isSome = true → c.admin.isSome = true) ∧
  Canon.sensOK b c ∧ Canon.redOK b c

instance (c : Config) : Decidable (Canon.adminOK b c) := by
  unfold Canon.adminOK; cases c.admin <;> infer_instance
instance (c : Config) : Decidable (Canon.sensOK b c) := by
  unfold Canon.sensOK; cases c.sens <;> infer_instance
instance (c : Config) : Decidable (Canon.redOK b c) := by
  unfold Canon.redOK
  cases c.red with
  | none => infer_instance
  | some r =>
    obtain ⟨m, v, e⟩ := r
    cases m <;> cases v <;> cases c.sens <;> simp only [] <;> infer_instance
instance (c : Config) : Decidable (Canon b c) := by unfold Canon; infer_instance

end ChiModel.MechConfig
