import ChiModel.LogLik
/-!
# chi/_population_models.py — elementary population models (values and transforms)

Everything is written for ONE sub-model with `nDim` dimensions and `nIds` individuals.
`th i p d` is the population parameter `p` (0 = location, 1 = scale; pooled: 0; heterogeneous:
the individual's own row) of dimension `d` *as seen by individual `i`* — without covariates it
does not depend on `i`; with a covariate model it is the shifted value (C07).
`eta i d` is the individual-level entry.
-/
namespace ChiModel
variable {α : Type} [Add α] [Sub α] [Mul α] [Div α] [Neg α] [ScalarFns α]
open ScalarFns

inductive Kind
  | gauss (centred : Bool)
  | logn (centred : Bool)
  | trunc
  | pooled
  | hetero
  deriving Repr, DecidableEq

/-- number of population parameters per dimension (`hetero`: one per individual) -/
def Kind.perDim (nIds : Nat) : Kind → Nat
  | .pooled => 1
  | .hetero => nIds
  | _ => 2

/-- does the kind contribute individual-level ("bottom") entries? -/
def Kind.hierarchical : Kind → Bool
  | .pooled => false
  | .hetero => false
  | _ => true

def isum2 (n m : Nat) (g : Nat → Nat → α) : α := isum n (fun i => isum m (fun d => g i d))
def iany2 (n m : Nat) (p : Nat → Nat → Bool) : Bool := iany n (fun i => iany m (fun d => p i d))

def zero : α := ofNat 0

/-- standard-normal log-density summed over all entries (non-centred models) -/
def stdNormalLL (nIds nDim : Nat) (eta : Nat → Nat → α) : α :=
  Neg.neg (isum2 nIds nDim (fun i d => log (two * pi) / two + eta i d * eta i d / two))

/-- erf supplied by the instance (Float: series; ℝ: via the normal cdf) -/
class HasErf (α : Type) where
  erf : α → α

def normCdf [HasErf α] (x : α) : α := (ofNat 1 + HasErf.erf (x / sqrt two)) / two

/-- `compute_log_likelihood` of one elementary model -/
def popLL [HasErf α] (k : Kind) (nIds nDim : Nat) (th : Nat → Nat → Nat → α) (eta : Nat → Nat → α) :
    Score α :=
  match k with
  | .gauss true =>
    if iany2 nIds nDim (fun i d => le (th i 1 d) zero) then .negInf
    else .val (Neg.neg (isum2 nIds nDim (fun i d =>
      log (two * pi * (th i 1 d * th i 1 d)) / two
        + (eta i d - th i 0 d) * (eta i d - th i 0 d) / (two * (th i 1 d * th i 1 d)))))
  | .gauss false => .val (stdNormalLL nIds nDim eta)
  | .logn true =>
    if iany2 nIds nDim (fun i d => le (th i 1 d) zero || le (eta i d) zero) then .negInf
    else .val (Neg.neg (isum2 nIds nDim (fun i d =>
      log (two * pi * (th i 1 d * th i 1 d)) / two + log (eta i d)
        + (log (eta i d) - th i 0 d) * (log (eta i d) - th i 0 d) / two / (th i 1 d * th i 1 d))))
  | .logn false => .val (stdNormalLL nIds nDim eta)
  | .trunc =>
    if iany2 nIds nDim (fun i d => le (th i 1 d) zero || lt (eta i d) zero) then .negInf
    else .val (Neg.neg (isum2 nIds nDim (fun i d =>
      log (two * pi * (th i 1 d * th i 1 d)) / two
        + (eta i d - th i 0 d) * (eta i d - th i 0 d) / (two * (th i 1 d * th i 1 d))
        + log (ofNat 1 - normCdf (Neg.neg (th i 0 d) / th i 1 d)))))
  | .pooled =>
    if iany2 nIds nDim (fun i d => !(le (eta i d) (th i 0 d) && le (th i 0 d) (eta i d))) then .negInf
    else .val zero
  | .hetero =>
    if iany2 nIds nDim (fun i d => !(le (eta i d) (th i i d) && le (th i i d) (eta i d))) then .negInf
    else .val zero

/-- an individual parameter: a value, numpy's `nan`, or `NotImplementedError` -/
inductive PsiVal (α : Type) where
  | val : α → PsiVal α
  | nan : PsiVal α
  | notImpl : PsiVal α
  deriving Repr

/-- `compute_individual_parameters(..., return_eta=False)`: the value handed to individual
    `i`'s likelihood for dimension `d`. The non-centred models return an all-`nan` block as
    soon as ANY scale of the sub-model is negative (`np.any(sigma < 0)`). -/
def indiv (legacyTrunc : Bool) (k : Kind) (nIds nDim : Nat) (th : Nat → Nat → Nat → α)
    (eta : Nat → Nat → α) (i d : Nat) : PsiVal α :=
  let anyNeg := iany2 nIds nDim (fun i d => lt (th i 1 d) zero)
  match k with
  | .gauss true => .val (eta i d)
  | .gauss false => if anyNeg then .nan else .val (th i 0 d + th i 1 d * eta i d)
  | .logn true => .val (eta i d)
  | .logn false => if anyNeg then .nan else .val (exp (th i 0 d + th i 1 d * eta i d))
  | .trunc => if legacyTrunc then .notImpl else .val (eta i d)
  | .pooled => .val (th i 0 d)
  | .hetero => .val (th i i d)

end ChiModel
