import ChiModel.Hier
/-!
# `ComposedPopulationModel._shape_eta`, with its own index arithmetic (`start` / `shift`),
# the special-dimension table of `_set_population_model_properties`, and the names / IDs that
# `HierarchicalLogLikelihood` publishes.  No Mathlib.
-/
namespace ChiModel
variable {α : Type}

namespace ShapeEta

/-- `out[lo:hi] = src[slo : slo + (hi-lo)]` on one row (rows are index functions; `none` is an
    uninitialised `np.empty` cell) -/
def sliceAssign (out : Nat → Option α) (lo hi : Nat) (src : Nat → Option α) (slo : Nat) :
    Nat → Option α :=
  fun d => if lo ≤ d ∧ d < hi then src (slo + (d - lo)) else out d

/-- the `for s in self._special_dims` loop; state = (eta_prime row, start, shift) -/
def loop (row : Nat → Option α) :
    List (Nat × Nat) → Nat → Nat → (Nat → Option α) → (Nat → Option α) × Nat × Nat
  | [], start, shift, out => (out, start, shift)
  | (a, b) :: ss, start, shift, out =>
      loop row ss b (shift + (b - a)) (sliceAssign out start a row (start - shift))

/-- `_shape_eta` on one individual's row; `D = n_dim` -/
def shapeRow (D : Nat) (specials : List (Nat × Nat)) (row : Nat → Option α) : Nat → Option α :=
  let r := loop row specials 0 0 (fun _ => none)
  sliceAssign r.1 r.2.1 D row (r.2.1 - r.2.2)

end ShapeEta

/-- `_set_population_model_properties`: `[start_dim, end_dim)` of every pooled / heterogeneous
    sub-model, in composite order; `off` = dimensions before the first listed sub-model -/
def specialBlocks : List SubModel → Nat → List (Nat × Nat)
  | [], _ => []
  | s :: ss, off =>
    (if s.kind.hierarchical then [] else [(off, off + s.nDim)]) ++ specialBlocks ss (off + s.nDim)

def totDim (subs : List SubModel) : Nat := (subs.map (·.nDim)).sum
def totHier (subs : List SubModel) : Nat := (subs.map SubModel.nHier).sum
def totTop (subs : List SubModel) (nIds : Nat) : Nat := (subs.map (·.nTop nIds)).sum
/-- first dimension / first individual-level column / first population parameter / first
    covariate of the `k`-th sub-model -/
def dimOff (subs : List SubModel) (k : Nat) : Nat := totDim (subs.take k)
def hierOff (subs : List SubModel) (k : Nat) : Nat := totHier (subs.take k)
def topOff (subs : List SubModel) (nIds k : Nat) : Nat := totTop (subs.take k) nIds
def covOff (subs : List SubModel) (k : Nat) : Nat := ((subs.take k).map (·.nCov)).sum

/-! ## published names and IDs (`HierarchicalLogLikelihood.get_parameter_names / get_id`) -/

/-- names of the individual likelihood's parameters with the special dimensions cut out
    (the `for info in special_dims` loop) -/
def cutSpecial {β : Type} : List (Nat × Nat) → Nat → List β → List β
  | [], cur, names => names.drop cur
  | (a, b) :: ss, cur, names => (names.drop cur).take (a - cur) ++ cutSpecial ss b names

def hierNames (subs : List SubModel) (nIds : Nat) (llNames topNames : List String) : List String :=
  (List.replicate nIds (cutSpecial (specialBlocks subs 0) 0 llNames)).flatten ++ topNames

/-- `get_id()`: every individual's ID `n_bottom // n_ids` times, then `None` per population
    parameter -/
def hierIds (nIds nBottom nTop : Nat) (ids : List String) : List (Option String) :=
  (ids.flatMap (fun i => List.replicate (nBottom / nIds) (some i))) ++ List.replicate nTop none

/-! ## the complete `__call__` -/

/-- population score first (a `-inf` returns at once), then every individual's likelihood at its
    own row of ψ -/
def hierLL [Add α] [Sub α] [Mul α] [Div α] [Neg α] [ScalarFns α] [HasErf α]
    (nIds : Nat) (subs : List SubModel) (params : List α) (covAll : Nat → Nat → α)
    (L : Nat → List (PsiVal α) → Score α) : Except HErr (Score α) :=
  match hierCall false nIds subs params covAll with
  | .error e => .error e
  | .ok out =>
    match out.popScore with
    | .negInf => .ok .negInf
    | sc => .ok ((List.range nIds).foldl (fun acc i => Score.add acc (L i (out.psi.getD i []))) sc)

end ChiModel

namespace ChiModel
variable {α : Type} [Add α] [Sub α] [Mul α] [Div α] [Neg α] [ScalarFns α] [HasErf α]

/-- declarative form of the composite: sub-model `k` evaluated on the slices that START AT THE
    SUMS OF ITS PREDECESSORS' sizes (population parameters, covariates, individual-level columns) -/
def hierSpec (legacyTrunc : Bool) (nIds : Nat) (subs : List SubModel) (params : Nat → α)
    (covAll : Nat → Nat → α) : Score α × List (Nat → PsiVal α) :=
  (List.range subs.length).foldl (fun acc k =>
    let r := subEval legacyTrunc nIds (totHier subs) params covAll
      (subs.getD k ⟨.pooled, 0, 0, []⟩) (topOff subs nIds k) (covOff subs k) (hierOff subs k)
    (Score.add acc.1 r.1, acc.2 ++ r.2)) (Score.zero, [])

end ChiModel
