import ChiModel.Hier
/-!
# Samplers of chi/_error_models.py and chi/_population_models.py

A sampler is modelled as a **deterministic transformation of primitive draws** together with the
**order in which it consumes them**.

* The primitive draws are the results of the calls a sampler makes on its random generator:
  `Generator.standard_normal(n)` (reached through `Generator.normal(loc, scale, size)` =
  `loc + scale * Z` and `Generator.lognormal(mean, sigma, size)` = `exp (mean + sigma * Z)`),
  `Generator.integers(0, hi, n)` (reached through `Generator.choice(arange(hi), n, replace=True)`),
  and `scipy.stats.truncnorm.rvs(a, inf, loc, scale)` = `loc + scale * T` with `T` a standard normal
  conditioned on `[a, inf)` (drawn from the legacy global generator after `np.random.seed`).
* `…Plan` lists the requests in the order the code issues them on ONE generator (`Req`), the
  harness fulfils them in that order on `np.random.default_rng(seed)` (`Ful`), and `…Entry`
  is the value of one entry of the returned array as a function of the fulfilled requests.

Index conventions: numpy C order, i.e. entry `(r, c)` of a block of shape `(R, C)` is position
`r * C + c` of the flat stream.
-/
namespace ChiModel
variable {α : Type} [Add α] [Sub α] [Mul α] [Div α] [Neg α] [ScalarFns α]
open ScalarFns

def one : α := ofNat 1

/-- `Generator.normal(loc, scale)` on the standard-normal draw `z` -/
def normalPrim (loc scale z : α) : α := loc + scale * z

/-- `Generator.lognormal(mean, sigma)` on the standard-normal draw `z` -/
def lognormalPrim (mean sigma z : α) : α := exp (mean + sigma * z)

/-! ## error models: one entry of `sample(parameters, model_output, n_samples, seed)` -/

/-- `GaussianErrorModel.sample`: `model_output + rng.normal(0, sigma)` -/
def gaussDraw (sigma yb z : α) : α := yb + normalPrim zero sigma z

/-- `MultiplicativeGaussianErrorModel.sample`: `model_output + model_output * rng.normal(0, sigma_rel)` -/
def multDraw (srel yb z : α) : α := yb + yb * normalPrim zero srel z

/-- `ConstantAndMultiplicativeGaussianErrorModel.sample`:
    `model_output + rng.normal(0, sigma_base) + model_output * rng.normal(0, sigma_rel)`;
    `z1`, `z2` are draws of two DIFFERENT positions of the stream -/
def cmDraw (sb sr yb z1 z2 : α) : α := yb + normalPrim zero sb z1 + yb * normalPrim zero sr z2

/-- `LogNormalErrorModel.sample`: `model_output * rng.lognormal(-sigma^2/2, sigma)` -/
def lnDraw (sigma yb z : α) : α := yb * lognormalPrim (Neg.neg (sigma * sigma) / two) sigma z

inductive SErr | valueError
  deriving Repr, DecidableEq

/-- position of entry `(j, s)` of a `(n_times, n_samples)` block -/
def pos (nS j s : Nat) : Nat := j * nS + s

/-- number of standard-normal draws the sampler consumes -/
def emNDraws (k : EM) (nT nS : Nat) : Nat :=
  match k with
  | .cm => 2 * (nT * nS)
  | _ => nT * nS

/-- argument checks of `sample`: parameter count (chi), non-negative scales (numpy raises
    `ValueError: scale < 0` / `sigma < 0`) -/
def emSampleOk (k : EM) (sig : List α) : Bool :=
  sig.length == k.nParams && sig.all (fun s => !(lt s zero))

/-- entry `(j, s)` of the returned array; `z` is the flat standard-normal stream of the generator
    in consumption order. The constant-and-multiplicative model draws a SECOND block of the same
    shape after the first one. -/
def emEntry (k : EM) (sig : List α) (ybar : Nat → α) (nT nS : Nat) (z : Nat → α) (j s : Nat) : α :=
  let s0 := sig.getD 0 zero
  let s1 := sig.getD 1 zero
  match k with
  | .gauss => gaussDraw s0 (ybar j) (z (pos nS j s))
  | .mult => multDraw s0 (ybar j) (z (pos nS j s))
  | .cm => cmDraw s0 s1 (ybar j) (z (pos nS j s)) (z (nT * nS + pos nS j s))
  | .ln => lnDraw s0 (ybar j) (z (pos nS j s))

/-- `n_samples=None` means one sample -/
def nSamplesOf (n : Option Nat) : Nat := n.getD 1

/-- the whole array, or the modelled exception -/
def emSample (k : EM) (sig : List α) (ybar : List α) (nSamples : Option Nat) (z : Nat → α) :
    Except SErr (List (List α)) :=
  if !emSampleOk k sig then .error .valueError else
  let nT := ybar.length
  let nS := nSamplesOf nSamples
  let yb : Nat → α := fun j => ybar.getD j zero
  .ok ((List.range nT).map fun j => (List.range nS).map fun s => emEntry k sig yb nT nS z j s)

/-! ## `ReducedErrorModel` / `ReducedPopulationModel`: fixed values are filled in, then delegate -/

/-- `values[~mask] = parameters; parameters = values` -/
def fillMask : List Bool → List α → List α → List α
  | [], _, _ => []
  | true :: ms, v :: vs, free => v :: fillMask ms vs free
  | true :: ms, [], free => zero :: fillMask ms [] free
  | false :: ms, vs, f :: free => f :: fillMask ms vs.tail free
  | false :: ms, vs, [] => zero :: fillMask ms vs.tail []

/-- `mask = None` ↦ the parameters as they are -/
def reducedParams (mask : Option (List Bool)) (values free : List α) : List α :=
  match mask with
  | none => free
  | some m => fillMask m values free

/-! ### call histories on one reduced model

The value buffer is an attribute of the reduced model: EVERY call (`sample`, `compute_log_likelihood`,
`compute_sensitivities`, `compute_individual_parameters`) first writes its free parameters into the
buffer and then hands the buffer's content to the wrapped model. -/

/-- the buffer after a history of calls (the free parameters of each call, oldest first) -/
def reducedBuffer (mask : List Bool) (values : List α) : List (List α) → List α
  | [] => values
  | f :: hist => reducedBuffer mask (fillMask mask values f) hist

/-- the vector the wrapped model receives in a call with `free` after the history `hist` -/
def reducedCall (mask : List Bool) (values : List α) (hist : List (List α)) (free : List α) : List α :=
  fillMask mask (reducedBuffer mask values hist) free

/-- a variant that copies the buffer BEFORE the free parameters of the call are written (the call then
    works with the free parameters of the previous call) -/
def reducedCallStale (mask : List Bool) (values : List α) (hist : List (List α)) (_free : List α) : List α :=
  reducedBuffer mask values hist

/-! ## population models -/

/-- one call on the generator -/
inductive Req (α : Type) where
  /-- `rng.standard_normal(n)` -/
  | normals (n : Nat)
  /-- `rng.integers(0, hi, n)` -/
  | indices (hi n : Nat)
  /-- `np.random.seed(k); truncnorm.rvs(a, inf, size=(rows, len a))` in standard units, where `k`
      is drawn from the generator (`rng.integers(0, 10^6)`) when `fromGen`, else it is the integer
      seed the caller passed -/
  | trunc (fromGen : Bool) (a : List α) (rows : Nat)
  deriving Repr

/-- a fulfilled request -/
inductive Ful (α : Type) where
  | flts (l : List α)
  | nats (l : List Nat)
  deriving Repr

def Ful.flt : Ful α → Nat → α
  | .flts l, i => l.getD i zero
  | .nats _, _ => zero

def Ful.nat : Ful α → Nat → Nat
  | .nats l, i => l.getD i 0
  | .flts _, _ => 0

def Ful.len : Ful α → Nat
  | .flts l => l.length
  | .nats l => l.length

/-- `i`-th float of the `q`-th fulfilled request -/
def flAt (fs : List (Ful α)) (q i : Nat) : α :=
  match fs[q]? with
  | some f => f.flt i
  | none => zero

def ixAt (fs : List (Ful α)) (q i : Nat) : Nat :=
  match fs[q]? with
  | some f => f.nat i
  | none => 0

/-- number of rows an elementary model returns: `HeterogeneousModel.sample` uses
    `n_samples if n_samples else 1`, the others `1 if n_samples is None else int(n_samples)` -/
def elemRows (k : Kind) (nSamples : Option Nat) : Nat :=
  match k, nSamples with
  | .hetero, some 0 => 1
  | _, n => nSamplesOf n

/-- argument checks of the elementary samplers (`th p d`: parameter `p` of dimension `d`) -/
def elemOk (k : Kind) (nDim : Nat) (th : Nat → Nat → α) : Bool :=
  match k with
  | .gauss true => !(iany nDim fun d => lt (th 1 d) zero)
  | .logn true => !(iany nDim fun d => le (th 1 d) zero)
  | .trunc => !(iany nDim fun d => lt (th 1 d) zero)
  | _ => true

/-- the requests one elementary sampler issues for `rows` samples -/
def elemPlan (k : Kind) (nIds nDim rows : Nat) (th : Nat → Nat → α) (fromGen : Bool) :
    List (Req α) :=
  match k with
  | .gauss _ => [.normals (rows * nDim)]
  | .logn _ => [.normals (rows * nDim)]
  | .trunc => [.trunc fromGen ((List.range nDim).map fun d => Neg.neg (th 0 d) / th 1 d) rows]
  | .pooled => []
  | .hetero => [.indices nIds rows]

def Kind.nReq : Kind → Nat
  | .pooled => 0
  | _ => 1

/-- entry `(r, d)` of the array an elementary sampler returns, reading the `q`-th fulfilled request.
    Non-centred models return `eta` (standard normal draws). -/
def elemEntry (k : Kind) (nDim : Nat) (th : Nat → Nat → α) (fs : List (Ful α)) (q r d : Nat) : α :=
  match k with
  | .gauss true => normalPrim (th 0 d) (th 1 d) (flAt fs q (r * nDim + d))
  | .gauss false => normalPrim zero one (flAt fs q (r * nDim + d))
  | .logn true => lognormalPrim (th 0 d) (th 1 d) (flAt fs q (r * nDim + d))
  | .logn false => normalPrim zero one (flAt fs q (r * nDim + d))
  | .trunc => th 0 d + th 1 d * flAt fs q (r * nDim + d)
  | .pooled => th 0 d
  | .hetero => th (ixAt fs q r) d

/-- number of requests of one sub-model: a covariate model calls the wrapped sampler once per row
    (`n_samples=1`, the SAME generator), a plain model once -/
def SubModel.nReq (s : SubModel) (nS : Nat) : Nat :=
  if s.nCov = 0 then s.kind.nReq else nS * s.kind.nReq

def SubModel.sampleOk (s : SubModel) (nS : Nat) (th : Nat → Nat → Nat → α) : Bool :=
  if s.nCov = 0 then elemOk s.kind s.nDim (th 0)
  else iall nS fun r => elemOk s.kind s.nDim (th r)

def SubModel.plan (s : SubModel) (nIds nS : Nat) (th : Nat → Nat → Nat → α) (fromGen : Bool) :
    List (Req α) :=
  if s.nCov = 0 then elemPlan s.kind nIds s.nDim nS (th 0) fromGen
  else (List.range nS).flatMap fun r => elemPlan s.kind nIds s.nDim 1 (th r) true

/-- entry `(r, d)` of one sub-model's block; `off` is the index of its first request -/
def SubModel.entry (s : SubModel) (th : Nat → Nat → Nat → α) (fs : List (Ful α)) (off r d : Nat) : α :=
  if s.nCov = 0 then elemEntry s.kind s.nDim (th 0) fs off r d
  else elemEntry s.kind s.nDim (th r) fs (off + r * s.kind.nReq) 0 d

/-- parameters and covariates of the sub-model that starts at parameter offset `pOff` and covariate
    offset `cOff` (`ComposedPopulationModel.sample` slices both) -/
def subTh (s : SubModel) (nIds : Nat) (params : Nat → α) (cov : Nat → Nat → α) (pOff cOff : Nat) :
    Nat → Nat → Nat → α :=
  s.th nIds (fun j => params (pOff + j)) (fun i c => cov i (cOff + c))

/-- `ComposedPopulationModel.sample`: running offsets over the sub-models; ONE generator -/
def composedPlan (nIds nS : Nat) (params : Nat → α) (cov : Nat → Nat → α) (fromGen : Bool) :
    List SubModel → (pOff cOff : Nat) → List (Req α)
  | [], _, _ => []
  | s :: ss, pOff, cOff =>
    s.plan nIds nS (subTh s nIds params cov pOff cOff) fromGen
      ++ composedPlan nIds nS params cov fromGen ss (pOff + s.nTop nIds) (cOff + s.nCov)

def composedOk (nIds nS : Nat) (params : Nat → α) (cov : Nat → Nat → α) :
    List SubModel → (pOff cOff : Nat) → Bool
  | [], _, _ => true
  | s :: ss, pOff, cOff =>
    s.sampleOk nS (subTh s nIds params cov pOff cOff)
      && composedOk nIds nS params cov ss (pOff + s.nTop nIds) (cOff + s.nCov)

/-- entry `(r, d)` of the composed sample (`d` a global dimension index) -/
def composedEntry (nIds nS : Nat) (params : Nat → α) (cov : Nat → Nat → α) (fs : List (Ful α)) :
    List SubModel → (pOff cOff dOff qOff : Nat) → (r d : Nat) → α
  | [], _, _, _, _, _, _ => zero
  | s :: ss, pOff, cOff, dOff, qOff, r, d =>
    if d < dOff + s.nDim then
      s.entry (subTh s nIds params cov pOff cOff) fs qOff r (d - dOff)
    else composedEntry nIds nS params cov fs ss (pOff + s.nTop nIds) (cOff + s.nCov)
      (dOff + s.nDim) (qOff + s.nReq nS) r d

def totalDim (subs : List SubModel) : Nat := (subs.map (·.nDim)).sum
def totalTop (nIds : Nat) (subs : List SubModel) : Nat := (subs.map (·.nTop nIds)).sum
def totalCov (subs : List SubModel) : Nat := (subs.map (·.nCov)).sum

/-- variants of `HeterogeneousModel.compute_individual_parameters(parameters, eta)` on sampled rows -/
inductive HetVariant
  /-- before 7e1e7bd: `eta` is ignored, the stored `(n_ids, n_dim)` parameters are returned -/
  | legacy
  /-- the code as it is: `eta` is returned when it holds a number of rows other than `n_ids` (they can
      only be drawn individuals), the stored parameters otherwise -/
  | repaired
  /-- what C06 demands of `sample` followed by the transform: the drawn rows -/
  | intended
  deriving Repr, DecidableEq

/-- entry `(r, d)` of the transform of `nRows` sampled rows `eta`; `th i d` = stored value of
    individual `i` -/
def heteroPsi (v : HetVariant) (nIds nRows : Nat) (th : Nat → Nat → α) (eta : Nat → Nat → α)
    (r d : Nat) : α :=
  match v with
  | .legacy => th r d
  | .repaired => if nRows = nIds then th r d else eta r d
  | .intended => eta r d

/-- number of rows the transform returns -/
def heteroPsiRows (v : HetVariant) (nIds nRows : Nat) : Nat :=
  match v with
  | .legacy => nIds
  | _ => nRows

/-- `compute_individual_parameters` applied to a sampled `eta`-block of one sub-model. Inside a
    composed model the legacy heterogeneous block of `n_ids` rows is assigned to `nRows` rows
    (numpy broadcasting: possible iff `n_ids = nRows` or `n_ids = 1`, see `composedPsiOk`). -/
def SubModel.psi (v : HetVariant) (s : SubModel) (nIds nRows : Nat) (th : Nat → Nat → Nat → α)
    (eta : Nat → Nat → α) (r d : Nat) : PsiVal α :=
  match s.kind with
  | .hetero => .val (heteroPsi v nIds nRows (fun i e => th 0 (if nIds = 1 then 0 else i) e) eta r d)
  | _ => indiv false s.kind nRows s.nDim th eta r d

/-- does the assignment of every sub-model's block into the `(nRows, n_dim)` result succeed? -/
def composedPsiOk (v : HetVariant) (nIds nRows : Nat) (subs : List SubModel) : Bool :=
  subs.all fun s => match s.kind with
    | .hetero => v != .legacy || nIds == nRows || nIds == 1
    | _ => true

/-- `ComposedPopulationModel.compute_individual_parameters(parameters, eta, covariates)` on a sampled
    `eta` of `nRows` rows: entry `(r, d)` (`d` a global dimension index) -/
def composedPsi (v : HetVariant) (nIds nRows : Nat) (params : Nat → α) (cov : Nat → Nat → α)
    (eta : Nat → Nat → α) :
    List SubModel → (pOff cOff dOff : Nat) → (r d : Nat) → PsiVal α
  | [], _, _, _, _, _ => .nan
  | s :: ss, pOff, cOff, dOff, r, d =>
    if d < dOff + s.nDim then
      s.psi v nIds nRows (subTh s nIds params cov pOff cOff) (fun i e => eta i (dOff + e))
        r (d - dOff)
    else composedPsi v nIds nRows params cov eta ss (pOff + s.nTop nIds) (cOff + s.nCov)
      (dOff + s.nDim) r d

/-! ## `get_mean_and_std` -/

/-- `LogNormalModel.get_mean_and_std`, one dimension: `(mean, std)` -/
def lnMean (mu sigma : α) : α := exp (mu + sigma * sigma / two)
def lnStd (mu sigma : α) : α :=
  sqrt (exp (two * mu + sigma * sigma) * (exp (sigma * sigma) - one))

/-- `TruncatedGaussianModel.get_mean_and_std`, one dimension; `pdf`, `cdf` are
    `scipy.stats.norm.pdf / cdf` -/
def tgLambda (pdf cdf : α → α) (mu sigma : α) : α :=
  pdf (mu / sigma) / (one - cdf (Neg.neg mu / sigma))
def tgMean (pdf cdf : α → α) (mu sigma : α) : α := mu + sigma * tgLambda pdf cdf mu sigma
def tgStd (pdf cdf : α → α) (mu sigma : α) : α :=
  sqrt (sigma * sigma * (one - mu / sigma * tgLambda pdf cdf mu sigma
    - tgLambda pdf cdf mu sigma * tgLambda pdf cdf mu sigma))

/-- both helpers raise `ValueError` for a negative scale -/
def momentsOk (nDim : Nat) (sigma : Nat → α) : Bool := !(iany nDim fun d => lt (sigma d) zero)

end ChiModel
