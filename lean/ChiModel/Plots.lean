import ChiModel.Scalar
/-!
# chi/plots/_time_series.py, chi/plots/_residuals.py — what ends up in the figure

A long-format data frame is a `List Row`; a missing entry (NaN / None) is `none`.  pandas
semantics that the code relies on and that are modelled here:

* `Series.unique()`            distinct values in order of first appearance, "missing" kept once
* `series == x`                `False` wherever the series entry or `x` is missing
* `frame[mask]`                a **new** frame holding the selected rows in frame order
* `Series.rank(pct=True)`      average rank of the non-missing entries divided by their number
* `Series.max()/min()/mean()`  skip missing entries, NaN for an empty selection

The figure is modelled by the list of traces that the calls append (`x`, `y` arrays).
-/
namespace ChiModel
namespace Plots

inductive PErr | typeError | valueError | indexError
  deriving Repr, DecidableEq

/-- one row of the caller's frame: ID, observable, time, value, dose, dose duration -/
structure Row (ι ο τ ν : Type) where
  id : Option ι
  obs : Option ο
  time : τ
  value : ν
  dose : Option ν
  dur : ν

section routing
variable {ι ο τ ν : Type} [DecidableEq ι] [DecidableEq ο]

/-- `Series.unique()` -/
def uniq {β : Type} [DecidableEq β] : List β → List β
  | [] => []
  | x :: xs => x :: (uniq xs).filter (fun y => y ≠ x)

/-- `entry == x` of pandas: never true for a missing entry / a missing `x` -/
def eqM {β : Type} [DecidableEq β] (a b : Option β) : Bool :=
  match a, b with
  | some x, some y => decide (x = y)
  | _, _ => false

/-- `biom_types = data[obs_key].dropna().unique()` (three classes) resp. `.unique()`
    (`PDPredictivePlot.add_data`), then the default / membership test.
    `observable = none` is Python's `None`.  The result may be "missing" only when
    `dropna = false`; `nanIn` says how `in` treats the missing marker of that column's dtype. -/
def chooseObsLegacy (dropna nanIn : Bool) (rows : List (Row ι ο τ ν)) (observable : Option ο) :
    Except PErr (Option ο) :=
  let types := uniq (rows.map (·.obs))
  let types := if dropna then types.filter (·.isSome) else types
  match observable with
  | none =>
    match types with
    | [] => .error .indexError            -- `biom_types[0]` of an empty array
    | t :: _ =>
      -- `observable not in biom_types` for the missing marker: `True` for a numpy float column
      -- (`nan == nan` is false), `False` for a pandas string array (`nanIn`)
      if t.isSome || nanIn then .ok t else .error .valueError
  | some o => if some o ∈ types then .ok (some o) else .error .valueError

/-- the code as it is (all four figure classes): `biom_types = data[obs_key].dropna().unique()`,
    default = first entry, an explicit observable must occur in the column -/
def chooseObs (rows : List (Row ι ο τ ν)) (observable : Option ο) : Except PErr (Option ο) :=
  chooseObsLegacy true true rows observable

/-- the slip `observable = observable or biom_types[0]`: a label that Python counts as false
    (`0`, `0.0`, `''`) is treated like "no observable given"; `falsy` says which labels those are -/
def chooseObsTruthy (falsy : ο → Bool) (rows : List (Row ι ο τ ν)) (observable : Option ο) :
    Except PErr (Option ο) :=
  chooseObs rows (match observable with
    | some o => if falsy o then none else some o
    | none => none)

/-- `data[data[obs_key] == observable]` -/
def maskObs (rows : List (Row ι ο τ ν)) (o : Option ο) : List (Row ι ο τ ν) :=
  rows.filter (fun r => eqM r.obs o)

/-- `data[data[id_key] == _id]` -/
def maskId (rows : List (Row ι ο τ ν)) (i : Option ι) : List (Row ι ο τ ν) :=
  rows.filter (fun r => eqM r.id i)

/-- `data[data[dose_key].notnull()]` -/
def doseRows (rows : List (Row ι ο τ ν)) : List (Row ι ο τ ν) :=
  rows.filter (fun r => r.dose.isSome)

def tv (rows : List (Row ι ο τ ν)) : List (τ × ν) := rows.map (fun r => (r.time, r.value))

def td (rows : List (Row ι ο τ ν)) : List (τ × ν) :=
  rows.filterMap (fun r => r.dose.map (fun d => (r.time, d)))

/-- a marker trace of a PD figure -/
structure PDTrace (ι τ ν : Type) where
  id : Option ι
  pts : List (τ × ν)

/-- the two traces a PK figure gets per individual: dose panel, then measurement panel -/
structure PKTrace (ι τ ν : Type) where
  id : Option ι
  dose : List (τ × ν)
  pts : List (τ × ν)

/-- `"ID: %d" % _id` — raises for a string (`TypeError`) and for NaN (`ValueError`) -/
def fmtD (numeric : ι → Bool) : Option ι → Except PErr Unit
  | none => .error .valueError
  | some i => if numeric i then .ok () else .error .typeError

/-- pre-fix loop of the PD figures: the trace name was built with `%d` (`fmtLegacy`) -/
def pdLoopLegacy (fmtLegacy : Bool) (numeric : ι → Bool) (data : List (Row ι ο τ ν)) :
    List (Option ι) → Except PErr (List (PDTrace ι τ ν))
  | [] => .ok []
  | i :: is =>
    match (if fmtLegacy then fmtD numeric i else .ok ()) with
    | .error e => .error e
    | .ok () =>
      match pdLoopLegacy fmtLegacy numeric data is with
      | .error e => .error e
      | .ok rest => .ok (⟨i, tv (maskId data i)⟩ :: rest)

/-- pre-fix `PDTimeSeriesPlot.add_data` (`dropna = true`) / `PDPredictivePlot.add_data`
    (`dropna = false`); kept for the counterexample theorems only -/
def pdAddDataLegacy (fmtLegacy dropna nanIn : Bool) (numeric : ι → Bool) (rows : List (Row ι ο τ ν))
    (observable : Option ο) : Except PErr (List (PDTrace ι τ ν)) × List (Row ι ο τ ν) :=
  (match chooseObsLegacy dropna nanIn rows observable with
   | .error e => .error e
   | .ok o =>
     let data := maskObs rows o
     pdLoopLegacy fmtLegacy numeric data (uniq (data.map (·.id))), rows)

/-- `PDTimeSeriesPlot.add_data` and `PDPredictivePlot.add_data` as they are (identical bodies):
    observable mask, then one marker trace per entry of `ids = data[id_key].unique()`, named with
    `"ID: %s" % str(_id)` (never raises).  Second component: the caller's frame after the call. -/
def pdAddData (rows : List (Row ι ο τ ν)) (observable : Option ο) :
    Except PErr (List (PDTrace ι τ ν)) × List (Row ι ο τ ν) :=
  (match chooseObs rows observable with
   | .error e => .error e
   | .ok o =>
     let data := maskObs rows o
     .ok ((uniq (data.map (·.id))).map (fun i => ⟨i, tv (maskId data i)⟩)), rows)

/-- `PKTimeSeriesPlot.add_data` and `PKPredictivePlot.add_data` (identical bodies) -/
def pkAddData (rows : List (Row ι ο τ ν)) (observable : Option ο) :
    Except PErr (List (PKTrace ι τ ν)) × List (Row ι ο τ ν) :=
  (match chooseObs rows observable with
   | .error e => .error e
   | .ok o =>
     let dd := doseRows rows
     let data := maskObs rows o
     .ok ((uniq (data.map (·.id))).map (fun i => ⟨i, td (maskId dd i), tv (maskId data i)⟩)), rows)

/-- the loop header of every `add_data`: `for index, _id in enumerate(ids)` with
    `color = colors[index % n_colors]` — one iteration per entry of `ids`, whatever the size of the
    colour table (`plotly.colors.qualitative.Plotly` has 10 entries); second component: colour index -/
def colourLoop {β γ : Type} (nColors : Nat) (ids : List β) (body : β → γ) : List (γ × Nat) :=
  ids.zipIdx.map (fun e => (body e.1, e.2 % nColors))

/-- the slip `for _id, color in zip(ids, colors)`: stops with the shorter list -/
def colourLoopZip {β γ : Type} (nColors : Nat) (ids : List β) (body : β → γ) : List (γ × Nat) :=
  (ids.zip (List.range nColors)).map (fun e => (body e.1, e.2))

/-- `PDTimeSeriesPlot.add_simulation`: one line trace with every row -/
def addSimulation (rows : List (Row ι ο τ ν)) : List (τ × ν) × List (Row ι ο τ ν) := (tv rows, rows)

/-- `add_prediction(..., bulk_probs=None)`: the samples of the observable as one scatter trace -/
def predictionScatter (rows : List (Row ι ο τ ν)) (observable : Option ο) :
    Except PErr (List (τ × ν)) × List (Row ι ο τ ν) :=
  (match chooseObs rows observable with
   | .error e => .error e
   | .ok o => .ok (tv (maskObs rows o)), rows)

/-- `PKPredictivePlot.add_prediction`: the dose panel gets every dose row of the frame -/
def predictionDose (rows : List (Row ι ο τ ν)) : List (τ × ν) := td (doseRows rows)

/-! ### what the property demands (no masks: comprehension over the rows) -/

/-- the chosen observable: the caller's, else the first one in the observable column -/
def specObs (rows : List (Row ι ο τ ν)) (observable : Option ο) : Option ο :=
  match observable with
  | some o => some o
  | none => (rows.filterMap (·.obs)).head?

/-- the (time, value) pairs of individual `i` for observable `o`, in frame order -/
def specPts (rows : List (Row ι ο τ ν)) (o : ο) (i : ι) : List (τ × ν) :=
  (rows.filter (fun r => decide (r.obs = some o) && decide (r.id = some i))).map
    (fun r => (r.time, r.value))

/-- the dose rows of individual `i`, in frame order -/
def specDose (rows : List (Row ι ο τ ν)) (i : ι) : List (τ × ν) :=
  (rows.filter (fun r => decide (r.id = some i))).filterMap
    (fun r => r.dose.map (fun d => (r.time, d)))

/-- the IDs (possibly "missing") of the rows of observable `o` in order of first appearance -/
def specIds (rows : List (Row ι ο τ ν)) (o : ο) : List (Option ι) :=
  uniq ((rows.filter (fun r => decide (r.obs = some o))).map (·.id))

def specPD (rows : List (Row ι ο τ ν)) (o : ο) : List (PDTrace ι τ ν) :=
  (specIds rows o).map (fun
    | some i => ⟨some i, specPts rows o i⟩
    | none => ⟨none, []⟩)

def specPK (rows : List (Row ι ο τ ν)) (o : ο) : List (PKTrace ι τ ν) :=
  (specIds rows o).map (fun
    | some i => ⟨some i, specDose rows i, specPts rows o i⟩
    | none => ⟨none, [], []⟩)

/-- NOT chi's code — the reading "a row is EITHER a dose event OR a measurement": the measurements of
    individual `i` selected among the rows WITHOUT a dose. Differs from `specPts` as soon as a measurement
    is recorded on a dosing row (`C20_split_dose_rows_counterexample`). -/
def pkMeasurementsSplit (rows : List (Row ι ο τ ν)) (o : ο) (i : ι) : List (τ × ν) :=
  specPts (rows.filter (fun r => !r.dose.isSome)) o i

end routing

/-! ## rank-based percentile limits and band polygons -/
section band
variable {α : Type} [Add α] [Sub α] [Mul α] [Div α] [ScalarFns α]
open ScalarFns

def eqS (a b : α) : Bool := le a b && le b a

/-- pandas `rank(method="average", pct=True)` of the sample value `x` among the non-missing
    samples `xs`: `(#{< x} + (#{= x} + 1)/2) / n` -/
def pctRank (xs : List α) (x : α) : α :=
  (ofNat (xs.countP (fun y => lt y x)) + (ofNat (xs.countP (fun y => eqS y x)) + ofNat 1) / ofNat 2)
    / ofNat xs.length

/-- `lower = 0.5 - bulk_prob / 2` -/
def lowerThr (p : α) : α := ofNat 1 / ofNat 2 - p / ofNat 2
/-- `upper = 0.5 + bulk_prob / 2` -/
def upperThr (p : α) : α := ofNat 1 / ofNat 2 + p / ofNat 2

/-- `Series.max()`; `none` = NaN of an empty selection -/
def maxOpt : List α → Option α
  | [] => none
  | x :: xs => match maxOpt xs with
    | none => some x
    | some m => some (if lt m x then x else m)

def minOpt : List α → Option α
  | [] => none
  | x :: xs => match minOpt xs with
    | none => some x
    | some m => some (if lt x m then x else m)

/-- `reduced_data[percentile_df <= lower][sample_key].max()` -/
def lowerLimit (xs : List α) (p : α) : Option α :=
  maxOpt (xs.filter (fun x => le (pctRank xs x) (lowerThr p)))

/-- `reduced_data[percentile_df >= upper][sample_key].min()` -/
def upperLimit (xs : List α) (p : α) : Option α :=
  minOpt (xs.filter (fun x => le (upperThr p) (pctRank xs x)))

/-- number of samples inside `[lo, hi]` -/
def inside (xs : List α) (lo hi : α) : Nat := xs.countP (fun x => le lo x && le x hi)

/-- the relation the enclosure theorem needs of a drawn pair of limits:
    both are sample values, `rank lo ≤ lower`, `rank hi ≥ upper` -/
def admissible (xs : List α) (p lo hi : α) : Bool × Bool × Bool × Bool :=
  (xs.any (fun x => eqS x lo), xs.any (fun x => eqS x hi),
   le (pctRank xs lo) (lowerThr p), le (upperThr p) (pctRank xs hi))

variable {τ : Type} [DecidableEq τ]

/-- the non-missing samples at time `t` (`data[data[time_key] == time]`, then `rank` skips NaN) -/
def samplesAt (rows : List (Option τ × Option α)) (t : Option τ) : List α :=
  (rows.filter (fun r => eqM r.1 t)).filterMap (·.2)

/-- one row of the percentile container: time, lower, upper -/
def bandRow (rows : List (Option τ × Option α)) (p : α) (t : Option τ) :
    Option τ × Option α × Option α :=
  let xs := samplesAt rows t
  (t, lowerLimit xs p, upperLimit xs p)

/-- `_compute_bulk_probs` restricted to one bulk probability: a row per unique time -/
def bandRows (rows : List (Option τ × Option α)) (p : α) :
    List (Option τ × Option α × Option α) :=
  (uniq (rows.map (·.1))).map (bandRow rows p)

/-! ### the time mask as a parameter

`_compute_bulk_probs` selects the samples of a time point with `data[time_key] == time`, i.e.
`eqM`.  `samplesAtBy sel` is the same code with another row selector `sel rowTime time`
(a tolerance test like `np.isclose(data[time_key], time)`, a comparison after rounding, …); the
proofs say when such a selector draws the same figure (`C20_band_mask_exact`) and that a selector
pooling two different time points does not (`C20_band_pooled_times_counterexample`). -/

def samplesAtBy (sel : Option τ → Option τ → Bool) (rows : List (Option τ × Option α))
    (t : Option τ) : List α :=
  (rows.filter (fun r => sel r.1 t)).filterMap (·.2)

def bandRowBy (sel : Option τ → Option τ → Bool) (rows : List (Option τ × Option α)) (p : α)
    (t : Option τ) : Option τ × Option α × Option α :=
  let xs := samplesAtBy sel rows t
  (t, lowerLimit xs p, upperLimit xs p)

def bandRowsBy (sel : Option τ → Option τ → Bool) (rows : List (Option τ × Option α)) (p : α) :
    List (Option τ × Option α × Option α) :=
  (uniq (rows.map (·.1))).map (bandRowBy sel rows p)

/-- a tolerance mask on a time axis counted in ticks (the double's position on the number line):
    "equal" when at most `tol` ticks apart; `withinM 0` on present entries is `==` -/
def withinM (tol : Nat) (a b : Option Nat) : Bool :=
  match a, b with
  | some x, some y => decide (x ≤ y + tol) && decide (y ≤ x + tol)
  | _, _ => false

/-- the rows carrying exactly the time `t` -/
def rowsAt (rows : List (Option τ × Option α)) (t : τ) : List (Option τ × Option α) :=
  rows.filter (fun r => decide (r.1 = some t))

/-- `_add_prediction_bulk_prob_trace`: `x = times ++ reversed(times)`,
    `y = upper ++ reversed(lower)` -/
def polygon {β γ : Type} (b : List (β × γ × γ)) : List β × List γ :=
  (b.map (·.1) ++ (b.map (·.1)).reverse, b.map (·.2.2) ++ (b.map (·.2.1)).reverse)

/-- validation of `bulk_probs` in `add_prediction` -/
def checkProbs (ps : List α) : Except PErr Unit :=
  if ps.length > 7 then .error .valueError
  else if ps.any (fun p => lt p (ofNat 0) || lt (ofNat 1) p) then .error .valueError
  else .ok ()

/-- `add_prediction(data, bulk_probs=ps)`: one closed polygon per bulk probability.
    (chi appends them in descending order of `str(p)`; each trace carries its `p`, the order
    is immaterial here.) -/
def predictionBands (rows : List (Option τ × Option α)) (ps : List α) :
    Except PErr (List (α × (List (Option τ) × List (Option α)))) :=
  match checkProbs ps with
  | .error e => .error e
  | .ok () => .ok (ps.map (fun p => (p, polygon (bandRows rows p))))

end band

/-! ## ResidualPlot.add_data -/
section residual
variable {α : Type} [Add α] [Sub α] [Mul α] [Div α] [ScalarFns α]
variable {ι ο τ : Type} [DecidableEq ι] [DecidableEq ο] [DecidableEq τ]
open ScalarFns

/-- a row of the prediction frame: observable, time, value -/
structure PRow (ο τ α : Type) where
  obs : Option ο
  time : Option τ
  value : Option α

/-- a row of the measurement frame handed to the constructor -/
structure MRow (ι ο τ α : Type) where
  id : Option ι
  obs : Option ο
  time : Option τ
  value : α

def lsumR : List α → α
  | [] => ofNat 0
  | x :: xs => x + lsumR xs

/-- `pred[pred[time_key] == time][sample_key].mean()`; `none` = NaN (no prediction) -/
def meanPred (pred : List (PRow ο τ α)) (t : Option τ) : Option α :=
  let xs := (pred.filter (fun r => eqM r.time t)).filterMap (·.value)
  if xs.isEmpty then none else some (lsumR xs / ofNat xs.length)

structure RTrace (ι α : Type) where
  id : Option ι
  x : List (Option α)
  y : List (Option α)

/-- the y value of one measurement. `observations -= mean; observations /= mean` -/
def residY (showRes showRel : Bool) (obs : α) (m : Option α) : Option α :=
  match m with
  | none => if showRes || showRel then none else some obs
  | some m =>
    let y := if showRes then obs - m else obs
    some (if showRel then y / m else y)

/-- `_add_predicted_versus_observed_scatter_plot` as it is: per entry of
    `ids = meas[id_key].unique()` the individual's measurements, their mean predictions
    (x) and `observations - mean` resp. `/ mean` computed out of place (y) -/
def residLoop (showRes showRel : Bool) (meas : List (MRow ι ο τ α)) (pred : List (PRow ο τ α))
    (ids : List (Option ι)) : List (RTrace ι α) :=
  ids.map (fun i =>
    let temp := meas.filter (fun r => eqM r.id i)
    let means := temp.map (fun r => meanPred pred r.time)
    ⟨i, means, (temp.zip means).map (fun rm => residY showRes showRel rm.1.value rm.2)⟩)

/-- pre-fix loop. `readonly = true`: the in-place `-=` / `/=` hit the read-only array returned by
    `Series.to_numpy()` under copy-on-write pandas; `fmtLegacy = true`: trace names built with `%d` -/
def residLoopLegacy (readonly fmtLegacy : Bool) (numeric : ι → Bool) (showRes showRel : Bool)
    (meas : List (MRow ι ο τ α)) (pred : List (PRow ο τ α)) :
    List (Option ι) → Except PErr (List (RTrace ι α))
  | [] => .ok []
  | i :: is =>
    let temp := meas.filter (fun r => eqM r.id i)
    let means := temp.map (fun r => meanPred pred r.time)
    if readonly && (showRes || showRel) then .error .valueError
    else
      match (if fmtLegacy then fmtD numeric i else .ok ()) with
      | .error e => .error e
      | .ok () =>
        match residLoopLegacy readonly fmtLegacy numeric showRes showRel meas pred is with
        | .error e => .error e
        | .ok rest =>
          .ok (⟨i, means, (temp.zip means).map (fun rm => residY showRes showRel rm.1.value rm.2)⟩
                :: rest)

/-- `individual not in list(self._measurements[id_key].unique())` -/
def badIndividual (meas : List (MRow ι ο τ α)) (individual : Option ι) : Bool :=
  match individual with
  | some i => !((uniq (meas.map MRow.id)).contains (some i))
  | none => false

/-- `biom_types = data[obs_key].dropna().unique()`, default / membership test on the predictions -/
def choosePredObs (pred : List (PRow ο τ α)) (observable : Option ο) : Except PErr (Option ο) :=
  let types := (uniq (pred.map PRow.obs)).filter Option.isSome
  match observable with
  | none =>
    match types with
    | [] => .error .indexError
    | t :: _ => .ok t
  | some o => if some o ∈ types then .ok (some o) else .error .valueError

/-- `measurements[measurements[id_key] == individual]` when an individual is requested -/
def byIndividual (meas : List (MRow ι ο τ α)) (individual : Option ι) : List (MRow ι ο τ α) :=
  match individual with
  | some i => meas.filter (fun (r : MRow ι ο τ α) => eqM r.id (some i))
  | none => meas

/-- the steps after the observable is chosen: it must occur in the measurements; mask the
    predictions; `_get_relevant_measurements` (individual, observable, every measured time needs a
    prediction) -/
def selectFor (meas : List (MRow ι ο τ α)) (pred : List (PRow ο τ α)) (o : Option ο)
    (individual : Option ι) : Except PErr (List (MRow ι ο τ α) × List (PRow ο τ α)) :=
  if !((uniq (meas.map MRow.obs)).contains o) then .error .valueError
  else
    let data := pred.filter (fun (r : PRow ο τ α) => eqM r.obs o)
    let m2 := (byIndividual meas individual).filter (fun (r : MRow ι ο τ α) => eqM r.obs o)
    let measured := (uniq (m2.map MRow.time)).filter Option.isSome
    if measured.any (fun t => !(data.any (fun (r : PRow ο τ α) => eqM r.time t))) then
      .error .valueError
    else .ok (m2, data)

/-- the validation and selection steps of `ResidualPlot.add_data` up to the scatter loop:
    the selected measurements and the predictions of the chosen observable -/
def residualSelect (meas : List (MRow ι ο τ α)) (pred : List (PRow ο τ α)) (observable : Option ο)
    (individual : Option ι) : Except PErr (List (MRow ι ο τ α) × List (PRow ο τ α)) :=
  if badIndividual meas individual then .error .valueError
  else
    match choosePredObs pred observable with
    | .error e => .error e
    | .ok o => selectFor meas pred o individual

/-- `ResidualPlot(measurements).add_data(data, observable, individual, show_residuals,
    show_relative)` as it is; returns the traces and both caller frames after the call -/
def residualAddData (meas : List (MRow ι ο τ α)) (pred : List (PRow ο τ α)) (observable : Option ο)
    (individual : Option ι) (showRes showRel : Bool) :
    Except PErr (List (RTrace ι α)) × List (MRow ι ο τ α) × List (PRow ο τ α) :=
  (match residualSelect meas pred observable individual with
   | .error e => .error e
   | .ok (m2, data) => .ok (residLoop showRes showRel m2 data (uniq (m2.map MRow.id))), meas, pred)

/-- the pre-fix call, for the counterexample theorem -/
def residualAddDataLegacy (readonly fmtLegacy : Bool) (numeric : ι → Bool)
    (meas : List (MRow ι ο τ α)) (pred : List (PRow ο τ α)) (observable : Option ο)
    (individual : Option ι) (showRes showRel : Bool) :
    Except PErr (List (RTrace ι α)) × List (MRow ι ο τ α) × List (PRow ο τ α) :=
  (match residualSelect meas pred observable individual with
   | .error e => .error e
   | .ok (m2, data) =>
     residLoopLegacy readonly fmtLegacy numeric showRes showRel m2 data (uniq (m2.map MRow.id)),
   meas, pred)

/-! ### what the residual figure is meant to hold (comprehension over the rows) -/

/-- the observable of the residual figure: the requested one, else the first non-missing
    observable of the prediction frame -/
def specPredObs (pred : List (PRow ο τ α)) (observable : Option ο) : Option ο :=
  match observable with
  | some o => some o
  | none => (pred.filterMap (·.obs)).head?

/-- mean of the non-missing predictions of observable `o` at time `t` -/
def specMean (pred : List (PRow ο τ α)) (o : ο) (t : Option τ) : Option α :=
  let xs := (pred.filter (fun r => decide (r.obs = some o) && eqM r.time t)).filterMap (·.value)
  if xs.isEmpty then none else some (lsumR xs / ofNat xs.length)

/-- the measurements of observable `o` entering the figure (all, or those of `individual`) -/
def specMeas (meas : List (MRow ι ο τ α)) (o : ο) (individual : Option ι) : List (MRow ι ο τ α) :=
  meas.filter (fun r => decide (r.obs = some o) &&
    (match individual with
     | none => true
     | some i => decide (r.id = some i)))

/-- one trace per individual: x = mean prediction at each of its measurement times,
    y = measurement (minus the mean) (divided by the mean), in frame order -/
def specResid (meas : List (MRow ι ο τ α)) (pred : List (PRow ο τ α)) (o : ο)
    (individual : Option ι) (showRes showRel : Bool) : List (RTrace ι α) :=
  let m := specMeas meas o individual
  (uniq (m.map MRow.id)).map (fun i =>
    let rows := m.filter (fun r => eqM r.id i)
    ⟨i, rows.map (fun r => specMean pred o r.time),
     rows.map (fun r => residY showRes showRel r.value (specMean pred o r.time))⟩)

end residual

end Plots
end ChiModel
