/-!
# Which posterior a call of `PosteriorPredictiveModel.sample` draws from, after a history of calls  (C16)

`PosteriorPredictiveModel.sample(times, n_samples, individual, seed)` sorts the posterior samples of
the requested individual (`None`: the first ID of the dataset) into an array, and `rng.choice`s its
parameters among the rows of that array.  Individuals are numbered; the array is identified by the
number of the individual it was built for.  The result of a call is a function of (array, seed,
arguments) — `ChiModel/Seeds.lean` says how — so what has to be settled for a HISTORY of calls on one
object is only: which array does the call use.

* `rowsAsIs`   the code as it is: the array is rebuilt from the dataset in every call (no state);
* `cacheStep`  an object that memoises the array: `keyed = true` — one array per individual;
  `keyed = false` — the array of whatever call came first.
-/
namespace ChiModel.Seeds

/-- the individual a call is about: `individual=None` means the first ID -/
def effective (first : Nat) (ind : Option Nat) : Nat := ind.getD first

/-- the code as it is: the individual whose posterior the call draws from, after any history -/
def rowsAsIs (first : Nat) (_hist : List (Option Nat)) (ind : Option Nat) : Nat := effective first ind

/-- one call on a memoising object: (cache afterwards, individual whose array is used) -/
def cacheStep (keyed : Bool) (first : Nat) (cache : List Nat) (ind : Option Nat) : List Nat × Nat :=
  let i := effective first ind
  if keyed then (if cache.contains i then cache else i :: cache, i)
  else match cache with
    | [] => ([i], i)
    | j :: _ => (cache, j)

/-- the cache after a history of calls (individuals asked for, in order) -/
def runHist (keyed : Bool) (first : Nat) : List (Option Nat) → List Nat → List Nat
  | [], cache => cache
  | ind :: rest, cache => runHist keyed first rest (cacheStep keyed first cache ind).1

/-- the individual whose posterior a call draws from on an object with history `hist` -/
def rowsUsed (keyed : Bool) (first : Nat) (hist : List (Option Nat)) (ind : Option Nat) : Nat :=
  (cacheStep keyed first (runHist keyed first hist []) ind).2

end ChiModel.Seeds
