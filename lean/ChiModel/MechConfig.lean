/-!
# C11 — the configuration state machine of `SBMLModel` / `PKPDModel` / `ReducedMechanisticModel`

Model of `chi/_mechanistic_models.py` as a state machine over the *hidden state the code maintains*:

* `MState`  — `_model` (which myokit model variant), the name tables written by
  `_set_number_and_names` (`_n_states, _state_names, _const_names, _n_parameters, _original_order,
  _parameter_names`), `_output_names`, `_n_outputs`, the two name dictionaries, the solver object
  (`_simulator`: the model it was built from, the sensitivities it was built with, the protocol
  attached to it), `_has_sensitivities`, `_administration`, `_dosing_regimen`;
* `Red`     — the wrapper `ReducedMechanisticModel` (`_n_parameters`, `_parameter_names` cached at
  construction, `_fixed_params_mask`, `_fixed_params_values`, `_empty_sensitivities`);
* `step`    — `set_administration, set_dosing_regimen, set_outputs, set_parameter_names,
  set_output_names, enable_sensitivities, (wrap in a ReducedMechanisticModel), fix_parameters, copy`,
  branch for branch, for the code as it is (/repo at bcb3fc2: `set_administration` checks the selected
  outputs first, refreshes the name tables on both routes keeping the user's names, and re-attaches the
  regimen to the new solver); `stepLegacy` is `set_administration` before that commit (tables refreshed
  on the indirect route only, no protocol on the new solver), kept for the counterexample theorems;
* `observe` — `parameters(), n_parameters(), outputs(), dosing_regimen(), has_sensitivities()` and
  the call record of a `simulate`: which model the solver integrates, which protocol is attached,
  which sensitivities were requested, which named state / constant receives which position of the
  argument vector (or which fixed value), which variables are logged.

The *specification side* is the machine `applyCfg` over `Config`: the same operations acting on the
visible configuration only (no solver, no tables, no flag), with the documented resets
(`set_outputs`, `set_administration` and `copy` reset the sensitivity settings) and nothing else;
`build` is the state of an object that has exactly that configuration.

The myokit model is abstract: `Base` lists its components, states (declaration order), literal
constants, intermediary and remaining variables.  The ODE solution is not modelled; it is a function of
the call record (C09 / C10 are about that function).  Regimens and fixed values are opaque tokens.
No Mathlib.
-/
namespace ChiModel.MechConfig

/-- Python exceptions (kinds only) -/
inductive Err
  | valueError | keyError | typeError | attributeError | indexError | simError
  deriving DecidableEq, Repr, Inhabited

/-- argument of `set_administration` -/
structure Admin where
  comp : String
  var : String
  direct : Bool
  deriving DecidableEq, Repr, Inhabited

/-- which myokit model an attribute refers to, relative to the pristine `_vanilla_model` -/
inductive Variant
  | vanilla
  | dosed (a : Admin)        -- dose rate (bound to `pace`) added; with dose compartment when indirect
  | depotOnly (a : Admin)    -- dose compartment added, dose rate not yet: what `self._model` is while
                             -- `_add_dose_compartment` runs (survives only if that call raises)
  deriving DecidableEq, Repr, Inhabited

/-- the SBML model as myokit presents it (qualified names `component.variable`) -/
structure Base where
  pkpd : Bool                -- `PKPDModel` (true) or plain `SBMLModel`
  comps : List String        -- component names
  states : List String       -- state variables, declaration order (`model.states()`)
  consts : List String       -- literal constants
  inters : List String       -- intermediary variables
  others : List String       -- everything else (derived constants, bound variables)
  deriving Repr, Inhabited

def qn (c v : String) : String := c ++ "." ++ v

/-- `add_component_allow_renaming` / `add_variable_allow_renaming`: `stem`, else the first of
`stem_1, stem_2, …` that is free -/
def freshName (taken : List String) (stem : String) : String :=
  if stem ∉ taken then stem
  else match (List.range (taken.length + 1)).find? (fun i => (stem ++ "_" ++ toString (i + 1)) ∉ taken) with
    | some i => stem ++ "_" ++ toString (i + 1)
    | none => stem ++ "_" ++ toString (taken.length + 2)

def Base.allVars (b : Base) : List String := b.states ++ b.consts ++ b.inters ++ b.others

def doseComp (b : Base) : String := freshName b.comps "dose"
def doseState (b : Base) : String := qn (doseComp b) "drug_amount"
def doseConst (b : Base) : String := qn (doseComp b) "absorption_rate"

def Admin.indirect (a : Admin) : Bool := !a.direct

/-- does the variant carry the dose compartment? -/
def Variant.depot : Variant → Bool
  | .vanilla => false
  | .dosed a => !a.direct
  | .depotOnly _ => true

def vStates (b : Base) (v : Variant) : List String :=
  if v.depot then b.states ++ [doseState b] else b.states
def vConsts (b : Base) (v : Variant) : List String :=
  if v.depot then b.consts ++ [doseConst b] else b.consts
/-- the variable bound to `pace`: `_add_dose_rate` registers it in the *selected* compartment on both
routes (on the indirect route it enters the right-hand side of the depot amount) -/
def vPace (b : Base) : Variant → Option String
  | .dosed a => some (freshName b.allVars (qn a.comp "dose_rate"))
  | _ => none

/-- `model.get(name)` then `is_state() or is_intermediary()` : `KeyError` if the variable does not
exist, `ValueError` if it is neither -/
def outputCheck (b : Base) (v : Variant) (x : String) : Option Err :=
  if x ∈ vStates b v ∨ x ∈ b.inters then none
  else if x ∈ vConsts b v ∨ x ∈ b.others ∨ some x = vPace b v then some .valueError
  else some .keyError

def mapMOpt {α β} (f : α → Option β) : List α → Option (List β)
  | [] => some []
  | a :: l => match f a, mapMOpt f l with
    | some x, some xs => some (x :: xs)
    | _, _ => none

def firstErr {α} (f : α → Option Err) : List α → Option Err
  | [] => none
  | a :: l => match f a with
    | some e => some e
    | none => firstErr f l

/-! ## name tables (`_set_number_and_names`) -/

structure Tables where
  nStates : Nat
  stateNames : List String   -- sorted
  constNames : List String   -- sorted
  nParams : Nat
  origOrder : List Nat       -- argsort (argsort names): rank of each declared state
  paramNames : List String
  deriving DecidableEq, Repr, Inhabited

/-- `sorted(names)` (insertion sort: structurally recursive, so closed instances evaluate in the kernel) -/
def insertName (x : String) : List String → List String
  | [] => [x]
  | y :: l => if x ≤ y then x :: y :: l else y :: insertName x l

def sortNames : List String → List String
  | [] => []
  | x :: l => insertName x (sortNames l)

def tablesOf (b : Base) (v : Variant) : Tables :=
  let names := vStates b v
  let sn := sortNames names
  let cn := sortNames (vConsts b v)
  { nStates := names.length, stateNames := sn, constNames := cn,
    nParams := names.length + cn.length,
    origOrder := names.map (fun n => sn.idxOf n),
    paramNames := sn ++ cn }

/-- `dict(zip(names, names))` -/
def idMap (l : List String) : List (String × String) := l.map (fun k => (k, k))

/-- keys of a dict built by inserting `l` in order: first occurrences -/
def dedup : List String → List String
  | [] => []
  | a :: l => a :: (dedup l).filter (fun x => x ≠ a)

/-- a dictionary over the keys `keys` that keeps the entries of `old` and maps new keys to
themselves -/
def rekey (keys : List String) (old : List (String × String)) : List (String × String) :=
  keys.map (fun k => (k, (old.lookup k).getD k))

/-! ## hidden state -/

/-- the solver object -/
structure Sim where
  variant : Variant                              -- the model it was built from
  sens : Option (List String × List String)      -- (outputs, parameter expressions) it was built with
  protocol : Option Nat                          -- protocol attached to it
  deriving DecidableEq, Repr, Inhabited

structure MState where
  model : Variant                    -- `_model`
  tabs : Tables
  outputNames : List String          -- `_output_names` (myokit names)
  nOutputs : Nat
  pmap : List (String × String)      -- `_parameter_name_map` (myokit name ↦ displayed name)
  omap : List (String × String)      -- `_output_name_map`
  sim : Sim                          -- `_simulator`
  hasSens : Bool
  admin : Option Admin               -- `_administration`
  regimen : Option Nat               -- `_dosing_regimen`
  nSens : Nat                        -- `_n_sensitivity_parameters`: written when sensitivities are enabled,
                                     -- read by `simulate` on an empty time grid; kept (stale) when they are
                                     -- switched off
  deriving DecidableEq, Repr, Inhabited

/-- where an entry of the vector handed to the solver comes from -/
inductive Src
  | arg (i : Nat)        -- position `i` of the vector passed to `simulate`
  | fixed (v : Nat)      -- a value given to `fix_parameters`
  | garbage              -- `np.empty` / `nan` (never reaches the solver when lengths agree)
  deriving DecidableEq, Repr, Inhabited

/-- the wrapper `ReducedMechanisticModel` -/
structure Red where
  nParams : Nat                      -- cached at construction
  names : List String                -- cached displayed names
  mask : Option (List Bool)
  values : Option (List Src)
  emptySens : Bool                   -- `_empty_sensitivities`: enabled while every parameter is fixed
  deriving DecidableEq, Repr, Inhabited

structure Obj where
  m : MState
  r : Option Red
  deriving DecidableEq, Repr, Inhabited

/-! ## operations -/

inductive Op
  | setAdmin (a : Admin)
  | setRegimen (r : Nat)
  | setOutputs (outs : List String)
  | setParamNames (names : List (String × String))
  | setOutputNames (names : List (String × String))
  | enableSens (on : Bool) (names : Option (List String))
  | wrap
  | fix (d : List (String × Option Nat))
  | copy
  deriving DecidableEq, Repr, Inhabited

variable (b : Base)

/-- `SBMLModel.__init__` (+ `PKPDModel.__init__`) -/
def init : MState :=
  let t := tablesOf b .vanilla
  { model := .vanilla, tabs := t, outputNames := t.stateNames, nOutputs := t.nStates,
    pmap := idMap t.paramNames, omap := idMap t.stateNames,
    sim := ⟨.vanilla, none, none⟩, hasSens := false, admin := none, regimen := none, nSens := 0 }

/-- the parameter expressions `enable_sensitivities` hands to myokit -/
def sensExprs (t : Tables) : List String :=
  t.paramNames.zipIdx.map (fun (p, i) => if i < t.nStates then "init(" ++ p ++ ")" else p)

/-- selection by displayed name (`for index, public_name in enumerate(map.values())`) -/
def sensSelect (t : Tables) (pmap : List (String × String)) : Option (List String) → List String
  | none => sensExprs t
  | some ns => ((pmap.map Prod.snd).zip (sensExprs t)).filterMap
      (fun (pub, e) => if pub ∈ ns then some e else none)

/-- `PKPDModel.enable_sensitivities` (for a plain `SBMLModel` the regimen is `none` and the last step
changes nothing) -/
def enableSensM (s : MState) (on : Bool) (names : Option (List String)) : MState × Option Err :=
  let newSim := on || s.hasSens
  let attach (s : MState) : MState :=
    if newSim then { s with sim := { s.sim with protocol := s.regimen } } else s
  if !on then
    let s1 := if s.hasSens then { s with sim := ⟨s.model, none, none⟩, hasSens := false } else s
    (attach s1, none)
  else
    let sel := sensSelect s.tabs s.pmap names
    if sel = [] then (s, some .valueError)
    else
      (attach { s with sim := ⟨s.model, some (s.outputNames, sel), none⟩, hasSens := true,
                       nSens := sel.length }, none)

/-- displayed → myokit names, as `set_outputs` does it (sequential replacement of first matches) -/
def translate (omap : List (String × String)) (outs : List String) : List String :=
  omap.foldl (fun o (kp : String × String) => if kp.2 ∈ o then o.set (o.idxOf kp.2) kp.1 else o) outs

/-- `SBMLModel.set_outputs`; validity is checked on the *solver's* model -/
def setOutputsM (s : MState) (outs : List String) : MState × Option Err :=
  let outs1 := translate s.omap outs
  match firstErr (outputCheck b s.sim.variant) outs1 with
  | some e => (s, some e)
  | none =>
    enableSensM { s with outputNames := outs1, nOutputs := outs1.length,
                         omap := rekey (dedup outs1) s.omap } false none

def hasDup : List String → Bool
  | [] => false
  | a :: l => l.contains a || hasDup l

/-- update the first entry with key `k` -/
def setKey (k v : String) : List (String × String) → List (String × String)
  | [] => []
  | (k', v') :: l => if k' = k then (k', v) :: l else (k', v') :: setKey k v l

/-- `set_parameter_names` / `set_output_names` on a name dictionary, iterating over `keys`;
`names` maps currently displayed names to new ones -/
def renameLoop (names : List (String × String)) :
    List String → List (String × String) → List (String × String) × Option Err
  | [], m => (m, none)
  | k :: ks, m =>
    match m.lookup k with
    | none => (m, some .keyError)
    | some old =>
      match names.lookup old with
      | some new => renameLoop names ks (setKey k new m)
      | none => renameLoop names ks m

def renameM (names : List (String × String)) (keys : List String) (m : List (String × String)) :
    List (String × String) × Option Err :=
  let news := names.map Prod.snd
  if hasDup news then (m, some .valueError)
  else if news.any (fun n => (m.map Prod.snd).contains n) then (m, some .valueError)
  else renameLoop names keys m

def validAdmin (a : Admin) : Option Err :=
  if a.comp ∉ b.comps then some .valueError
  else if qn a.comp a.var ∉ b.allVars then some .valueError
  else if qn a.comp a.var ∉ b.states then some .valueError
  else none

/-- `_set_number_and_names` for the model variant `v` -/
def refreshTables (s : MState) (v : Variant) : MState :=
  let t := tablesOf b v
  { s with tabs := t, outputNames := t.stateNames, nOutputs := t.nStates,
           pmap := idMap t.paramNames, omap := idMap t.stateNames }

/-- `PKPDModel.set_administration` before bcb3fc2 (kept for the counterexample theorems) -/
def setAdminLegacy (s : MState) (a : Admin) : MState × Option Err :=
  match validAdmin b a with
  | some e => (s, some e)
  | none =>
    if a.direct then
      ({ s with model := .dosed a, sim := ⟨.dosed a, none, none⟩, hasSens := false,
                admin := some a }, none)
    else
      -- `_add_dose_compartment`
      let orig := s.outputNames
      let s1 := refreshTables b { s with model := .depotOnly a } (.depotOnly a)
      match setOutputsM b s1 orig with
      | (s2, some e) => (s2, some e)
      | (s2, none) =>
        ({ s2 with model := .dosed a, sim := ⟨.dosed a, none, none⟩, hasSens := false,
                   admin := some a }, none)

/-- `PKPDModel.set_administration`, the code as it is: the selected outputs must exist in the new model
(`ValueError`, nothing changed), the name tables are refreshed on both routes and keep the user's names,
outputs and output names are kept, the regimen is attached to the new solver.  (The code tests
`model.has_variable(output)`; for an output — a state or intermediary variable of the old model — that is
the same as being a state or intermediary variable of the new one, because the depot's variables are the
only ones that come and go and their names are fresh.) -/
def setAdminM (s : MState) (a : Admin) : MState × Option Err :=
  match validAdmin b a with
  | some e => (s, some e)
  | none =>
    match firstErr (outputCheck b (.dosed a)) s.outputNames with
    | some _ => (s, some .valueError)
    | none =>
      let t := tablesOf b (.dosed a)
      ({ s with model := .dosed a, tabs := t, pmap := rekey t.paramNames s.pmap,
                sim := ⟨.dosed a, none, s.regimen⟩, hasSens := false, admin := some a }, none)

def setRegimenM (s : MState) (r : Nat) : MState × Option Err :=
  match s.admin with
  | none => (s, some .valueError)
  | some _ => ({ s with sim := { s.sim with protocol := some r }, regimen := some r }, none)

/-- `SBMLModel.copy` + `PKPDModel.copy` -/
def copyM (s : MState) : MState :=
  { s with sim := ⟨s.model, none, s.regimen⟩, hasSens := false }

def parametersM (s : MState) : Option (List String) := mapMOpt (fun k => s.pmap.lookup k) s.tabs.paramNames
def outputsM (s : MState) : Option (List String) := mapMOpt (fun k => s.omap.lookup k) s.outputNames

/-! ### the wrapper -/

def maskSelect {α} : List Bool → List α → List α
  | m :: ms, x :: xs => if m then maskSelect ms xs else x :: maskSelect ms xs
  | _, _ => []

def freeNames (r : Red) : List String :=
  match r.mask with
  | none => r.names
  | some m => maskSelect m r.names

/-- `ReducedMechanisticModel.has_sensitivities` -/
def hasSensR (o : MState) (r : Red) : Bool := r.emptySens || o.hasSens

/-- `ReducedMechanisticModel.enable_sensitivities`: with no free parameter left the wrapped model's
sensitivities are switched off and the wrapper remembers that they are (vacuously) enabled -/
def enableSensR (o : MState) (r : Red) (on : Bool) : (MState × Red) × Option Err :=
  if !on then
    let p := enableSensM o false none
    ((p.1, { r with emptySens := false }), p.2)
  else if freeNames r = [] then
    let p := enableSensM o false none
    ((p.1, { r with emptySens := true }), p.2)
  else
    let p := enableSensM o true (some (freeNames r))
    ((p.1, { r with emptySens := false }), p.2)

/-- one pass of the loop in `fix_parameters` -/
def fixLoop (d : List (String × Option Nat)) :
    List String → List Bool → List Src → List Bool × List Src
  | n :: ns, m :: ms, v :: vs =>
    let (ms', vs') := fixLoop d ns ms vs
    match d.lookup n with
    | none => (m :: ms', v :: vs')
    | some (some x) => (true :: ms', Src.fixed x :: vs')
    | some none => (false :: ms', Src.garbage :: vs')
  | _, ms, vs => (ms, vs)

/-- new mask and value buffer after `fix_parameters(d)`; both are dropped when nothing is fixed -/
def fixMask (names : List String) (n : Nat) (mask : Option (List Bool)) (values : Option (List Src))
    (d : List (String × Option Nat)) : Option (List Bool) × Option (List Src) :=
  let mv := fixLoop d names (mask.getD (List.replicate n false)) (values.getD (List.replicate n Src.garbage))
  if mv.1.all (fun x => !x) then (none, none) else (some mv.1, some mv.2)

def fixR (o : MState) (r : Red) (d : List (String × Option Nat)) : (MState × Red) × Option Err :=
  let mv := fixMask r.names r.nParams r.mask r.values d
  let r1 : Red := { r with mask := mv.1, values := mv.2 }
  if hasSensR o r1 then enableSensR o r1 true else ((o, r1), none)

def wrapM (s : MState) : Option Red :=
  (parametersM s).map (fun ns => { nParams := s.tabs.nParams, names := ns, mask := none, values := none,
                                    emptySens := false })

/-! ### one step of the machine -/

def stepPlain (s : MState) : Op → MState × Option Err
  | .setAdmin a => if !b.pkpd then (s, some .attributeError)
                   else setAdminM b s a
  | .setRegimen r => if !b.pkpd then (s, some .attributeError) else setRegimenM s r
  | .setOutputs outs => setOutputsM b s outs
  | .setParamNames names =>
    let (m, e) := renameM names s.tabs.paramNames s.pmap
    ({ s with pmap := m }, e)
  | .setOutputNames names =>
    let (m, e) := renameM names s.outputNames s.omap
    ({ s with omap := m }, e)
  | .enableSens on names => enableSensM s on names
  | .copy => (copyM s, none)
  | .wrap => (s, none)            -- handled in `step`
  | .fix _ => (s, some .attributeError)

def step (o : Obj) (op : Op) : Obj × Option Err :=
  match o.r with
  | none =>
    match op with
    | .wrap => match wrapM o.m with
      | some r => (⟨o.m, some r⟩, none)
      | none => (o, some .keyError)
    | _ => let (m, e) := stepPlain b o.m op; (⟨m, none⟩, e)
  | some r =>
    match op with
    | .setAdmin _ => (o, some .attributeError)           -- the wrapper has no such method
    | .wrap => (o, none)                                  -- (histories wrap once)
    | .setRegimen x => if !b.pkpd then (o, some .attributeError)
                       else let (m, e) := setRegimenM o.m x; (⟨m, some r⟩, e)
    | .setOutputs outs =>
      -- delegated; when it did not raise the wrapper's own flag is reset as well
      let p := setOutputsM b o.m outs
      let r' : Red := match p.2 with
        | none => { r with emptySens := false }
        | some _ => r
      (⟨p.1, some r'⟩, p.2)
    | .setOutputNames names =>
      let (m, e) := renameM names o.m.outputNames o.m.omap
      (⟨{ o.m with omap := m }, some r⟩, e)
    | .setParamNames names =>
      let (m, e) := renameM names o.m.tabs.paramNames o.m.pmap
      let m' := { o.m with pmap := m }
      match e with
      | some e => (⟨m', some r⟩, some e)
      | none => match parametersM m' with
        | some ns => (⟨m', some { r with names := ns }⟩, none)
        | none => (⟨m', some r⟩, some .keyError)
    | .enableSens on none => let p := enableSensR o.m r on; (⟨p.1.1, some p.1.2⟩, p.2)
    | .enableSens _ (some _) => (o, some .typeError)     -- the wrapper's method takes no names
    | .fix d => let p := fixR o.m r d; (⟨p.1.1, some p.1.2⟩, p.2)
    | .copy => (⟨copyM o.m, some { r with emptySens := false }⟩, none)

def run : Obj → List Op → Obj
  | o, [] => o
  | o, op :: ops => run (step b o op).1 ops

/-- the machine before bcb3fc2: only `set_administration` on the unwrapped object differs -/
def stepLegacy (o : Obj) (op : Op) : Obj × Option Err :=
  match o.r, op with
  | none, .setAdmin a =>
    if !b.pkpd then (o, some .attributeError)
    else let p := setAdminLegacy b o.m a; (⟨p.1, none⟩, p.2)
  | _, _ => step b o op

def runLegacy : Obj → List Op → Obj
  | o, [] => o
  | o, op :: ops => runLegacy (stepLegacy b o op).1 ops

def initObj : Obj := ⟨init b, none⟩

/-! ## observation -/

structure SimRecord where
  simStates : List String                 -- states of the model the solver integrates
  pace : Option String                    -- the variable driven by the protocol
  protocol : Option Nat
  sens : Option (List String × List String)
  stateAssign : List (String × Src)       -- declared state ↦ source of its initial value
  constAssign : List (String × Src)
  log : List String
  deriving DecidableEq, Repr, Inhabited

/-- `SBMLModel.simulate`; `none` = it raises (wrong number of states, unknown constant or logged
variable, result of the wrong shape) -/
def simulateM (s : MState) (args : List Src) : Option SimRecord :=
  let p := args.take s.tabs.nStates
  match mapMOpt (fun i => p[i]?) s.tabs.origOrder with
  | none => none
  | some perm =>
    let ss := vStates b s.sim.variant
    if perm.length ≠ ss.length then none
    else
      let rest := args.drop s.tabs.nStates
      match mapMOpt (fun (ci : String × Nat) => rest[ci.2]?.map (fun x => (ci.1, x))) s.tabs.constNames.zipIdx with
      | none => none
      | some cs =>
        if cs.any (fun c => c.1 ∉ vConsts b s.sim.variant) then none
        else if s.outputNames.any (fun o => ¬ (o ∈ ss ∨ o ∈ b.inters)) then none
        else if s.hasSens ≠ s.sim.sens.isSome then none
        else
          let r : SimRecord :=
            { simStates := ss, pace := vPace b s.sim.variant, protocol := s.sim.protocol,
              sens := s.sim.sens, stateAssign := ss.zip perm, constAssign := cs,
              log := s.outputNames }
          some r

/-- `values[~mask] = parameters` -/
def fillFree : List Bool → List Src → List Src → List Src
  | m :: ms, v :: vs, args =>
    if m then v :: fillFree ms vs args
    else match args with
      | a :: as => a :: fillFree ms vs as
      | [] => Src.garbage :: fillFree ms vs []
  | _, _, _ => []

def nFixed (r : Red) : Nat := match r.mask with
  | none => 0
  | some m => (m.filter id).length

structure Obs where
  params : Option (List String)
  nParams : Nat
  outputs : Option (List String)
  regimen : Option Nat
  hasSens : Bool
  sim : Option SimRecord
  emptyGrid : Option (Nat × Option Nat)   -- `simulate(p, [])`: number of output rows, number of sensitivity
                                          -- columns (`none`: no sensitivities returned); `none`: it raises
  deriving DecidableEq, Repr

def nParametersO (o : Obj) : Nat := match o.r with
  | none => o.m.tabs.nParams
  | some r => r.nParams - nFixed r

def parametersO (o : Obj) : Option (List String) := match o.r with
  | none => parametersM o.m
  | some r => some (freeNames r)

/-- the vector the wrapped model's `simulate` receives when the outer `simulate` is called with
`n_parameters()` distinct symbolic entries (`none`: the fixed-value buffer cannot take them) -/
def fullArgs (r : Option Red) (n : Nat) : Option (List Src) :=
  let args := (List.range n).map Src.arg
  match r with
  | none => some args
  | some r => match r.mask, r.values with
    | some m, some v =>
      if (m.filter (fun x => !x)).length != args.length then none else some (fillFree m v args)
    | _, _ => some args

def simulateO (o : Obj) : Option SimRecord :=
  match fullArgs o.r (nParametersO o) with
  | none => none
  | some args => simulateM b o.m args

/-- `has_sensitivities()` of the outermost object -/
def hasSensO (o : Obj) : Bool := match o.r with
  | none => o.m.hasSens
  | some r => hasSensR o.m r

/-- `SBMLModel.simulate` on an empty time grid: the solver is reset and handed the state and constants (this
can raise as in `simulateM`), nothing is integrated, and the shapes come from `_n_outputs` and — if
`_has_sensitivities` — `_n_sensitivity_parameters` -/
def simulateEmptyM (s : MState) (args : List Src) : Option (Nat × Option Nat) :=
  let p := args.take s.tabs.nStates
  match mapMOpt (fun i => p[i]?) s.tabs.origOrder with
  | none => none
  | some perm =>
    if perm.length != (vStates b s.sim.variant).length then none
    else
      let rest := args.drop s.tabs.nStates
      match mapMOpt (fun (ci : String × Nat) => rest[ci.2]?.map (fun x => (ci.1, x))) s.tabs.constNames.zipIdx with
      | none => none
      | some cs =>
        if cs.any (fun c => c.1 ∉ vConsts b s.sim.variant) then none
        else some (s.nOutputs, if s.hasSens then some s.nSens else none)

/-- through the wrapper: with `_empty_sensitivities` an empty block of sensitivities is appended -/
def simulateEmptyO (o : Obj) : Option (Nat × Option Nat) :=
  match fullArgs o.r (nParametersO o) with
  | none => none
  | some args =>
    match o.r with
    | none => simulateEmptyM b o.m args
    | some r =>
      if r.emptySens then (simulateEmptyM b o.m args).map (fun x => (x.1, some 0))
      else simulateEmptyM b o.m args

def observe (o : Obj) : Obs :=
  { params := parametersO o, nParams := nParametersO o, outputs := outputsM o.m,
    regimen := o.m.regimen, hasSens := hasSensO o, sim := simulateO b o,
    emptyGrid := simulateEmptyO b o }

/-! ## the specification side: the visible configuration -/

/-- what `fix_parameters` has fixed (the wrapper's caches of the wrapped model's parameter count and
names are *not* configuration) -/
structure RedCfg where
  mask : Option (List Bool)
  values : Option (List Src)
  emptySens : Bool          -- sensitivities enabled with respect to no parameter (every one is fixed)
  deriving DecidableEq, Repr, Inhabited

structure Config where
  admin : Option Admin
  regimen : Option Nat
  outputs : List String                 -- selected outputs (myokit names)
  pmap : List (String × String)         -- displayed parameter names
  omap : List (String × String)         -- displayed output names
  sens : Option (List String)           -- parameters whose sensitivities are requested
  red : Option RedCfg                   -- wrapped in a `ReducedMechanisticModel`?
  sensCount : Nat                       -- not a setting: the residue `_n_sensitivity_parameters` of the last
                                        -- enabling (= number of selected parameters while enabled; unobservable
                                        -- while sensitivities are off)
  deriving DecidableEq, Repr, Inhabited

def variantOf : Option Admin → Variant
  | none => .vanilla
  | some a => .dosed a

def cfgTables (c : Config) : Tables := tablesOf b (variantOf c.admin)

/-- displayed parameter names of the configuration -/
def cfgPublic (c : Config) : Option (List String) :=
  mapMOpt (fun k => c.pmap.lookup k) (cfgTables b c).paramNames

/-- the object that has exactly the configuration `c` -/
def buildM (c : Config) : MState :=
  let v := variantOf c.admin
  { model := v, tabs := tablesOf b v, outputNames := c.outputs, nOutputs := c.outputs.length,
    pmap := c.pmap, omap := c.omap, sim := ⟨v, c.sens.map (fun sel => (c.outputs, sel)), c.regimen⟩,
    hasSens := c.sens.isSome, admin := c.admin, regimen := c.regimen, nSens := c.sensCount }

def buildR (c : Config) (r : RedCfg) : Red :=
  { nParams := (cfgTables b c).nParams, names := (cfgPublic b c).getD [], mask := r.mask,
    values := r.values, emptySens := r.emptySens }

def build (c : Config) : Obj := ⟨buildM b c, c.red.map (buildR b c)⟩

def initCfg : Config :=
  let t := tablesOf b .vanilla
  { admin := none, regimen := none, outputs := t.stateNames, pmap := idMap t.paramNames,
    omap := idMap t.stateNames, sens := none, red := none, sensCount := 0 }

def cfgSens (c : Config) (on : Bool) (names : Option (List String)) : Config × Option Err :=
  if !on then ({ c with sens := none }, none)
  else
    let sel := sensSelect (cfgTables b c) c.pmap names
    if sel = [] then (c, some .valueError) else ({ c with sens := some sel, sensCount := sel.length }, none)

def cfgOutputs (c : Config) (outs : List String) : Config × Option Err :=
  let outs1 := translate c.omap outs
  match firstErr (outputCheck b (variantOf c.admin)) outs1 with
  | some e => (c, some e)
  | none => ({ c with outputs := outs1, omap := rekey (dedup outs1) c.omap, sens := none }, none)

def cfgAdmin (c : Config) (a : Admin) : Config × Option Err :=
  match validAdmin b a with
  | some e => (c, some e)
  | none =>
    match firstErr (outputCheck b (.dosed a)) c.outputs with
    | some _ => (c, some .valueError)
    | none =>
      ({ c with admin := some a, pmap := rekey (tablesOf b (.dosed a)).paramNames c.pmap,
                sens := none }, none)

def cfgRegimen (c : Config) (r : Nat) : Config × Option Err :=
  match c.admin with
  | none => (c, some .valueError)
  | some _ => ({ c with regimen := some r }, none)

/-- displayed names of the parameters that are not fixed -/
def cfgFree (c : Config) (r : RedCfg) : List String :=
  match r.mask with
  | none => (cfgPublic b c).getD []
  | some m => maskSelect m ((cfgPublic b c).getD [])

/-- `enable_sensitivities` through the wrapper -/
def cfgSensR (c : Config) (r : RedCfg) (on : Bool) : Config × Option Err :=
  if !on then
    let p := cfgSens b c false none
    ({ p.1 with red := some { r with emptySens := false } }, p.2)
  else if cfgFree b c r = [] then
    let p := cfgSens b c false none
    ({ p.1 with red := some { r with emptySens := true } }, p.2)
  else
    let p := cfgSens b c true (some (cfgFree b c r))
    ({ p.1 with red := some { r with emptySens := false } }, p.2)

def cfgFix (c : Config) (r : RedCfg) (d : List (String × Option Nat)) : Config × Option Err :=
  let mv := fixMask ((cfgPublic b c).getD []) (cfgTables b c).nParams r.mask r.values d
  let r1 : RedCfg := { r with mask := mv.1, values := mv.2 }
  let c1 := { c with red := some r1 }
  if r.emptySens || c.sens.isSome then cfgSensR b c1 r1 true else (c1, none)

/-- the operations on the visible configuration: each changes the setting it names, plus the
documented resets of the sensitivity setting (`set_outputs`, `set_administration`, `copy`;
`fix_parameters` re-derives it for the free parameters).  No solver, no name tables, no flag. -/
def applyCfg (c : Config) (op : Op) : Config × Option Err :=
  match op, c.red with
  | .setAdmin a, none => if !b.pkpd then (c, some .attributeError) else cfgAdmin b c a
  | .setAdmin _, some _ => (c, some .attributeError)
  | .setRegimen r, _ => if !b.pkpd then (c, some .attributeError) else cfgRegimen c r
  | .setOutputs outs, none => cfgOutputs b c outs
  | .setOutputs outs, some r =>
    let p := cfgOutputs b c outs
    match p.2 with
    | none => ({ p.1 with red := some { r with emptySens := false } }, none)
    | some e => (p.1, some e)
  | .setParamNames names, _ =>
    let (m, e) := renameM names (cfgTables b c).paramNames c.pmap
    ({ c with pmap := m }, e)
  | .setOutputNames names, _ =>
    let (m, e) := renameM names c.outputs c.omap
    ({ c with omap := m }, e)
  | .enableSens on names, none => cfgSens b c on names
  | .enableSens on none, some r => cfgSensR b c r on
  | .enableSens _ (some _), some _ => (c, some .typeError)
  | .copy, none => ({ c with sens := none }, none)
  | .copy, some r => ({ c with sens := none, red := some { r with emptySens := false } }, none)
  | .wrap, none => ({ c with red := some ⟨none, none, false⟩ }, none)
  | .wrap, some _ => (c, none)
  | .fix _, none => (c, some .attributeError)
  | .fix d, some r => cfgFix b c r d

/-- the net configuration of a history -/
def net : Config → List Op → Config
  | c, [] => c
  | c, op :: ops => net (applyCfg b c op).1 ops

/-- a freshly created object to which only the configuration `c` is applied -/
def fresh (c : Config) : Obj := build b c

/-! ## the class of histories on which the code as it is already has the property -/

/-- what has been called so far (calls that raised count as well: the class is syntactic) -/
structure Hist where
  regimenSeen : Bool      -- a `set_dosing_regimen`
  renameSeen : Bool       -- a `set_parameter_names` / `set_output_names`
  indirectSeen : Bool     -- a `set_administration(direct=False)`
  deriving DecidableEq, Repr, Inhabited

def Hist.next (h : Hist) : Op → Hist
  | .setAdmin a => { h with indirectSeen := h.indirectSeen || !a.direct }
  | .setRegimen _ => { h with regimenSeen := true }
  | .setParamNames _ => { h with renameSeen := true }
  | .setOutputNames _ => { h with renameSeen := true }
  | _ => h

/-- `set_administration` is *not* called after a regimen was set, a direct route is not selected after
an indirect one, an indirect route is not selected after names were assigned -/
def Hist.allows (h : Hist) : Op → Bool
  | .setAdmin a => !h.regimenSeen && (if a.direct then !h.indirectSeen else !h.renameSeen)
  | _ => true

def wellOrderedFrom (h : Hist) : List Op → Bool
  | [] => true
  | op :: ops => h.allows op && wellOrderedFrom (h.next op) ops

def WellOrdered (ops : List Op) : Prop := wellOrderedFrom ⟨false, false, false⟩ ops = true

instance (ops : List Op) : Decidable (WellOrdered ops) := by unfold WellOrdered; infer_instance

/-- `ReducedMechanisticModel.set_outputs` before commit 4fca413 (the flag `_empty_sensitivities`, new in
f18d571, survived the reset of the sensitivity setting); kept only for its counterexample theorem -/
def stepKeepFlag (o : Obj) (op : Op) : Obj × Option Err :=
  match o.r, op with
  | some r, .setOutputs outs => let p := setOutputsM b o.m outs; (⟨p.1, some r⟩, p.2)
  | _, _ => stepLegacy b o op

def runKeepFlag : Obj → List Op → Obj
  | o, [] => o
  | o, op :: ops => runKeepFlag (stepKeepFlag b o op).1 ops

/-- the SBML file declares every variable once -/
def Base.WF (b : Base) : Prop := (b.states ++ b.consts).Nodup

instance (b : Base) : Decidable b.WF := by unfold Base.WF; infer_instance

end ChiModel.MechConfig
