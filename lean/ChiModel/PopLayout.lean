import ChiModel.PopSens
/-!
# chi/_population_models.py — the `ndim == 1 / 2 / 3` parameter-layout branches

Every public method of an elementary population model first turns `parameters` — flat vector,
`(n_param_per_dim, n_dim)` matrix or `(n_ids, n_param_per_dim, n_dim)` tensor — into one array and
then slices `parameters[:, 0]`, `parameters[:, 1]`. Three methods contain the slip

    elif parameters.ndim == 2:
        n_parameters = parameters[np.newaxis, ...]      # assigns to the wrong variable

(`GaussianModel.compute_individual_parameters`, `LogNormalModel.compute_individual_parameters`,
`LogNormalModel.compute_sensitivities`): the matrix stays two-dimensional and `[:, 0]` / `[:, 1]`
read its *columns*. `legacy = true` is the code as it is, `legacy = false` the intended reading.
`HeterogeneousModel.compute_log_likelihood / compute_sensitivities` used to read
`parameters[:, 0, :]` of a tensor (individual 0's row for everybody) where
`compute_individual_parameters` reads the diagonal; since `04b584d` they read the diagonal too.
The pre-fix reading survives only as `deltaArr true (preFix := true)` / `heteroLLPreFix`, for the
counterexample theorem.

The small part of numpy that is needed (reshape, `[:, j]`, broadcasting against the
`(n_ids, n_dim)` observations, the exceptions they raise) is modelled explicitly.
-/
namespace ChiModel
variable {α : Type} [Add α] [Sub α] [Mul α] [Div α] [Neg α] [ScalarFns α]
open ScalarFns

inductive Layout (α : Type) where
  | flat (l : List α)
  | matrix (rows : List (List α))
  | tensor (blocks : List (List (List α)))
  deriving Repr

/-- the Python exceptions the layout code can raise -/
inductive PErr | valueError | indexError | notImplemented
  deriving Repr, DecidableEq

/-- a numpy array of rank ≤ 2 as it takes part in broadcasting against `(n_ids, n_dim)`;
    a 1-D array of length `c` has `rows = 1`, `cols = c` -/
structure Arr2 (α : Type) where
  rows : Nat
  cols : Nat
  get : Nat → Nat → α

/-- the array after the `ndim` branches: rank 3, or — in the typo branches — the untouched matrix -/
inductive NArr (α : Type) where
  | a3 (t : List (List (List α)))
  | a2 (m : List (List α))

/-- `l.reshape(k, n_dim)` as rows -/
def chunk (nDim : Nat) (l : List α) : List (List α) :=
  (List.range (l.length / nDim)).map (fun r => (List.range nDim).map (fun d => l.getD (r * nDim + d) zero))

/-- `parameters.reshape(len(parameters) // n_dim, n_dim)` -/
def reshape2 (nDim : Nat) (l : List α) : Except PErr (List (List α)) :=
  if nDim = 0 ∨ l.length % nDim ≠ 0 then .error .valueError else .ok (chunk nDim l)

/-- the `ndim` branches of the (mu, sigma) models; `typo` selects the wrong-variable branch -/
def normalise (typo : Bool) (nDim : Nat) : Layout α → Except PErr (NArr α)
  | .flat l =>                         -- parameters.reshape(1, len // n_dim, n_dim)
    match reshape2 nDim l with
    | .error e => .error e
    | .ok m => .ok (.a3 [m])
  | .matrix m =>
    if typo then .ok (.a2 m)           -- n_parameters = parameters[np.newaxis, ...]
    else .ok (.a3 [m])                 -- parameters = parameters[np.newaxis, ...]
  | .tensor t => .ok (.a3 t)

def matArr (m : List (List α)) : Arr2 α :=
  ⟨m.length, (m.headD []).length, fun r d => (m.getD r []).getD d zero⟩

/-- `parameters[:, j]` -/
def NArr.col (j : Nat) : NArr α → Except PErr (Arr2 α)
  | .a3 t =>
    if j < (t.headD []).length then
      .ok ⟨t.length, ((t.headD []).headD []).length, fun i d => ((t.getD i []).getD j []).getD d zero⟩
    else .error .indexError
  | .a2 m =>                           -- a 1-D array: entry `r` is `m[r][j]`
    if j < (m.headD []).length then
      .ok ⟨1, m.length, fun _ r => (m.getD r []).getD j zero⟩
    else .error .indexError

/-- is `p` true for some raw entry (`np.any(...)` before any broadcasting) -/
def Arr2.any (a : Arr2 α) (p : α → Bool) : Bool := iany2 a.rows a.cols (fun r c => p (a.get r c))

/-- broadcast against the `(n_ids, n_dim)` observations; arrays that would not fit raise -/
def Arr2.bc (a : Arr2 α) (nIds nDim : Nat) : Except PErr (Nat → Nat → α) :=
  if (a.rows = 1 ∨ a.rows = nIds) ∧ (a.cols = 1 ∨ a.cols = nDim) then
    .ok (fun i d => a.get (if a.rows = 1 then 0 else i) (if a.cols = 1 then 0 else d))
  else .error .valueError

/-- `(mus, sigmas) = (parameters[:, 0], parameters[:, 1])` -/
def muSigma (typo : Bool) (nDim : Nat) (lay : Layout α) : Except PErr (Arr2 α × Arr2 α) :=
  match normalise typo nDim lay with
  | .error e => .error e
  | .ok p =>
    match p.col 0 with
    | .error e => .error e
    | .ok mus =>
      match p.col 1 with
      | .error e => .error e
      | .ok sigmas => .ok (mus, sigmas)

def thOf (mu sg : Nat → Nat → α) : Nat → Nat → Nat → α := fun i p d => if p = 0 then mu i d else sg i d

/-- broadcast both arrays and hand them to a kernel -/
def withMuSigma {β : Type} (ms : Arr2 α × Arr2 α) (nIds nDim : Nat)
    (f : (Nat → Nat → Nat → α) → β) : Except PErr β :=
  match ms.1.bc nIds nDim with
  | .error e => .error e
  | .ok mu =>
    match ms.2.bc nIds nDim with
    | .error e => .error e
    | .ok sg => .ok (f (thOf mu sg))

/-- the array the delta models compare the observations with.
    Pooled: flat → `reshape(k, n_dim)`, matrix as is, tensor → `parameters[:, 0]`.
    Heterogeneous: the same, except that the tensor reading is the diagonal
    `parameters[i, i, :]` (`preFix = true`: `parameters[:, 0]`, the code before `04b584d`). -/
def deltaArr (hetero preFix : Bool) (nDim : Nat) : Layout α → Except PErr (Arr2 α)
  | .flat l =>
    match reshape2 nDim l with
    | .error e => .error e
    | .ok m => .ok (matArr m)
  | .matrix m => .ok (matArr m)
  | .tensor t =>
    if hetero && !preFix then
      .ok ⟨t.length, ((t.headD []).headD []).length, fun i d => ((t.getD i []).getD i []).getD d zero⟩
    else (NArr.a3 t).col 0

/-- parameters of a delta model as the kernel's `th`: pooled reads `th i 0 d`, heterogeneous
    `th i i d` -/
def deltaTh (hetero : Bool) (v : Nat → Nat → α) : Nat → Nat → Nat → α :=
  fun i p d => if hetero then (if p = i then v i d else zero) else v i d

/-! ## `compute_log_likelihood` -/

def llLayout [HasErf α] (_legacy : Bool) (k : Kind) (nIds nDim : Nat) (lay : Layout α)
    (obs : Nat → Nat → α) : Except PErr (Score α) :=
  match k with
  | .gauss false => .ok (popLL k nIds nDim (fun _ _ _ => zero) obs)  -- parameters are not looked at
  | .logn false => .ok (popLL k nIds nDim (fun _ _ _ => zero) obs)
  | .pooled | .hetero =>
    match deltaArr (k == .hetero) false nDim lay with
    | .error e => .error e
    | .ok a =>
      match a.bc nIds nDim with
      | .error e => .error e
      | .ok v => .ok (popLL k nIds nDim (deltaTh (k == .hetero) v) obs)
  | _ =>
    match muSigma false nDim lay with
    | .error e => .error e
    | .ok ms =>
      -- `np.any(sigmas < 0)` (`<= 0` for the truncated Gaussian) on the raw array
      if ms.2.any (fun s => if k == .trunc then le s zero else lt s zero) then .ok .negInf
      else withMuSigma ms nIds nDim (fun th => popLL k nIds nDim th obs)

/-- `HeterogeneousModel.compute_log_likelihood` before `04b584d` (tensor: `parameters[:, 0, :]`) -/
def heteroLLPreFix [HasErf α] (nIds nDim : Nat) (lay : Layout α) (obs : Nat → Nat → α) :
    Except PErr (Score α) :=
  match deltaArr true true nDim lay with
  | .error e => .error e
  | .ok a =>
    match a.bc nIds nDim with
    | .error e => .error e
    | .ok v => .ok (popLL .hetero nIds nDim (deltaTh true v) obs)

/-! ## `compute_sensitivities` -/

/-- does this method contain the wrong-variable branch? -/
def sensTypo : Kind → Bool
  | .logn _ => true
  | _ => false

def sensLayout [HasErf α] (legacy : Bool) (k : Kind) (nIds nDim : Nat) (lay : Layout α)
    (obs : Nat → Nat → α) (up : Option (Nat → Nat → α)) : Except PErr (SensOut α) :=
  match k with
  | .pooled | .hetero =>
    match deltaArr (k == .hetero) false nDim lay with
    | .error e => .error e
    | .ok a =>
      match a.bc nIds nDim with
      | .error e => .error e
      | .ok v => .ok (popSens k nIds nDim (deltaTh (k == .hetero) v) obs up)
  | _ =>
    match muSigma (legacy && sensTypo k) nDim lay with
    | .error e => .error e
    | .ok ms =>
      if ms.2.any (fun s => if k == .trunc then le s zero else lt s zero) then .ok garbage
      else withMuSigma ms nIds nDim (fun th => popSens k nIds nDim th obs up)

/-! ## `compute_individual_parameters` -/

/-- `eta` as passed: already `(n_ids, n_dim)` or flat, reshaped with the STORED `n_ids` -/
inductive EtaArg (α : Type) where
  | mat (rows : List (List α))
  | flat (l : List α)

def EtaArg.nRows (storedIds : Nat) : EtaArg α → Nat
  | .mat rows => rows.length
  | .flat _ => storedIds

/-- `eta.reshape(self._n_ids, self._n_dim)` for 1-D input -/
def EtaArg.view (storedIds nDim : Nat) : EtaArg α → Except PErr (Nat → Nat → α)
  | .mat rows => .ok (fun i d => (rows.getD i []).getD d zero)
  | .flat l => if l.length = storedIds * nDim then .ok (fun i d => l.getD (i * nDim + d) zero)
               else .error .valueError

/-- `HeterogeneousModel.compute_individual_parameters`, last step: `eta = np.asarray(eta);
    if eta.ndim == 2 and len(eta) != len(parameters): return eta` -/
def heteroDrawn (eta : EtaArg α) (nPar : Nat) (res : List (List (PsiVal α))) : List (List (PsiVal α)) :=
  match eta with
  | .mat rows => if rows.length ≠ nPar then rows.map (fun r => r.map PsiVal.val) else res
  | .flat _ => res

def psiMat (n nDim : Nat) (f : Nat → Nat → PsiVal α) : List (List (PsiVal α)) :=
  (List.range n).map (fun i => (List.range nDim).map (fun d => f i d))

/-- `compute_individual_parameters(parameters, eta, return_eta)`; the result has `n` rows -/
def indivLayout (legacy : Bool) (k : Kind) (storedIds nDim : Nat) (lay : Layout α)
    (eta : EtaArg α) (returnEta : Bool) : Except PErr (List (List (PsiVal α))) :=
  let n := eta.nRows storedIds
  match k with
  | .pooled =>
    -- `parameters.reshape(1, n_dim)` broadcast to `(n, n_dim)`; tensor: `parameters[:, 0, :]`
    match lay with
    | .tensor t =>
      match (NArr.a3 t).col 0 with
      | .error e => .error e
      | .ok a => .ok (psiMat a.rows a.cols (fun i d => .val (a.get i d)))
    | .flat l => if l.length = nDim then .ok (psiMat n nDim (fun _ d => .val (l.getD d zero)))
                 else .error .valueError
    | .matrix m => if m.flatten.length = nDim then
                     .ok (psiMat n nDim (fun _ d => .val (m.flatten.getD d zero)))
                   else .error .valueError
  | .hetero =>
    -- (since `7e1e7bd`) a two-dimensional `eta` whose number of rows differs from
    -- `len(parameters)` holds individuals DRAWN from the modelled ones and is returned as it is
    match lay with
    | .flat l => if l.length = storedIds * nDim then
                   .ok (heteroDrawn eta storedIds
                     (psiMat storedIds nDim (fun i d => .val (l.getD (i * nDim + d) zero))))
                 else .error .valueError
    | .matrix m => .ok (heteroDrawn eta m.length (m.map (fun r => r.map PsiVal.val)))
    | .tensor t =>                     -- np.diagonal(parameters, axis1=0, axis2=1).T
      let a : Arr2 α := ⟨min t.length (t.headD []).length, ((t.headD []).headD []).length,
        fun i d => ((t.getD i []).getD i []).getD d zero⟩
      .ok (heteroDrawn eta a.rows (psiMat a.rows a.cols (fun i d => .val (a.get i d))))
  | _ =>
    match eta.view storedIds nDim with
    | .error e => .error e
    | .ok e =>
      let centred := match k with
        | .gauss c => c
        | .logn c => c
        | _ => true
      if centred || returnEta then .ok (psiMat n nDim (fun i d => .val (e i d))) else
      match muSigma legacy nDim lay with
      | .error er => .error er
      | .ok ms =>
        if ms.2.any (fun s => lt s zero) then .ok (psiMat n nDim (fun _ _ => .nan)) else
        withMuSigma ms n nDim (fun th => psiMat n nDim (fun i d =>
          match k with
          | .logn _ => .val (exp (th i 0 d + th i 1 d * e i d))
          | _ => .val (th i 0 d + th i 1 d * e i d)))

/-! ## one-dimensional observations and `compute_pointwise_ll` -/

/-- `observations` as passed: `(n_ids, n_dim)` rows, or — for a one-dimensional model — a plain
    vector, turned into a column by `observations[:, np.newaxis]` -/
inductive ObsArg (α : Type) where
  | mat (rows : List (List α))
  | vec (l : List α)

/-- `(n_ids, entry i d)` after `if observations.ndim == 1: observations = observations[:, np.newaxis]` -/
def ObsArg.view : ObsArg α → Nat × (Nat → Nat → α)
  | .mat rows => (rows.length, fun i d => (rows.getD i []).getD d zero)
  | .vec l => (l.length, fun i _ => l.getD i zero)

/-- one entry of `PooledModel.compute_pointwise_ll`: `0`, or `-inf` where the observation differs
    from the pooled value -/
def pooledPW (v : Nat → Nat → α) (obs : Nat → Nat → α) (i d : Nat) : Score α :=
  if le (obs i d) (v i d) && le (v i d) (obs i d) then .val zero else .negInf

/-- `compute_pointwise_ll(parameters, observations)`: implemented by `PooledModel` only
    (`parameters.reshape(1, n_dim)` unless two-dimensional); every other class inherits
    `raise NotImplementedError` -/
def pointwiseLayout (k : Kind) (nIds nDim : Nat) (lay : Layout α) (obs : Nat → Nat → α) :
    Except PErr (List (List (Score α))) :=
  match k with
  | .pooled =>
    let arr : Except PErr (Arr2 α) := match lay with
      | .matrix m => .ok (matArr m)
      | .flat l => if l.length = nDim then .ok ⟨1, nDim, fun _ d => l.getD d zero⟩ else .error .valueError
      | .tensor t => if t.flatten.flatten.length = nDim
          then .ok ⟨1, nDim, fun _ d => t.flatten.flatten.getD d zero⟩ else .error .valueError
    match arr with
    | .error e => .error e
    | .ok a =>
      match a.bc nIds nDim with
      | .error e => .error e
      | .ok v => .ok ((List.range nIds).map (fun i => (List.range nDim).map (fun d => pooledPW v obs i d)))
  | _ => .error .notImplemented

end ChiModel
