import ChiModel.PopModels
/-!
# chi/_covariate_models.py (`LinearCovariateModel`) and
# chi/_population_models.py (`CovariatePopulationModel`)

* the selection normaliser (`set_population_parameters`): de-duplicate, order by `(p, d)`,
  flat β index `s · n_cov + c`, names — the code as it is now, plus the pre-`baa4ab0` variants
  (array `in` list, two unstable `argsort`s, names from the caller's order);
* the split of the flat parameter vector `(ϑ₀ | β)` and the linear transform
  `ϑ_i[p,d] = ϑ₀[p,d] + Σ_c β[s,c] χ_{i,c}` (`compute_population_parameters`);
* delegation to the wrapped population model (likelihood, individual parameters, sampling as a
  transformation of primitive draws) and the transposed map for the sensitivities.

No Mathlib. Numeric code is polymorphic over the scalar.
-/
namespace ChiModel
variable {α : Type} [Add α] [Sub α] [Mul α] [Div α] [Neg α] [ScalarFns α]
open ScalarFns

/-- a `[param index, dim index]` pair -/
abbrev Pair := Nat × Nat

/-! ## selection normaliser -/

/-- `(p, d) < (p', d')` lexicographically (`np.lexsort((d, p))`: primary key `p`) -/
def lexLt (a b : Pair) : Bool := decide (a.1 < b.1) || (decide (a.1 = b.1) && decide (a.2 < b.2))

/-- one step of `for idx in indices: if idx not in unique: unique.append(idx)` -/
def dedupStep (unique : List Pair) (idx : Pair) : List Pair :=
  if unique.contains idx then unique else unique ++ [idx]

/-- the loop: first occurrences, in input order -/
def dedupFirst (indices : List Pair) : List Pair := indices.foldl dedupStep []

/-- insertion into a `(p, d)`-sorted list, after all smaller-or-equal entries -/
def insertLex (x : Pair) : List Pair → List Pair
  | [] => [x]
  | y :: ys => if lexLt x y then x :: y :: ys else y :: insertLex x ys

/-- `indices[np.lexsort((indices[:, 1], indices[:, 0])), :]` (for distinct rows every correct
    sort returns this list: `C07_selection_unique`) -/
def sortLex (l : List Pair) : List Pair := l.foldr insertLex []

/-- `LinearCovariateModel.set_population_parameters`: the stored `(_pidx, _didx)` -/
def normSel (indices : List Pair) : List Pair := sortLex (dedupFirst indices)

inductive SelErr | ambiguousTruth | indexError | valueError
  deriving Repr, DecidableEq

/-- `CovariatePopulationModel.set_population_parameters`: bounds check on the raw integers
    (`np.max(indices, axis=0)`, `np.min(indices) < 0`), then the covariate model's normaliser.
    An empty list makes `np.max` raise `ValueError`. -/
def setPopChecked (perDim nDim : Nat) (indices : List (Int × Int)) : Except SelErr (List Pair) :=
  if indices.isEmpty then .error .valueError
  else if indices.any (fun x => decide (x.1 ≥ (perDim : Int)) || decide (x.2 ≥ (nDim : Int))
      || decide (x.1 < 0) || decide (x.2 < 0)) then .error .indexError
  else .ok (normSel (indices.map (fun x => (x.1.toNat, x.2.toNat))))

/-! ### the pre-fix selection (kept as a variant; `C07_unstable_counterexample`,
    `C07_setpop_counterexample`) -/

/-- legacy loop when the rows arrive as numpy arrays (the path through
    `CovariatePopulationModel.set_population_parameters`): `idx not in unique` evaluates
    `row == [a, b]` element-wise and asks for the truth value of a 2-element array as soon as
    `unique` is non-empty. -/
def legacyDedupArray : List Pair → Except SelErr (List Pair)
  | [] => .ok []
  | [x] => .ok [x]
  | _ :: _ :: _ => .error .ambiguousTruth

/-- the two legacy sorts are `np.argsort` with the default (unstable) kind, specified only as
    "a permutation that sorts by the key" — carried as an explicit permutation supplied by the
    environment. `applyPerm perm l` is `l[perm]`. -/
def applyPerm (perm : List Nat) (l : List Pair) : List Pair := perm.map (fun j => l.getD j (0, 0))

/-- does `perm` qualify as an argsort of `key ∘ l`? (a permutation of the positions whose image
    is non-decreasing in the key) -/
def isArgsortBy (key : Pair → Nat) (l : List Pair) (perm : List Nat) : Bool :=
  let keys := (applyPerm perm l).map key
  decide (perm.length = l.length) && (List.range l.length).all (fun j => perm.contains j)
    && (keys.zip (keys.drop 1)).all (fun ab => decide (ab.1 ≤ ab.2))

/-- legacy order: argsort by `d`, then argsort by `p` (both unspecified on ties) -/
def legacyOrder (permD permP : List Nat) (unique : List Pair) : List Pair :=
  applyPerm permP (applyPerm permD unique)

/-- insertion by the key `p` only, before the first entry whose key is not smaller: the STABLE
    sort by `p` (`np.argsort(..., kind='stable')`), for which the pre-fix double sort is correct
    (`C07_legacy_stable_partial`) -/
def insertByP (x : Pair) : List Pair → List Pair
  | [] => [x]
  | y :: ys => if decide (x.1 ≤ y.1) then x :: y :: ys else y :: insertByP x ys

def stableSortByP (l : List Pair) : List Pair := l.foldr insertByP []

/-! ## names -/

/-- population-model parameter names with the dimension suffix (flat, parameter-major):
    `name + ' ' + dim_names[name_id % n_dim]` -/
def popFullNames (nDim : Nat) (baseNames dimNames : List String) : List String :=
  (List.range baseNames.length).map (fun j =>
    baseNames.getD j "" ++ " " ++ dimNames.getD (j % nDim) "")

/-- the covariate model's stored `_parameter_names` after
    `CovariatePopulationModel.set_population_parameters / set_dim_names`:
    `names.reshape(n_pop, n_dim)[pidx, didx]`, each repeated `n_cov` times -/
def selNames (nDim nCov : Nat) (sel : List Pair) (fullNames : List String) : List String :=
  sel.flatMap (fun pd => List.replicate nCov (fullNames.getD (pd.1 * nDim + pd.2) ""))

/-- `CovariateModel.get_parameter_names()`: `name + ' ' + cov_names[name_id % n_cov]` -/
def withCovNames (nCov : Nat) (stored covNames : List String) : List String :=
  (List.range stored.length).map (fun k => stored.getD k "" ++ " " ++ covNames.getD (k % nCov) "")

/-- the bookkeeping state of a `CovariatePopulationModel` -/
structure CovModel where
  nDim : Nat
  perDim : Nat
  nCov : Nat
  sel : List Pair
  baseNames : List String
  dimNames : List String
  covNames : List String
  /-- the covariate model's `_parameter_names` -/
  stored : List String
  deriving Repr, DecidableEq

/-- the index list the constructor builds: dimension-major -/
def ctorIndices (perDim nDim : Nat) : List Pair :=
  (List.range nDim).flatMap (fun d => (List.range perDim).map (fun p => (p, d)))

/-- all pairs in flat (parameter-major) order -/
def flatPairs (perDim nDim : Nat) : List Pair :=
  (List.range perDim).flatMap (fun p => (List.range nDim).map (fun d => (p, d)))

/-- `CovariatePopulationModel.__init__`: select every pair; names
    `for name in population_model.get_parameter_names(): names += [name] * n_cov` (flat order) -/
def CovModel.construct (perDim nDim nCov : Nat) (baseNames dimNames covNames : List String) : CovModel :=
  { nDim, perDim, nCov, sel := normSel (ctorIndices perDim nDim), baseNames, dimNames, covNames,
    stored := (popFullNames nDim baseNames dimNames).flatMap (fun n => List.replicate nCov n) }

/-- `set_population_parameters` (in-range, non-empty input): names from the STORED order.
    `legacyNames = true`: pre-fix, names from the caller's order. -/
def CovModel.setPop (m : CovModel) (legacyNames : Bool) (indices : List Pair) : CovModel :=
  let sel := normSel indices
  let full := popFullNames m.nDim m.baseNames m.dimNames
  { m with sel := sel, stored := selNames m.nDim m.nCov (if legacyNames then indices else sel) full }

/-- `set_dim_names` -/
def CovModel.setDimNames (m : CovModel) (dimNames : List String) : CovModel :=
  { m with dimNames := dimNames,
           stored := selNames m.nDim m.nCov m.sel (popFullNames m.nDim m.baseNames dimNames) }

/-- `get_parameter_names(exclude_dim_names)`: population names, then the β names -/
def CovModel.parameterNames (m : CovModel) (excludeDim : Bool) : List String :=
  (if excludeDim then m.baseNames else popFullNames m.nDim m.baseNames m.dimNames)
    ++ withCovNames m.nCov m.stored m.covNames

def CovModel.nParameters (m : CovModel) : Nat := m.perDim * m.nDim + m.nCov * m.sel.length

inductive CovErr | valueError
  deriving Repr, DecidableEq

/-- `set_parameter_names(names)`: the first `n_pop` entries go to the population model (raw names,
    the dimension suffix is appended on reading), the rest to the covariate model -/
def CovModel.setNames (m : CovModel) (pop beta : List String) : CovModel :=
  { m with baseNames := pop, stored := beta }

/-- `set_parameter_names(None)` (since `51b4854`): the population model's defaults, and β names
    recomputed from them for the STORED selection -/
def CovModel.resetNames (m : CovModel) (defaults : List String) : CovModel :=
  { m with baseNames := defaults,
           stored := selNames m.nDim m.nCov m.sel (popFullNames m.nDim defaults m.dimNames) }

inductive CovOp
  | setPop (indices : List Pair)
  | setDimNames (names : List String)
  /-- `set_n_ids(n)` -/
  | setNIds (n : Nat)
  /-- `set_parameter_names(names)` split at `n_pop` -/
  | setNames (pop beta : List String)
  /-- `set_parameter_names(None)`; `defaults` = the population model's default names -/
  | resetNames (defaults : List String)
  deriving Repr

/-- one configuration call on a wrapper whose wrapped model's parameter count does not depend
    on `n_ids` (every kind but the heterogeneous one): `set_n_ids` changes nothing here -/
def CovModel.step (m : CovModel) : CovOp → CovModel
  | .setPop ix => m.setPop false ix
  | .setDimNames ns => m.setDimNames ns
  | .setNIds _ => m
  | .setNames pop beta => m.setNames pop beta
  | .resetNames d => m.resetNames d

/-! ### a wrapped `HeterogeneousModel` (one parameter row per individual): `set_n_ids` changes the
    parameter table -/

/-- default names of a heterogeneous model with `n` individuals: `'ID k'` repeated `n_dim` times -/
def hetBaseNames (n nDim : Nat) : List String :=
  (List.range n).flatMap (fun k => List.replicate nDim ("ID " ++ toString (k + 1)))

/-- wrapper state that matters here: bookkeeping, the split point `_n_pop`, and whether the
    selection is still the constructor's "all parameters" (`_all_selected`) -/
structure CovHet where
  m : CovModel
  nPopSplit : Nat
  allSelected : Bool
  deriving Repr, DecidableEq

def CovHet.construct (n nDim nCov : Nat) (dimNames covNames : List String) : CovHet :=
  ⟨CovModel.construct n nDim nCov (hetBaseNames n nDim) dimNames covNames, n * nDim, true⟩

/-- `set_population_parameters` marks the selection as the user's -/
def CovHet.setPop (h : CovHet) (indices : List Pair) : CovHet :=
  { h with m := h.m.setPop false indices, allSelected := false }

/-- `set_n_ids(n)` — the code as it is (since `ec83423`). Nothing happens when the parameter count
    does not change. Otherwise the wrapped model gets `n` rows with default names, the split
    point follows, and the selection is re-established through `set_population_parameters`:
    every pair if the user never selected (`_all_selected`, which is PRESERVED), the stored
    selection if all of it still exists; if not, `ValueError` and nothing changes. -/
def CovHet.setNIds (h : CovHet) (n : Nat) : Except CovErr CovHet :=
  if n * h.m.nDim = h.m.perDim * h.m.nDim then .ok h
  else
    let indices : Option (List Pair) :=
      if h.allSelected then some (flatPairs n h.m.nDim)
      else if h.m.sel.all (fun x => decide (x.1 < n)) then some h.m.sel
      else none
    match indices with
    | none => .error .valueError
    | some ix =>
      let m1 : CovModel := { h.m with perDim := n, baseNames := hetBaseNames n h.m.nDim }
      .ok ⟨m1.setPop false ix, n * h.m.nDim, h.allSelected⟩

/-- before `ec83423`: the wrapped model got its `n` rows, the wrapper kept `_n_pop`, selection and
    β names (kept for `C07_set_n_ids_counterexample`) -/
def CovHet.setNIdsLegacy (h : CovHet) (n : Nat) : CovHet :=
  { h with m := { h.m with perDim := n, baseNames := hetBaseNames n h.m.nDim } }

/-- one configuration call; a raising call leaves the state as it was -/
def CovHet.step (h : CovHet) : CovOp → Except CovErr CovHet
  | .setPop ix => .ok (h.setPop ix)
  | .setDimNames ns => .ok { h with m := h.m.setDimNames ns }
  | .setNIds n => h.setNIds n
  | .setNames pop beta => .ok { h with m := h.m.setNames pop beta }
  | .resetNames _ => .ok { h with m := h.m.resetNames (hetBaseNames h.m.perDim h.m.nDim) }

/-- what a raising `set_n_ids` leaves behind — the code as it is: the wrapped model is put back
    with `set_n_ids(n_before)`, and a `HeterogeneousModel` resets ITS parameter names to the
    defaults whenever its size changes, so user-chosen population names are lost (selection, β
    names, counts and split point are as before). `C07_set_n_ids_raise_counterexample`. -/
def CovHet.afterRaise (h : CovHet) : CovHet :=
  { h with m := { h.m with baseNames := hetBaseNames h.m.perDim h.m.nDim } }

def CovHet.stepKeep (h : CovHet) (o : CovOp) : CovHet :=
  match h.step o with
  | .ok h' => h'
  | .error _ => h.afterRaise

/-- `n_parameters()`: wrapped count + covariate-model count -/
def CovHet.nParameters (h : CovHet) : Nat := h.m.perDim * h.m.nDim + h.m.nCov * h.m.sel.length

/-- does an evaluation with a vector of `n_parameters()` entries get past the two reshapes?
    (`parameters[:_n_pop].reshape(_n_pop // n_dim, n_dim)` always does; `parameters[_n_pop:]`
    must have `n_selected · n_cov` entries) -/
def CovHet.evaluable (h : CovHet) : Bool :=
  decide (h.nParameters - h.nPopSplit = h.m.sel.length * h.m.nCov) && decide (h.nPopSplit ≤ h.nParameters)

/-! ## the numeric part -/

/-- what the numeric methods need of the state -/
structure CovCfg where
  nDim : Nat
  perDim : Nat
  nCov : Nat
  sel : List Pair
  deriving Repr

def CovCfg.nPop (c : CovCfg) : Nat := c.perDim * c.nDim
def CovCfg.nBeta (c : CovCfg) : Nat := c.sel.length * c.nCov
def CovCfg.nParams (c : CovCfg) : Nat := c.nPop + c.nBeta

/-- `pop_params.reshape(n_params_per_dim, n_dim)[p, d]` of `parameters[:n_pop]` -/
def CovCfg.base (c : CovCfg) (params : Nat → α) (p d : Nat) : α := params (p * c.nDim + d)

/-- `cov_params.reshape(n_selected, n_cov)[s, k]` of `parameters[n_pop:]` -/
def CovCfg.beta (c : CovCfg) (params : Nat → α) (s k : Nat) : α := params (c.nPop + s * c.nCov + k)

/-- `LinearCovariateModel.compute_population_parameters`:
    `vartheta = 0 + pop_parameters; vartheta[:, pidx, didx] += covariates @ parameters.T` -/
def covTh (c : CovCfg) (params : Nat → α) (cov : Nat → Nat → α) : Nat → Nat → Nat → α :=
  fun i p d =>
    match c.sel.idxOf? (p, d) with
    | none => c.base params p d
    | some s => c.base params p d + isum c.nCov (fun k => cov i k * c.beta params s k)

/-- `LinearCovariateModel.compute_sensitivities`, the `dpop` entry `(p, d)`:
    `np.sum(dlogp_dvartheta, axis=0)` -/
def covSensPop (nIds : Nat) (g : Nat → Nat → Nat → α) (p d : Nat) : α := isum nIds (fun i => g i p d)

/-- the `dparams` entry `(s, k)`:
    `np.sum(dlogp_dvartheta[:, pidx, didx, None] * covariates[:, None, :], axis=0)` -/
def covSensBeta (c : CovCfg) (nIds : Nat) (g : Nat → Nat → Nat → α) (cov : Nat → Nat → α)
    (s k : Nat) : α :=
  let pd := c.sel.getD s (0, 0)
  isum nIds (fun i => g i pd.1 pd.2 * cov i k)

/-- `dtheta = np.hstack([dpop, dcov])` -/
def covSens (c : CovCfg) (nIds : Nat) (g : Nat → Nat → Nat → α) (cov : Nat → Nat → α) : List α :=
  (List.range c.perDim).flatMap (fun p => (List.range c.nDim).map (fun d => covSensPop nIds g p d))
    ++ (List.range c.sel.length).flatMap (fun s =>
        (List.range c.nCov).map (fun k => covSensBeta c nIds g cov s k))

/-- entry `j` of `covSens` by position -/
def covSensAt (c : CovCfg) (nIds : Nat) (g : Nat → Nat → Nat → α) (cov : Nat → Nat → α) (j : Nat) : α :=
  if j < c.nPop then covSensPop nIds g (j / c.nDim) (j % c.nDim)
  else covSensBeta c nIds g cov ((j - c.nPop) / c.nCov) ((j - c.nPop) % c.nCov)

/-- the wrapped model's `compute_log_likelihood` on the tensor `(n_ids, n_per_dim, n_dim)`:
    every kind reads individual `i`'s own slice `ϑ_i`; `HeterogeneousModel` takes the diagonal
    `parameters[i, i, :]` (individual `i` ↔ row `i`, as `compute_individual_parameters` does) —
    this is PopModels' `popLL`. -/
def covLLcore [HasErf α] (k : Kind) (nIds nDim : Nat)
    (th : Nat → Nat → Nat → α) (obs : Nat → Nat → α) : Score α :=
  popLL k nIds nDim th obs

/-- before `04b584d` the heterogeneous model took `parameters[:, 0, :]` — row 0 for EVERY
    individual (kept for `C07_hetero_ll_counterexample`) -/
def covLLcoreLegacy [HasErf α] (k : Kind) (nIds nDim : Nat)
    (th : Nat → Nat → Nat → α) (obs : Nat → Nat → α) : Score α :=
  match k with
  | .hetero =>
    if iany2 nIds nDim (fun i d => !(le (obs i d) (th i 0 d) && le (th i 0 d) (obs i d))) then .negInf
    else .val zero
  | _ => popLL k nIds nDim th obs

/-- `CovariatePopulationModel.compute_log_likelihood` -/
def covLL [HasErf α] (k : Kind) (c : CovCfg) (nIds : Nat) (params : List α)
    (cov : Nat → Nat → α) (obs : Nat → Nat → α) : Except CovErr (Score α) :=
  if params.length ≠ c.nParams then .error .valueError
  else .ok (covLLcore k nIds c.nDim (covTh c (vecOf params) cov) obs)

/-- the pre-`04b584d` variant -/
def covLLLegacy [HasErf α] (k : Kind) (c : CovCfg) (nIds : Nat) (params : List α)
    (cov : Nat → Nat → α) (obs : Nat → Nat → α) : Except CovErr (Score α) :=
  if params.length ≠ c.nParams then .error .valueError
  else .ok (covLLcoreLegacy k nIds c.nDim (covTh c (vecOf params) cov) obs)

/-- `CovariatePopulationModel.compute_individual_parameters(..., return_eta=False)` -/
def covIndiv (k : Kind) (c : CovCfg) (nIds : Nat) (params : List α) (cov : Nat → Nat → α)
    (eta : Nat → Nat → α) : Except CovErr (List (List (PsiVal α))) :=
  if params.length ≠ c.nParams then .error .valueError
  else
    let th := covTh c (vecOf params) cov
    .ok ((List.range nIds).map (fun i => (List.range c.nDim).map (fun d =>
      indiv false k nIds c.nDim th eta i d)))

/-- the wrapped model's `compute_individual_parameters(..., return_eta=True)`: the models with
    individual-level entries hand back `eta` itself (centred or not, whatever the parameters are);
    `PooledModel` / `HeterogeneousModel` IGNORE the flag — their individual parameters are always
    the population parameters `ϑ_i[0, ·]` resp. `ϑ_i[i, ·]` -/
def indivEta (k : Kind) (th : Nat → Nat → Nat → α) (eta : Nat → Nat → α) (i d : Nat) : PsiVal α :=
  match k with
  | .pooled => .val (th i 0 d)
  | .hetero => .val (th i i d)
  | _ => .val (eta i d)

/-- `CovariatePopulationModel.compute_individual_parameters(..., return_eta=True)` — the call
    `HierarchicalLogLikelihood` / `ComposedPopulationModel` make first: `ϑ(θ, χ)` is computed and
    the wrapped model is consulted in every case -/
def covIndivEta (k : Kind) (c : CovCfg) (nIds : Nat) (params : List α) (cov : Nat → Nat → α)
    (eta : Nat → Nat → α) : Except CovErr (List (List (PsiVal α))) :=
  if params.length ≠ c.nParams then .error .valueError
  else
    let th := covTh c (vecOf params) cov
    .ok ((List.range nIds).map (fun i => (List.range c.nDim).map (fun d => indivEta k th eta i d)))

/-- `CovariatePopulationModel.compute_sensitivities`, `dtheta` part: the wrapped model's
    `dvartheta` (`g`, shape `(n_ids, n_per_dim, n_dim)`, `flattened=False`) pushed through the
    covariate model -/
def covDTheta (c : CovCfg) (nIds : Nat) (g : Nat → Nat → Nat → α) (cov : Nat → Nat → α) : List α :=
  covSens c nIds g cov

/-- the row of `ϑ_i` that IS individual `i`'s parameter for the kinds without individual-level
    entries: `ψ_i = ϑ_i[0, ·]` (pooled), `ψ_i = ϑ_i[i, ·]` (heterogeneous) -/
def ownRow (k : Kind) (i : Nat) : Nat :=
  match k with
  | .hetero => i
  | _ => 0

/-- the `reduce=True` form of `compute_sensitivities` (since `3d6f67b`): kinds with
    individual-level entries return `np.hstack((dpsi.flatten(), dtheta))`; pooled and heterogeneous
    models (`n_bottom = 0`) return the top-level block only, with the upstream `dpsi` carried
    through `ϑ_i` (`dvartheta[:, 0, :] += dpsi` resp. `dvartheta[ids, ids, :] += dpsi`). -/
def covReduced (k : Kind) (c : CovCfg) (nIds : Nat) (dpsi : Nat → Nat → α)
    (g : Nat → Nat → Nat → α) (cov : Nat → Nat → α) : List α :=
  let flatPsi := (List.range nIds).flatMap (fun i => (List.range c.nDim).map (fun d => dpsi i d))
  if k.hierarchical then flatPsi ++ covSens c nIds g cov
  else covSens c nIds (fun i p d => if p = ownRow k i then g i p d + dpsi i d else g i p d) cov

/-- before `3d6f67b`: `np.hstack((dpsi.flatten(), dtheta))` for EVERY wrapped kind
    (kept for `C07_grad_pooled_counterexample`) -/
def covReducedLegacy (c : CovCfg) (nIds : Nat) (dpsi : Nat → Nat → α)
    (g : Nat → Nat → Nat → α) (cov : Nat → Nat → α) : List α :=
  (List.range nIds).flatMap (fun i => (List.range c.nDim).map (fun d => dpsi i d))
    ++ covSens c nIds g cov

/-- `(n_bottom, n_top)` of `n_hierarchical_parameters(n_ids)` -/
def covNHier (k : Kind) (c : CovCfg) (nIds : Nat) : Nat × Nat :=
  (if k.hierarchical then nIds * c.nDim else 0, c.nParams)

/-- `Σ_i` of per-individual scores with Python's float addition (`nan` absorbs, then `-inf`) -/
def scoreSum (n : Nat) (f : Nat → Score α) : Score α :=
  (List.range n).foldl (fun acc i => Score.add acc (f i)) Score.zero

/-- the wrapped model evaluated on individual `i` ALONE with the parameters `ϑ_i`: a
    one-individual call of `popLL` whose parameters do not vary. For the heterogeneous model (one
    row per individual) the one-individual model's single row is individual `i`'s own row
    `ϑ_i[i, ·]`; for every other kind `ownRow = 0` and the parameters are `ϑ_i` unchanged. -/
def perIndividualLL [HasErf α] (k : Kind) (nDim : Nat) (th : Nat → Nat → Nat → α) (obs : Nat → Nat → α)
    (i : Nat) : Score α :=
  popLL k 1 nDim (fun _ p d => th i (p + ownRow k i) d) (fun _ d => obs i d)

/-! ## sampling as a transformation of primitive draws

`sample` loops over the rows of `ϑ` and calls the wrapped model's `sample(ϑ_i, n_samples=1,
seed=rng)` with ONE shared generator: row `i` consumes `n_dim` standard-normal draws
(`z i d`; `Generator.normal(loc, scale, (1, n_dim)) = loc + scale · standard_normal`), or one
index draw (`pick i`, heterogeneous), or nothing (pooled). -/

inductive SampleOut (α : Type) where
  | val : α → SampleOut α
  /-- `truncnorm.rvs` (scipy) is not modelled -/
  | notModelled : SampleOut α
  deriving Repr

/-- does the wrapped model's `sample` raise `ValueError` for row `i`? -/
def sampleRaises (k : Kind) (nDim : Nat) (th : Nat → Nat → Nat → α) (i : Nat) : Bool :=
  match k with
  | .gauss true => iany nDim (fun d => lt (th i 1 d) zero)
  | .gauss false => false                                  -- sigmas replaced by ones
  | .logn true => iany nDim (fun d => le (th i 1 d) zero)
  | .logn false => false
  | .trunc => iany nDim (fun d => lt (th i 1 d) zero)
  | .pooled => false
  | .hetero => false

def sampleEntry (k : Kind) (th : Nat → Nat → Nat → α) (z : Nat → Nat → α) (pick : Nat → Nat)
    (i d : Nat) : SampleOut α :=
  match k with
  | .gauss true => .val (th i 0 d + th i 1 d * z i d)
  | .gauss false => .val (ofNat 0 + ofNat 1 * z i d)
  | .logn true => .val (exp (th i 0 d + th i 1 d * z i d))
  | .logn false => .val (ofNat 0 + ofNat 1 * z i d)
  | .trunc => .notModelled
  | .pooled => .val (th i 0 d)
  | .hetero => .val (th i (pick i) d)

/-- `CovariatePopulationModel.sample(parameters, covariates, n_samples, seed)` given the
    primitive draws of `default_rng(seed)` -/
def covSample (k : Kind) (c : CovCfg) (nSamples : Nat) (params : List α) (cov : Nat → Nat → α)
    (z : Nat → Nat → α) (pick : Nat → Nat) : Except CovErr (List (List (SampleOut α))) :=
  if params.length ≠ c.nParams then .error .valueError
  else
    let th := covTh c (vecOf params) cov
    if iany nSamples (fun i => sampleRaises k c.nDim th i) then .error .valueError
    else .ok ((List.range nSamples).map (fun i => (List.range c.nDim).map (fun d =>
      sampleEntry k th z pick i d)))

end ChiModel
