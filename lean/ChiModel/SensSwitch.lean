/-!
# The sensitivity switch of a `LogLikelihood` (C03): which sensitivity columns the mechanistic model
# delivers at `evaluateS1`, after any history of `fix_parameters`, `__call__` and `evaluateS1`, and
# whether the dosing regimen is attached to the solver in use.  No Mathlib.

Modelled code (as it is, branch for branch):

* `SBMLModel.enable_sensitivities(enabled, parameter_names)` — a NEW solver (`myokit.Simulation`, built with
  `protocol=None`) whenever sensitivities are enabled, or disabled while they were on; the selected
  parameters are those of the model's own parameter list whose name is in `parameter_names`, in the
  model's order; an empty selection raises;
* `PKPDModel.enable_sensitivities` — the same, followed by `set_protocol(dosing_regimen)` whenever a new
  solver was built;
* `ReducedMechanisticModel.enable_sensitivities / has_sensitivities / fix_parameters / simulate`
  (`_fixed_params_mask`, `_empty_sensitivities`);
* `LogLikelihood.fix_parameters` (wrap, fix, unwrap when nothing is fixed), `__call__`
  (`compute_pointwise_ll`: switch off when on) and `evaluateS1` (switch on when off).
-/
namespace ChiModel.Switch

/-- the state the calls touch -/
structure St where
  /-- number of mechanistic parameters -/
  n : Nat
  /-- the mechanistic model is a `PKPDModel` (re-attaches its regimen to every new solver) -/
  pkpd : Bool
  /-- a dosing regimen has been set -/
  regimen : Bool
  /-- the likelihood holds a `ReducedMechanisticModel` around the model -/
  wrapped : Bool
  /-- `_fixed_params_mask` (all `false` = `None`) -/
  mask : List Bool
  /-- `_empty_sensitivities` of the wrapper -/
  empty : Bool
  /-- `_has_sensitivities` of the model itself -/
  on : Bool
  /-- indices (in the model's parameter list) of the columns the current solver delivers -/
  sel : List Nat
  /-- the protocol of the solver in use is the model's dosing regimen -/
  attached : Bool
  deriving Repr

def St.fixedAt (s : St) (i : Nat) : Bool := s.mask.getD i false

/-- indices of the free mechanistic parameters, in the published order
    (`ReducedMechanisticModel.parameters()` = `names[~mask]`) -/
def St.free (s : St) : List Nat := (List.range s.n).filter (fun i => !s.fixedAt i)

def init (n : Nat) (pkpd regimen : Bool) : St :=
  { n := n, pkpd := pkpd, regimen := regimen, wrapped := false, mask := List.replicate n false,
    empty := false, on := false, sel := [], attached := true }

/-- the parameters whose sensitivities are requested: all of them (`parameter_names=None`), or those of
    the model's own list whose name is among `parameter_names`, in the model's order -/
def selectCols (n : Nat) : Option (List Nat) → List Nat
  | none => List.range n
  | some l => (List.range n).filter (fun i => l.contains i)

/-- the same selection on NAMES, as the code makes it: `parameter_names` holds the names the caller knows —
    the PUBLIC names (`parameters()`, user-defined through `set_parameter_names`; `shown[i]` is the
    displayed name of the model's `i`-th parameter) — and the model's `i`-th parameter is selected when its
    public name is among them -/
def selectByNames (shown : List String) (requested : List String) : List Nat :=
  (List.range shown.length).filter (fun i => requested.contains (shown.getD i ""))

/-- what `ReducedMechanisticModel.enable_sensitivities` passes: the published names of the free parameters -/
def requestedNames (shown : List String) (free : List Nat) : List String :=
  free.map (fun i => shown.getD i "")

/-- `SBMLModel.enable_sensitivities`; `names = none` is `parameter_names=None`.  A new solver is built
    without protocol: it matches the model's regimen exactly when there is none. -/
def sbmlEnable (s : St) (enabled : Bool) (names : Option (List Nat)) : Except Unit St :=
  if !enabled then
    if s.on then .ok { s with on := false, attached := !s.regimen } else .ok s
  else
    let params := selectCols s.n names
    if params.isEmpty then .error ()
    else .ok { s with on := true, sel := params, attached := !s.regimen }

/-- `PKPDModel.enable_sensitivities`: `new_sim = enabled or (not enabled and has_sensitivities)`;
    `super().enable_sensitivities(...)`; `if new_sim: simulator.set_protocol(dosing_regimen)` -/
def pkpdEnable (s : St) (enabled : Bool) (names : Option (List Nat)) : Except Unit St :=
  let newSim := enabled || (!enabled && s.on)
  match sbmlEnable s enabled names with
  | .error e => .error e
  | .ok s' => .ok (if newSim then { s' with attached := true } else s')

def modelEnable (s : St) (enabled : Bool) (names : Option (List Nat)) : Except Unit St :=
  if s.pkpd then pkpdEnable s enabled names else sbmlEnable s enabled names

/-- `ReducedMechanisticModel.enable_sensitivities` -/
def wrapEnable (s : St) (enabled : Bool) : Except Unit St :=
  let s := { s with empty := false }
  if !enabled then modelEnable s false none
  else
    let fr := s.free
    if fr.isEmpty then
      match modelEnable s false none with
      | .error e => .error e
      | .ok s' => .ok { s' with empty := true }
    else modelEnable s true (some fr)

/-- `ReducedMechanisticModel.has_sensitivities` -/
def wrapHas (s : St) : Bool := s.empty || s.on

/-- the new mask: `mask[index] = value is not None` for every name in the dictionary -/
def updMask (n : Nat) (mask : List Bool) (upd : List (Nat × Bool)) : List Bool :=
  (List.range n).map (fun i => match upd.lookup i with
    | some b => b
    | none => mask.getD i false)

/-- `ReducedMechanisticModel.fix_parameters`: update the mask, then
    `if self.has_sensitivities() is True: self.enable_sensitivities(True)` -/
def wrapFix (s : St) (upd : List (Nat × Bool)) : Except Unit St :=
  let s := { s with mask := updMask s.n s.mask upd }
  if wrapHas s then wrapEnable s true else .ok s

/-- `LogLikelihood.fix_parameters` (mechanistic side): wrap if not wrapped, fix, and get the original
    model back when nothing is fixed (the wrapper, with its flag, is dropped) -/
def llFix (s : St) (upd : List (Nat × Bool)) : Except Unit St :=
  let s := if s.wrapped then s else { s with wrapped := true, mask := List.replicate s.n false, empty := false }
  match wrapFix s upd with
  | .error e => .error e
  | .ok s' =>
    if s'.mask.all (fun b => !b) then
      .ok { s' with wrapped := false, mask := List.replicate s'.n false, empty := false }
    else .ok s'

def llHas (s : St) : Bool := if s.wrapped then wrapHas s else s.on

def llEnable (s : St) (enabled : Bool) : Except Unit St :=
  if s.wrapped then wrapEnable s enabled else modelEnable s enabled none

/-- `LogLikelihood.__call__`: `if has_sensitivities(): enable_sensitivities(False)`, then simulate -/
def llCall (s : St) : Except Unit St := if llHas s then llEnable s false else .ok s

/-- `LogLikelihood.evaluateS1`: `if not has_sensitivities(): enable_sensitivities(True)`, then simulate -/
def llS1 (s : St) : Except Unit St := if llHas s then .ok s else llEnable s true

/-- the columns of the sensitivity array `simulate` returns in state `s`
    (`ReducedMechanisticModel.simulate`: an array with NO column while `_empty_sensitivities`) -/
def columns (s : St) : List Nat := if s.wrapped && s.empty then [] else s.sel

inductive Op where
  | fix (upd : List (Nat × Bool))
  | call
  | s1

def step (s : St) : Op → Except Unit St
  | .fix upd => llFix s upd
  | .call => llCall s
  | .s1 => llS1 s

/-- what an evaluation sees: for `evaluateS1` the delivered columns, for both whether the regimen is attached -/
inductive Seen where
  | fixed
  | plain (attached : Bool)
  | sens (cols : List Nat) (attached : Bool)
  | raised
  deriving DecidableEq, Repr

/-- run a history; one observation per operation (after a raise the state is left as it was) -/
def run : St → List Op → List Seen
  | _, [] => []
  | s, op :: ops =>
    match step s op with
    | .error _ => .raised :: run s ops
    | .ok s' =>
      (match op with
        | .fix _ => Seen.fixed
        | .call => Seen.plain s'.attached
        | .s1 => Seen.sens (columns s') s'.attached) :: run s' ops

end ChiModel.Switch
