import ChiModel.Filters
/-!
# chi/_log_pdfs.py — `PopulationFilterLogPosterior`

Flat parameter vector `x` (index form `x : Nat → α`, length `nParameters`), in the published order

```
[ population parameters (nPop) | noise scales (R, only if sigma is free) |
  simulated individuals' parameters (nS × nHdim, individual-major) |
  noise realisations (nS × R × T, individual-major, then observable, then sorted time) ]
```

The population model is a list of sub-models.  chi finds pooled / heterogeneous dimensions with
`isinstance` on the elementary models (`detect`); whether a sub-model really contributes
individual-level entries is `hier` (`n_hierarchical_dim() > 0`).  The two agree for elementary
models and disagree for a covariate- or reduced-wrapped `PooledModel`.

Prior, population density, individual-parameter transform and mechanistic model are abstract
functions (`Env`): the class only routes values between them.
-/
namespace ChiModel
namespace FP
variable {α : Type} [Add α] [Sub α] [Mul α] [Div α] [Neg α] [ScalarFns α]
open ScalarFns PF

/-- one elementary population model as the filter posterior sees it -/
structure SubModel where
  nDim : Nat
  /-- `n_hierarchical_parameters(n_samples)[1]`: number of its population parameters -/
  nTop : Nat
  /-- contributes individual-level (bottom) entries: `n_hierarchical_dim() > 0` -/
  hier : Bool
  /-- `isinstance(·, PooledModel)` ↦ `some true`, `isinstance(·, HeterogeneousModel)` ↦ `some false` -/
  detect : Option Bool
  deriving Repr, DecidableEq

/-- `[start_dim, end_dim, start_top, end_top, is_pooled]` -/
structure Special where
  a : Nat
  b : Nat
  ta : Nat
  tb : Nat
  pooled : Bool
  deriving Repr, DecidableEq

/-- `_get_special_dims`: the loop over the elementary models -/
def specialsFrom : List SubModel → Nat → Nat → List Special
  | [], _, _ => []
  | u :: us, d, t =>
    match u.detect with
    | some p => ⟨d, d + u.nDim, t, t + u.nTop, p⟩ :: specialsFrom us (d + u.nDim) (t + u.nTop)
    | none => specialsFrom us (d + u.nDim) (t + u.nTop)

structure Cfg where
  subs : List SubModel
  /-- `n_samples` -/
  nS : Nat
  /-- observables -/
  R : Nat
  /-- time points -/
  T : Nat
  sigmaFree : Bool
  logScale : Bool

def sumBy (f : SubModel → Nat) (l : List SubModel) : Nat := (l.map f).sum

def Cfg.nDim (c : Cfg) : Nat := sumBy (·.nDim) c.subs
def Cfg.nPop (c : Cfg) : Nat := sumBy (·.nTop) c.subs
/-- `population_model.n_hierarchical_dim()` -/
def Cfg.nHdim (c : Cfg) : Nat := sumBy (fun u => if u.hier then u.nDim else 0) c.subs
def Cfg.pooledDim (c : Cfg) : Nat := sumBy (fun u => if u.detect = some true then u.nDim else 0) c.subs
def Cfg.heteroDim (c : Cfg) : Nat := sumBy (fun u => if u.detect = some false then u.nDim else 0) c.subs
def Cfg.specials (c : Cfg) : List Special := specialsFrom c.subs 0 0
/-- `_n_top` -/
def Cfg.nTop (c : Cfg) : Nat := c.nPop + (if c.sigmaFree then c.R else 0)
/-- `_end_bottom` -/
def Cfg.endBottom (c : Cfg) : Nat := c.nTop + c.nS * c.nHdim
/-- `_n_parameters` -/
def Cfg.nParameters (c : Cfg) : Nat := c.nTop + c.nS * (c.nHdim + c.T * c.R)

/-! ## parsing the vector (`__call__`, first lines) -/

/-- `parameters[:n_pop]` -/
def popBlock (_c : Cfg) (x : Nat → α) : Nat → α := fun i => x i
/-- `sigma`: free → `parameters[n_pop:_n_top]`, else the fixed values -/
def sigmaOf (c : Cfg) (fixed : Nat → α) (x : Nat → α) : Nat → α :=
  fun r => if c.sigmaFree then x (c.nPop + r) else fixed r
/-- `parameters[_n_top:_end_bottom].reshape(n_samples, n_hdim)` -/
def bottomBlock (c : Cfg) (x : Nat → α) : Nat → Nat → α := fun s d => x (c.nTop + s * c.nHdim + d)
/-- `parameters[_end_bottom:].reshape(n_samples, n_observables, n_times)` -/
def epsBlock (c : Cfg) (x : Nat → α) : Nat → Nat → Nat → α :=
  fun s r j => x (c.endBottom + s * (c.R * c.T) + r * c.T + j)

/-! ## `_reshape_bottom_parameters` -/

/-- `out[lo:hi] = f` on one row (rows are index functions) -/
def sliceAssign (out : Nat → α) (lo hi : Nat) (f : Nat → α) : Nat → α :=
  fun d => if lo ≤ d ∧ d < hi then f d else out d

/-- the `for info in self._special_dims` loop on the row of simulated individual `s`;
    state = (row of `bottom_params`, `current_dim`, `shift`) -/
def reshapeLoop (top : Nat → α) (row : Nat → α) (s : Nat) :
    List Special → Nat → Nat → (Nat → α) → (Nat → α) × Nat × Nat
  | [], cur, shift, out => (out, cur, shift)
  | sp :: sps, cur, shift, out =>
    let dims := sp.b - sp.a
    -- bottom_params[:, cur:start] = bottom_parameters[:, cur-shift:start-shift]
    let out1 := sliceAssign out cur sp.a (fun d => row ((cur - shift) + (d - cur)))
    -- pooled: top[start_top:end_top];  heterogeneous: top[start_top:end_top].reshape(n_samples, dims)
    let out2 := sliceAssign out1 sp.a sp.b (fun d =>
      if sp.pooled then top (sp.ta + (d - sp.a)) else top (sp.ta + s * dims + (d - sp.a)))
    reshapeLoop top row s sps sp.b (shift + dims) out2

def reshapeBottom (c : Cfg) (top : Nat → α) (bottom : Nat → Nat → α) : Nat → Nat → α :=
  if c.nHdim = c.nDim then bottom                                         -- quick solution 1
  else if c.pooledDim = c.nDim then fun _ d => top d                      -- quick solution 2
  else if c.heteroDim = c.nDim ∧ c.specials.length = 1 then                -- quick solution 3
    fun s d => top (s * c.nDim + d)
  else fun s =>
    let r := reshapeLoop top (bottom s) s c.specials 0 0 (fun _ => ofNat 0)
    sliceAssign r.1 r.2.1 c.nDim (fun d => bottom s ((r.2.1 - r.2.2) + (d - r.2.1)))

/-- `legacy`: before commit edde12c the all-heterogeneous shortcut did not ask for a single block -/
def reshapeBottomLegacy (c : Cfg) (top : Nat → α) (bottom : Nat → Nat → α) : Nat → Nat → α :=
  if c.nHdim = c.nDim then bottom
  else if c.pooledDim = c.nDim then fun _ d => top d
  else if c.heteroDim = c.nDim then fun s d => top (s * c.nDim + d)
  else fun s =>
    let r := reshapeLoop top (bottom s) s c.specials 0 0 (fun _ => ofNat 0)
    sliceAssign r.1 r.2.1 c.nDim (fun d => bottom s ((r.2.1 - r.2.2) + (d - r.2.1)))

/-! ## `_remove_duplicates` -/

/-- loop state = (`sensitivities`, `bottom_sens`, `current_dim`, `shift`) -/
def gatherLoop (nS : Nat) (D : Nat → Nat → α) :
    List Special → Nat → Nat → (Nat → α) → (Nat → Nat → α) →
      (Nat → α) × (Nat → Nat → α) × Nat × Nat
  | [], cur, shift, sens, bs => (sens, bs, cur, shift)
  | sp :: sps, cur, shift, sens, bs =>
    let dims := sp.b - sp.a
    -- bottom_sens[:, cur-shift:start-shift] = dbottom[:, cur:start]
    let bs1 : Nat → Nat → α := fun s c =>
      if cur - shift ≤ c ∧ c < sp.a - shift then D s (cur + (c - (cur - shift))) else bs s c
    -- pooled: += sum over individuals;  heterogeneous: += dbottom[:, start:end].flatten()
    let sens1 : Nat → α := fun q =>
      if sp.ta ≤ q ∧ q < sp.tb then
        (if sp.pooled then sens q + isum nS (fun s => D s (sp.a + (q - sp.ta)))
         else sens q + D ((q - sp.ta) / dims) (sp.a + (q - sp.ta) % dims))
      else sens q
    gatherLoop nS D sps sp.b (shift + dims) sens1 bs1

/-- write `bottom_sens.flatten()` (or `dbottom.flatten()`) into `[_n_top, _end_bottom)` -/
def writeBottom (c : Cfg) (sens : Nat → α) (bs : Nat → Nat → α) : Nat → α :=
  fun q => if c.nTop ≤ q ∧ q < c.endBottom then bs ((q - c.nTop) / c.nHdim) ((q - c.nTop) % c.nHdim)
    else sens q

def removeDuplicates (c : Cfg) (sens : Nat → α) (D : Nat → Nat → α) : Nat → α :=
  if c.nHdim = c.nDim then writeBottom c sens D                           -- quick solution 1
  else if c.heteroDim = c.nDim ∧ c.specials.length = 1 then               -- quick solution 2
    fun q => if q < c.nPop then sens q + D (q / c.nDim) (q % c.nDim) else sens q
  else if c.pooledDim = c.nDim then                                       -- quick solution 3
    fun q => if q < c.nPop then sens q + isum c.nS (fun s => D s q) else sens q
  else
    let r := gatherLoop c.nS D c.specials 0 0 sens (fun _ _ => ofNat 0)
    -- bottom_sens[:, cur-shift:] = dbottom[:, cur:]
    let bs : Nat → Nat → α := fun s col =>
      if r.2.2.1 - r.2.2.2 ≤ col then D s (r.2.2.1 + (col - (r.2.2.1 - r.2.2.2))) else r.2.1 s col
    writeBottom c r.1 bs

/-! ## the abstract pieces the class routes values between -/

structure Env (τ α : Type) where
  /-- `log_prior(parameters[:_n_top])` -/
  prior : (Nat → α) → Score α
  /-- `population_model.compute_log_likelihood(pop_parameters, bottom_parameters)` -/
  popLL : (Nat → α) → (Nat → Nat → α) → Score α
  /-- `population_model.compute_individual_parameters(pop_parameters, eta)`: entry `[s, k]` -/
  indiv : (Nat → α) → (Nat → Nat → α) → Nat → Nat → α
  /-- mechanistic output for parameters `psi`, observable `r`, time `t` -/
  mech : (Nat → α) → Nat → τ → α
  /-- fixed noise scales (`sigma=`), used when `sigmaFree = false` -/
  sigmaFixed : Nat → α

/-- `np.argsort(times)` (times are unique) -/
def argsortBy {τ : Type} (lt : τ → τ → Bool) (times : List τ) (dflt : τ) : List Nat :=
  (List.range times.length).mergeSort (fun a b => !(lt (times.getD b dflt) (times.getD a dflt)))

/-- the filter handed to the constructor: a single filter or a composed one -/
inductive AnyFilt (α : Type) where
  | simple (F : Filt α)
  | comp (C : Comp α)

def AnyFilt.sortTimes (f : AnyFilt α) (ord : List Nat) : Except PErr (AnyFilt α) :=
  match f with
  | .simple F => (F.sortTimes ord).map .simple
  | .comp C => (C.sortTimes ord).map .comp

def AnyFilt.ll (f : AnyFilt α) (n : Nat) (y : Nat → Nat → Nat → α) : Except PErr (Score α) :=
  match f with
  | .simple F => F.ll n y
  | .comp C => C.ll n y

def AnyFilt.val (f : AnyFilt α) (n : Nat) (y : Nat → Nat → Nat → α) : α :=
  match f with
  | .simple F => F.val n y
  | .comp C => C.val n y

def AnyFilt.grad (f : AnyFilt α) (n : Nat) (y : Nat → Nat → Nat → α) (s r j : Nat) : α :=
  match f with
  | .simple F => F.grad n y s r j
  | .comp C => C.grad n y s r j

def AnyFilt.T (f : AnyFilt α) : Nat :=
  match f with
  | .simple F => F.T
  | .comp C => C.T

/-- simulated measurements: `y = ybar + sigma * eps` or `ybar * exp(sigma * eps)` -/
def noisy (logScale : Bool) (ybar sigma eps : α) : α :=
  if logScale then ybar * exp (sigma * eps) else ybar + sigma * eps

/-- the simulated measurements `y[s, r, j]` built in `__call__` (j indexes the SORTED times) -/
def simulated {τ : Type} (c : Cfg) (E : Env τ α) (sortedTimes : Nat → τ) (x : Nat → α) :
    Nat → Nat → Nat → α :=
  let theta := popBlock c x
  let B := reshapeBottom c theta (bottomBlock c x)
  let psi := E.indiv theta B
  fun s r j => noisy c.logScale (E.mech (psi s) r (sortedTimes j)) (sigmaOf c E.sigmaFixed x r)
    (epsBlock c x s r j)

/-- `- n_samples * n_observables * log(2 pi) / 2 - sum(eps**2) / 2` -/
def noiseTerm (c : Cfg) (x : Nat → α) : α :=
  Neg.neg (ofNat c.nS * ofNat c.R * log (two * pi) / two)
    - isum c.nS (fun s => isum c.R (fun r => isum c.T (fun j =>
        epsBlock c x s r j * epsBlock c x s r j))) / two

/-- `__call__` when every piece is a number: prior + population + noise + filter -/
def callRaw {τ : Type} (c : Cfg) (E : Env τ α) (prior pop : α) (filt : AnyFilt α)
    (sortedTimes : Nat → τ) (x : Nat → α) : α :=
  prior + pop + noiseTerm c x + filt.val c.nS (simulated c E sortedTimes x)

/-- `__call__`, with the early returns; `filt` is the constructor's (time-sorted) filter -/
def call {τ : Type} (c : Cfg) (E : Env τ α) (filt : AnyFilt α) (sortedTimes : Nat → τ)
    (x : Nat → α) : Except PErr (Score α) :=
  match E.prior x with
  | .negInf => .ok .negInf
  | p =>
    let theta := popBlock c x
    let B := reshapeBottom c theta (bottomBlock c x)
    match Score.add p (E.popLL theta B) with
    | .negInf => .ok .negInf
    | sc =>
      match filt.ll c.nS (simulated c E sortedTimes x) with
      | .error e => .error e
      | .ok f => .ok (Score.add (Score.add sc (.val (noiseTerm c x))) f)

/-- the constructor's time handling: `order = argsort(times)`, `filter.sort_times(order)`,
    `times = sort(times)` -/
def construct {τ : Type} (lt : τ → τ → Bool) (dflt : τ) (filt : AnyFilt α) (times : List τ) :
    Except PErr (AnyFilt α × (Nat → τ)) :=
  if times.length ≠ filt.T then .error .valueError
  else
    let ord := argsortBy lt times dflt
    match filt.sortTimes ord with
    | .error e => .error e
    | .ok f => .ok (f, fun j => times.getD (ord.getD j 0) dflt)

/-! ## the constructor and the CALLER's filter object

`sort_times` mutates a filter in place.  Objects are cells of a store; the constructor first makes
`self._filter = copy.deepcopy(population_filter)` (a new cell) and sorts THAT cell, so the caller's
object is left as it was and can be handed to further constructors. -/

/-- object store: filters by identity (index) -/
abbrev Heap (α : Type) := List (AnyFilt α)

/-- `obj.sort_times(order)` on the object with identity `q` -/
def sortInPlace (h : Heap α) (q : Nat) (ord : List Nat) : Except PErr (Heap α) :=
  match h[q]? with
  | none => .error .indexError
  | some g =>
    match g.sortTimes ord with
    | .error e => .error e
    | .ok g' => .ok (h.set q g')

/-- `__init__`, the statements that touch the filter `p` handed in by the caller.
    Returns the store after the call, the identity of the posterior's own filter, the sorted times. -/
def constructHeap {τ : Type} (lt : τ → τ → Bool) (dflt : τ) (h : Heap α) (p : Nat) (times : List τ) :
    Except PErr (Heap α × Nat × (Nat → τ)) :=
  match h[p]? with
  | none => .error .indexError
  | some f =>
    -- self._filter = copy.deepcopy(population_filter)
    let q := h.length
    let h1 := h ++ [f]
    if times.length ≠ f.T then .error .valueError
    else
      let ord := argsortBy lt times dflt
      -- self._filter.sort_times(np.argsort(times))
      match sortInPlace h1 q ord with
      | .error e => .error e
      | .ok h2 => .ok (h2, q, fun j => times.getD (ord.getD j 0) dflt)

/-- NOT chi: the aliasing variant "sort the caller's object, then copy it" (kept to show what the order
    of the two statements protects against) -/
def constructHeapAliased {τ : Type} (lt : τ → τ → Bool) (dflt : τ) (h : Heap α) (p : Nat)
    (times : List τ) : Except PErr (Heap α × Nat × (Nat → τ)) :=
  match h[p]? with
  | none => .error .indexError
  | some f =>
    if times.length ≠ f.T then .error .valueError
    else
      let ord := argsortBy lt times dflt
      match sortInPlace h p ord with
      | .error e => .error e
      | .ok h1 =>
        match h1[p]? with
        | none => .error .indexError
        | some g => .ok (h1 ++ [g], h1.length, fun j => times.getD (ord.getD j 0) dflt)

/-! ## `evaluateS1`: assembly of the gradient -/

structure GradEnv (α : Type) where
  /-- `log_prior.evaluateS1(...)[1]` -/
  priorGrad : Nat → α
  /-- mechanistic sensitivities `dybar_dpsi[s, j, r, k]` -/
  mechS : Nat → Nat → Nat → Nat → α
  /-- `population_model.compute_sensitivities(θ, B, dlogp_dpsi)` → `dbottom[s, d]` -/
  dbottom : (Nat → Nat → α) → Nat → Nat → α
  /-- … → `dtheta[i]` -/
  dtheta : (Nat → Nat → α) → Nat → α

/-- `ds_dpsi[s, k]` -/
def dsDpsi {τ : Type} (c : Cfg) (E : Env τ α) (G : GradEnv α) (fgrad : Nat → Nat → Nat → α)
    (x : Nat → α) : Nat → Nat → α :=
  fun s k => isum c.R (fun r => isum c.T (fun j =>
    (if c.logScale then fgrad s r j * exp (sigmaOf c E.sigmaFixed x r * epsBlock c x s r j)
     else fgrad s r j) * G.mechS s j r k))

/-- `sensitivities` before `_remove_duplicates` (`fgrad` = the filter's `ds_y`, `y` the simulated
    measurements) -/
def sensBefore {τ : Type} (c : Cfg) (E : Env τ α) (G : GradEnv α) (fgrad y : Nat → Nat → Nat → α)
    (x : Nat → α) : Nat → α :=
  let sigma := sigmaOf c E.sigmaFixed x
  let eps := epsBlock c x
  let g := dsDpsi c E G fgrad x
  fun q =>
    if q < c.nPop then G.priorGrad q + G.dtheta g q
    else if q < c.nTop then
      let r := q - c.nPop
      G.priorGrad q + isum c.nS (fun s => isum c.T (fun j =>
        if c.logScale then fgrad s r j * eps s r j * y s r j else fgrad s r j * eps s r j))
    else if q < c.endBottom then ofNat 0       -- np.empty, overwritten by _remove_duplicates
    else
      let e := q - c.endBottom
      let s := e / (c.R * c.T)
      let r := (e % (c.R * c.T)) / c.T
      let j := e % c.T
      Neg.neg (eps s r j)
        + (if c.logScale then fgrad s r j * y s r j * sigma r else fgrad s r j * sigma r)

/-- `evaluateS1(parameters)[1][q]` -/
def gradRaw {τ : Type} (c : Cfg) (E : Env τ α) (G : GradEnv α) (filt : AnyFilt α)
    (sortedTimes : Nat → τ) (x : Nat → α) : Nat → α :=
  let y := simulated c E sortedTimes x
  let fgrad := filt.grad c.nS y
  let g := dsDpsi c E G fgrad x
  removeDuplicates c (sensBefore c E G fgrad y x) (G.dbottom g)

/-! ## names and IDs -/

/-- mechanistic parameter names with the special dimensions removed -/
def bottomNamesLoop (names : List String) : List Special → Nat → List String
  | [], cur => names.drop cur
  | sp :: sps, cur => (names.drop cur).take (sp.a - cur) ++ bottomNamesLoop names sps sp.b

def epsilonNames (outputs : List String) (T : Nat) : List String :=
  outputs.flatMap (fun o => (List.range T).map (fun j => o ++ " Epsilon time " ++ toString (j + 1)))

def replicate' (n : Nat) (l : List String) : List String := (List.replicate n l).flatten

/-- `get_id()` (`unique=False`): `none` for the top block -/
def getId (c : Cfg) : List (Option Nat) :=
  List.replicate c.nTop none
    ++ (List.range c.nS).flatMap (fun s => List.replicate c.nHdim (some (s + 1)))
    ++ (List.range c.nS).flatMap (fun s => List.replicate (c.R * c.T) (some (s + 1)))

/-- `get_parameter_names(include_ids=False)`; `topNames` come from the population model,
    `Sigma <output>` is appended when sigma is free -/
def getNames (c : Cfg) (topNames mechNames outputs : List String) : List String :=
  topNames ++ (if c.sigmaFree then outputs.map (fun o => "Sigma " ++ o) else [])
    ++ replicate' c.nS (bottomNamesLoop mechNames c.specials 0)
    ++ replicate' c.nS (epsilonNames outputs c.T)

def withIds (names : List String) (ids : List (Option Nat)) : List String :=
  List.zipWith (fun n i => match i with
    | some k => "Sim. " ++ toString k ++ " " ++ n
    | none => n) names ids

/-! ## call histories on ONE posterior object: every `evaluateS1` returns a NEW array

`evaluateS1` starts with `sensitivities = np.empty(shape=self._n_parameters)`, fills that array and
returns it (the early exits return it as far as it was filled).  The caller keeps what it got — the
gradient of the current state of a sampler while the proposal is evaluated, one gradient per chain,
a list of (score, gradient) pairs — and may even write into it (`g *= -1` for a minimiser).
Arrays are cells of a store; a handle is the index of the cell. -/

/-- the arrays handed out so far, by identity: the `k`-th `evaluateS1` call returned cell `k` -/
abbrev Arrays (γ : Type) := List (List γ)

/-- what a caller does with one posterior object -/
inductive Ev (γ : Type) where
  /-- `g = posterior.evaluateS1(x)[1]`; the caller keeps `g` -/
  | s1 (x : List γ)
  /-- `posterior(x)`: a scalar, no array is handed out -/
  | call (x : List γ)
  /-- the caller overwrites the array it got from the `k`-th `evaluateS1` call -/
  | scribble (k : Nat) (v : List γ)

/-- does the event write into cell `i` from the caller's side? -/
def Ev.touches {γ : Type} : Ev γ → Nat → Bool
  | .scribble k _, i => k == i
  | _, _ => false

/-- one event.  `F x` = the content of the array `evaluateS1(x)` allocated when it returns (early
    exits: whatever they leave in it) -/
def histStep {γ : Type} (F : List γ → List γ) (h : Arrays γ) : Ev γ → Arrays γ
  | .s1 x => h ++ [F x]
  | .call _ => h
  | .scribble k v => h.set k v

/-- a call history -/
def hist {γ : Type} (F : List γ → List γ) (h : Arrays γ) (evs : List (Ev γ)) : Arrays γ :=
  evs.foldl (histStep F) h

/-- `buf[:len(w)] = w` -/
def overlay {γ : Type} (w buf : List γ) : List γ := w ++ buf.drop w.length

/-- NOT chi: ONE array allocated in `__init__`, filled and returned by every `evaluateS1` call
    (`W x` = the entries the call writes: all of them, or only the first ones on an early exit).
    Every handle is the same cell, the state is its content. -/
def histStepShared {γ : Type} (W : List γ → List γ) (buf : List γ) : Ev γ → List γ
  | .s1 x => overlay (W x) buf
  | .call _ => buf
  | .scribble _ v => v

def histShared {γ : Type} (W : List γ → List γ) (buf : List γ) (evs : List (Ev γ)) : List γ :=
  evs.foldl (histStepShared W) buf

/-! ## array / list arguments of the constructor (times, sigma, covariates) and the CALLER's containers

`self._times = np.sort(times)`, `sigma = list(sigma) … np.array(sigma)`, `covariates = np.array(covariates)`:
every container handed in is COPIED into a new cell owned by the posterior.  The caller goes on using its
containers — one covariate buffer filled again for the next cohort's posterior, a times array rescaled in
place.  Containers are cells of a store; the caller holds handles on its own cells only. -/

/-- containers by identity -/
abbrev Buffers (γ : Type) := List (List γ)

inductive BufEv (γ : Type) where
  /-- the caller writes new contents into ITS container `p` (`buf[...] = v`) -/
  | write (p : Nat) (v : List γ)
  /-- a constructor call with container `p` as an argument: `np.array(arg)` allocates a NEW cell -/
  | construct (p : Nat)

/-- does the event write into cell `i`? -/
def BufEv.writes {γ : Type} : BufEv γ → Nat → Bool
  | .write p _, i => p == i
  | .construct _, _ => false

def bufStep {γ : Type} (h : Buffers γ) : BufEv γ → Buffers γ
  | .write p v => h.set p v
  | .construct p => h ++ [h.getD p []]

def bufRun {γ : Type} (h : Buffers γ) (evs : List (BufEv γ)) : Buffers γ := evs.foldl bufStep h

/-- one posterior per cohort, the cohort's values written into the ONE container `0` before each
    constructor call -/
def cohorts {γ : Type} : List (List γ) → List (BufEv γ)
  | [] => []
  | v :: vs => .write 0 v :: .construct 0 :: cohorts vs

/-- NOT chi: `np.asarray(arg)` — the posterior keeps the caller's container itself.  State: the store
    and the handles held by the posteriors built so far. -/
def bufStepAliased {γ : Type} (σ : Buffers γ × List Nat) : BufEv γ → Buffers γ × List Nat
  | .write p v => (σ.1.set p v, σ.2)
  | .construct p => (σ.1, σ.2 ++ [p])

def bufRunAliased {γ : Type} (σ : Buffers γ × List Nat) (evs : List (BufEv γ)) : Buffers γ × List Nat :=
  evs.foldl bufStepAliased σ

/-- the `n` entries of `evaluateS1(x)[1]` as the array the caller receives -/
def gradArray {τ : Type} (c : Cfg) (E : Env τ α) (G : GradEnv α) (filt : AnyFilt α)
    (sortedTimes : Nat → τ) (dflt : α) (x : List α) : List α :=
  (List.range c.nParameters).map (gradRaw c E G filt sortedTimes (fun i => x.getD i dflt))

end FP
end ChiModel
