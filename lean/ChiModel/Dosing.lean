/-!
# Dosing: regimens → pacing events → what the simulated system receives → reported tables

Exact rational arithmetic (`Rat`): every IEEE double is a rational, so the executable model can be
driven with the bit patterns chi computes on; the harness uses dyadic inputs wherever chi's own
float operations are then exact.

Modelled, branch for branch:

* `PKPDModel.set_dosing_regimen`  (`num=None ⇒ 0`, `period=None ⇒ period=0, num=0`,
  `dose_rate = dose / duration`, `myokit.pacing.blocktrain`) and the argument checks of
  `myokit.ProtocolEvent`
* myokit's pacing semantics for one event (`pace`), stated once as a definition and validated
  against `myokit.PacingSystem` on every run; several events: the most recently started
  occurrence rules (`paceMulti`)
* `delivered`: the amount that has entered up to a time (sum over the started occurrences)
* `PredictiveModel.get_dosing_regimen(final_time)` (`eventRows`, repaired and legacy dose count)
* `ProblemModellingController._extract_dosing_regimens` (`rowsToProtocol`, `Protocol.add`)
* the two model surgeries `PKPDModel._add_dose_rate`, `_add_dose_compartment` on a small
  expression language
* objects derived from one model object (`copy`, `PredictiveModel(m, …)`, the problem controller,
  wrappers): cells that own a regimen and handles onto them (`Heap`)
-/
namespace ChiModel.Dosing

inductive Err | zeroDivision | protocolEvent | simultaneous | nonFinite | keyError
  deriving Repr, DecidableEq

/-- `myokit.ProtocolEvent` -/
structure Event where
  level : Rat
  start : Rat
  duration : Rat
  period : Rat
  multiplier : Nat
  deriving Repr, DecidableEq

/-- the argument checks of `myokit.ProtocolEvent.__init__` -/
def mkEvent (level start duration period : Rat) (multiplier : Int) : Except Err Event :=
  if start < 0 then .error .protocolEvent
  else if duration < 0 then .error .protocolEvent
  else if period < 0 then .error .protocolEvent
  else if multiplier < 0 then .error .protocolEvent
  else if period = 0 ∧ multiplier > 0 then .error .protocolEvent
  else if period > 0 ∧ duration > period then .error .protocolEvent
  else .ok ⟨level, start, duration, period, multiplier.toNat⟩

/-- what `mkEvent` guarantees -/
structure Event.Valid (e : Event) : Prop where
  start_nonneg : 0 ≤ e.start
  duration_nonneg : 0 ≤ e.duration
  period_nonneg : 0 ≤ e.period
  single : e.period = 0 → e.multiplier = 0
  fits : 0 < e.period → e.duration ≤ e.period

/-- `PKPDModel.set_dosing_regimen(dose, start, duration, period, num)` (numeric dose) -/
def regimenToEvent (dose start duration : Rat) (period : Option Rat) (num : Option Int) :
    Except Err Event :=
  let num1 : Int := match num with | none => 0 | some n => n
  let pn : Rat × Int := match period with | none => (0, 0) | some p => (p, num1)
  if duration = 0 then .error .zeroDivision
  else mkEvent (dose / duration) start duration pn.1 pn.2

/-- `ReducedMechanisticModel.set_dosing_regimen(dose, start, duration, period, num)`: all five
    arguments are handed on to the wrapped model (also `PredictiveModel.set_dosing_regimen` after
    `fix_parameters`) -/
def reducedRegimenToEvent (dose start duration : Rat) (period : Option Rat) (num : Option Int) :
    Except Err Event :=
  regimenToEvent dose start duration period num

/-- the averaging predictive models (`PosteriorPredictiveModel`, `PriorPredictiveModel`,
    `PopulationPredictiveModel`, and `PAMPredictiveModel` over `k` candidate models) hand the five
    arguments on to every predictive model they wrap -/
def averagedRegimenToEvents (k : Nat) (dose start duration : Rat) (period : Option Rat)
    (num : Option Int) : List (Except Err Event) :=
  (List.range k).map (fun _ => regimenToEvent dose start duration period num)

/-! ## what the pacing variable does -/

/-- start of the `k`-th occurrence -/
def occStart (e : Event) (k : Nat) : Rat := e.start + (k : Rat) * e.period

/-- is there a `k`-th occurrence at all? (single / finite / indefinite) -/
def scheduled (e : Event) (k : Nat) : Bool :=
  if e.period = 0 then k == 0 else (e.multiplier == 0 || decide (k < e.multiplier))

/-- index of the last occurrence that has started by `t` (for `t ≥ start`) -/
def lastIdx (e : Event) (t : Rat) : Nat :=
  if e.period = 0 then 0
  else
    let k := ((t - e.start) / e.period).floor.toNat
    if e.multiplier = 0 then k else min k (e.multiplier - 1)

/-- value of the variable bound to `pace` at time `t` (one event) -/
def pace (e : Event) (t : Rat) : Rat :=
  if t < e.start then 0
  else if t < occStart e (lastIdx e t) + e.duration then e.level else 0

/-- number of occurrences that have started by `T` -/
def nStarted (e : Event) (T : Rat) : Nat := if T < e.start then 0 else lastIdx e T + 1

/-- amount delivered by the `k`-th occurrence up to `T`: rate × time it has been running -/
def occDelivered (e : Event) (k : Nat) (T : Rat) : Rat :=
  e.level * max 0 (min (T - occStart e k) e.duration)

def sumTo (n : Nat) (f : Nat → Rat) : Rat := ((List.range n).map f).sum

/-- cumulative input up to `T` -/
def delivered (e : Event) (T : Rat) : Rat := sumTo (nStarted e T) (fun k => occDelivered e k T)

/-- several events (a protocol from a dataset): myokit lets the most recently started occurrence
    rule; when it ends the level returns to 0 even if an earlier one would still be running -/
def paceMulti (es : List Event) (t : Rat) : Rat :=
  let started := es.filter (fun e => decide (e.start ≤ t))
  let lastStart (e : Event) : Rat := occStart e (lastIdx e t)
  match started with
  | [] => 0
  | e0 :: r =>
    let best := r.foldl (fun b e => if lastStart b ≤ lastStart e then e else b) e0
    if t < lastStart best + best.duration then best.level else 0

def deliveredMulti (es : List Event) (T : Rat) : Rat := (es.map (fun e => delivered e T)).sum

/-! ## the regimen table of `PredictiveModel.get_dosing_regimen` -/

structure Row where
  time : Rat
  duration : Rat
  dose : Rat
  deriving Repr, DecidableEq

def absRat (x : Rat) : Rat := if x < 0 then -x else x

/-- the loop body for one dose event; `final = none` is `final_time=None` (∞).
    `legacy` selects the count `int(abs(final_time) // period)` of the unrepaired code. -/
def eventRows (legacy : Bool) (e : Event) (final : Option Rat) : List Row :=
  let amount := e.level * e.duration
  let beyond : Bool := match final with | some T => decide (T < e.start) | none => false
  if beyond then []
  else if e.period = 0 then [⟨e.start, e.duration, amount⟩]
  else
    let n : Nat :=
      if e.multiplier = 0 then
        match final with
        | none => 1
        | some T =>
          if legacy then (absRat T / e.period).floor.toNat
          else ((T - e.start) / e.period).floor.toNat + 1
      else e.multiplier
    let times := (List.range n).map (occStart e)
    let kept := times.filter (fun t => match final with | some T => decide (t ≤ T) | none => true)
    kept.map (fun t => ⟨t, e.duration, amount⟩)

/-- `get_dosing_regimen(final_time)`: `none` when no row is left -/
def regimenTable (legacy : Bool) (es : List Event) (final : Option Rat) : Option (List Row) :=
  let rows := es.flatMap (fun e => eventRows legacy e final)
  if rows.isEmpty then none else some rows

/-! ## dataset rows → protocol -/

/-- one row of an individual's data frame: time, dose, duration (`none` = NaN / missing) -/
structure DoseRow where
  time : Option Rat
  dose : Option Rat
  duration : Option Rat
  deriving Repr

/-- `myokit.Protocol.add`: kept sorted by start; equal starts raise -/
def protoAdd (e : Event) : List Event → Except Err (List Event)
  | [] => .ok [e]
  | f :: r =>
    if e.start < f.start then .ok (e :: f :: r)
    else if e.start = f.start then .error .simultaneous
    else match protoAdd e r with
      | .ok r' => .ok (f :: r')
      | .error x => .error x

/-- the event made from a dose row (`dose` and `time` not null); a zero duration makes numpy
    return `inf`/`nan` for the rate -/
def rowEvent (dflt : Rat) (time dose : Rat) (duration : Option Rat) : Except Err Event :=
  let d := duration.getD dflt
  if d = 0 then .error .nonFinite else mkEvent (dose / d) time d 0 0

/-- `_extract_dosing_regimens` for one individual; `dflt` is the bolus duration 0.01 -/
def rowsToProtocol (dflt : Rat) : List DoseRow → List Event → Except Err (List Event)
  | [], acc => .ok acc
  | r :: rs, acc =>
    match r.time, r.dose with
    | some t, some a =>
      match rowEvent dflt t a r.duration with
      | .error x => .error x
      | .ok e =>
        match protoAdd e acc with
        | .error x => .error x
        | .ok acc' => rowsToProtocol dflt rs acc'
    | _, _ => rowsToProtocol dflt rs acc

/-- `ProblemModellingController.set_data`: `self._dosing_regimens = None`, then — only if the
    dataset has dose information (`dose_key` not `None` and the model supports dosing) — one
    protocol per individual.  `data = none` is a dataset without dose information.  The regimens
    held before (`_prev`) play no role. -/
def setDataRegimens (dflt : Rat) (_prev : Option (List (String × List Event)))
    (data : Option (List (String × List DoseRow))) :
    Except Err (Option (List (String × List Event))) :=
  match data with
  | none => .ok none
  | some inds =>
    let rec go : List (String × List DoseRow) → Except Err (List (String × List Event))
      | [] => .ok []
      | (label, rows) :: rest =>
        match rowsToProtocol dflt rows [] with
        | .error e => .error e
        | .ok evs => match go rest with
          | .error e => .error e
          | .ok r => .ok ((label, evs) :: r)
    match go inds with
    | .error e => .error e
    | .ok r => .ok (some r)

/-- a sequence of `set_data` calls on one controller -/
def setDataRun (dflt : Rat) : Option (List (String × List Event)) →
    List (Option (List (String × List DoseRow))) → Except Err (Option (List (String × List Event)))
  | s, [] => .ok s
  | s, d :: ds => match setDataRegimens dflt s d with
    | .error e => .error e
    | .ok s' => setDataRun dflt s' ds

/-! ## the frame `set_data` holds, and the regimens the log-posteriors are built with -/

/-- one row of the data frame: its pandas row label (labels need not be unique — a frame glued from
    pieces repeats them), the individual's ID, the dose columns -/
structure FrameRow where
  label : Int
  id : String
  row : DoseRow
  deriving Repr

/-- `data[id_key].unique()`: the IDs in the order of their first appearance -/
def firstSeen : List String → List String
  | [] => []
  | a :: l => a :: (firstSeen l).filter (fun b => b != a)

/-- `self._data[[time, dose, duration]][self._data[id_key] == label]`: the rows of one individual are
    selected by a boolean mask over the ID column, in frame order; row labels play no role -/
def rowsOf (frame : List FrameRow) (id : String) : List DoseRow :=
  (frame.filter (fun r => r.id == id)).map (·.row)

/-- the individuals of a frame with their rows: what `_extract_dosing_regimens` loops over -/
def frameIndividuals (frame : List FrameRow) : List (String × List DoseRow) :=
  (firstSeen (frame.map (·.id))).map (fun id => (id, rowsOf frame id))

/-- `set_data(frame)` with dose information → `get_dosing_regimens()` -/
def frameRegimens (dflt : Rat) (frame : List FrameRow) :
    Except Err (Option (List (String × List Event))) :=
  setDataRegimens dflt none (some (frameIndividuals frame))

/-- NOT what chi does — selection of an individual's rows by row LABEL (`data.loc[labels]`): every
    row carrying the label of one of the individual's rows.  Agrees with `rowsOf` exactly when the
    labels are unique (`C10_frame_by_label`, `C10_frame_by_label_counterexample`). -/
def rowsOfByLabel (frame : List FrameRow) (id : String) : List DoseRow :=
  let labels := (frame.filter (fun r => r.id == id)).map (·.label)
  (frame.filter (fun r => labels.contains r.label)).map (·.row)

/-- the regimen on the working copy of the mechanistic model after
    `if self._dosing_regimens: model.set_dosing_regimen(self._dosing_regimens[individual])`:
    `cur` is the regimen the copy carries (at first the one the controller's model was created with,
    `none` = never dosed); an individual without dose rows has the EMPTY protocol, which is set like
    any other -/
def setFor (regs : Option (List (String × List Event))) (cur : Option (List Event)) (id : String) :
    Except Err (Option (List Event)) :=
  match regs with
  | none => .ok cur
  | some [] => .ok cur
  | some (p :: r) =>
    match (p :: r).lookup id with
    | some evs => .ok (some evs)
    | none => .error .keyError

/-- `ProblemModellingController._create_log_likelihoods(ids)`: ONE working copy for all individuals
    of the call; each `LogLikelihood` keeps its own copy of the model as it is when it is created →
    the regimen every individual's likelihood simulates with -/
def likelihoodRegimens (regs : Option (List (String × List Event))) :
    Option (List Event) → List String → Except Err (List (String × Option (List Event)))
  | _, [] => .ok []
  | cur, id :: rest =>
    match setFor regs cur id with
    | .error e => .error e
    | .ok cur' =>
      match likelihoodRegimens regs cur' rest with
      | .error e => .error e
      | .ok out => .ok ((id, cur') :: out)

/-- NOT what chi does — a working copy on which an individual's regimen is only set when it has
    events (`if regimen:` — a `myokit.Protocol` without events is falsy): an untreated individual
    inherits whatever the copy carries (`C10_likelihood_skip_empty_counterexample`) -/
def likelihoodRegimensSkipEmpty (regs : List (String × List Event)) :
    Option (List Event) → List String → List (String × Option (List Event))
  | _, [] => []
  | cur, id :: rest =>
    let cur' := match regs.lookup id with
      | some (e :: es) => some (e :: es)
      | _ => cur
    (id, cur') :: likelihoodRegimensSkipEmpty regs cur' rest

/-! ## model surgery -/

/-- the fragment of `myokit.Expression` the surgeries build -/
inductive Expr where
  | num (q : Rat)
  | var (name : String)
  | plus (a b : Expr)
  | times (a b : Expr)
  | neg (a : Expr)
  deriving Repr, DecidableEq

def Expr.eval (env : String → Rat) : Expr → Rat
  | .num q => q
  | .var n => env n
  | .plus a b => a.eval env + b.eval env
  | .times a b => a.eval env * b.eval env
  | .neg a => - a.eval env

def Expr.render : Expr → String
  | .num q => toString q
  | .var n => n
  | .plus a b => "(+," ++ a.render ++ "," ++ b.render ++ ")"
  | .times a b => "(*," ++ a.render ++ "," ++ b.render ++ ")"
  | .neg a => "(-," ++ a.render ++ ")"

/-- right-hand sides of the states, and the variable bound to `pace` -/
structure Eqs where
  rhs : List (String × Expr)
  paceVar : Option String
  deriving Repr

def Eqs.get (m : Eqs) (s : String) : Option Expr := m.rhs.lookup s

def Eqs.set (m : Eqs) (s : String) (e : Expr) : Eqs :=
  { m with rhs := m.rhs.map (fun p => if p.1 = s then (s, e) else p) }

/-- `PKPDModel._add_dose_rate`: `rhs := rhs + dose_rate`, `dose_rate` bound to pace -/
def addDoseRate (m : Eqs) (amount doseRate : String) : Eqs :=
  match m.get amount with
  | none => m
  | some old => { (m.set amount (.plus old (.var doseRate))) with paceVar := some doseRate }

/-- `PKPDModel._add_dose_compartment`: new state `depot` with `rhs = -ka * depot`,
    and `rhs(amount) := rhs(amount) + ka * depot` -/
def addDoseCompartment (m : Eqs) (amount depot ka : String) : Eqs :=
  match m.get amount with
  | none => m
  | some old =>
    let m1 := m.set amount (.plus old (.times (.var ka) (.var depot)))
    { m1 with rhs := m1.rhs ++ [(depot, .times (.neg (.var ka)) (.var depot))] }

/-- `PKPDModel.set_administration(compartment, amount_var, direct)` on the vanilla model -/
def setAdministration (m : Eqs) (amount depot ka doseRate : String) (direct : Bool) : Eqs :=
  if direct then addDoseRate m amount doseRate
  else addDoseRate (addDoseCompartment m amount depot ka) depot doseRate

/-- `PKPDModel.set_administration` always starts from the model file (`_vanilla_model.clone()`):
    the route chosen before plays no role -/
structure AdminCall where
  amount : String
  depot : String
  ka : String
  rate : String
  direct : Bool

structure PKState where
  vanilla : Eqs
  current : Eqs

def adminStep (s : PKState) (c : AdminCall) : PKState :=
  { s with current := setAdministration s.vanilla c.amount c.depot c.ka c.rate c.direct }

/-! ## objects derived from other objects -/

/-- what a model object holds: never dosed, or the events of its protocol -/
abbrev Regimen := Option (List Event)

/-- Every object that OWNS a mechanistic model (a `PKPDModel`, the copy a `PredictiveModel` makes of
    the model it is given, the copy a `ProblemModellingController` makes) is a CELL holding that
    model's regimen.  The Python objects through which a regimen is chosen or read are HANDLES
    onto cells (a `ReducedMechanisticModel` around a model, a `PopulationPredictiveModel` /
    `PosteriorPredictiveModel` / `PriorPredictiveModel` around a predictive model are further
    handles onto the cell of what they wrap). -/
structure Heap where
  nCells : Nat
  reg : Nat → Regimen
  nHandles : Nat
  cell : Nat → Nat

/-- one model holding `r`, one handle onto it -/
def Heap.init (r : Regimen) : Heap := ⟨1, fun _ => r, 1, fun _ => 0⟩

inductive DeriveOp where
  /-- `m.copy()`, `PredictiveModel(m, errs[, outputs])`, `ProblemModellingController(m, errs)`,
      `controller.get_predictive_model()`: a NEW cell carrying what the source holds now, and a
      handle onto it -/
  | copy (h : Nat)
  /-- a wrapper: another handle onto the cell of `h` -/
  | wrap (h : Nat)
  /-- `set_dosing_regimen` through handle `h` -/
  | set (h : Nat) (r : Regimen)

def DeriveOp.handle : DeriveOp → Nat
  | .copy h => h
  | .wrap h => h
  | .set h _ => h

def Heap.step (σ : Heap) : DeriveOp → Heap
  | .copy h =>
    { nCells := σ.nCells + 1
      reg := fun c => if c = σ.nCells then σ.reg (σ.cell h) else σ.reg c
      nHandles := σ.nHandles + 1
      cell := fun k => if k = σ.nHandles then σ.nCells else σ.cell k }
  | .wrap h =>
    { nCells := σ.nCells
      reg := σ.reg
      nHandles := σ.nHandles + 1
      cell := fun k => if k = σ.nHandles then σ.cell h else σ.cell k }
  | .set h r =>
    { nCells := σ.nCells
      reg := fun c => if c = σ.cell h then r else σ.reg c
      nHandles := σ.nHandles
      cell := σ.cell }

def Heap.run (σ : Heap) : List DeriveOp → Heap
  | [] => σ
  | op :: rest => (σ.step op).run rest

/-- what handle `h` reports, and what its simulated system receives -/
def Heap.regimenOf (σ : Heap) (h : Nat) : Regimen := σ.reg (σ.cell h)

/-- every handle points at an existing cell -/
def Heap.WF (σ : Heap) : Prop := ∀ k, k < σ.nHandles → σ.cell k < σ.nCells

/-- every operation goes through a handle that exists when it is carried out -/
def Heap.ValidOps : Heap → List DeriveOp → Prop
  | _, [] => True
  | σ, op :: rest => op.handle < σ.nHandles ∧ Heap.ValidOps (σ.step op) rest

/-- a regimen is chosen for cell `c` somewhere in the run (through any of its handles) -/
def Heap.Touches : Heap → List DeriveOp → Nat → Prop
  | _, [], _ => False
  | σ, op :: rest, c =>
    (match op with | .set h _ => σ.cell h = c | _ => False) ∨ Heap.Touches (σ.step op) rest c

/-- NOT what chi does — a derived object that keeps a REFERENCE to the model it was given
    (`PredictiveModel.__init__` without `mechanistic_model.copy()`): a derivation only adds a
    handle (`C10_derived_shared_counterexample`) -/
def Heap.stepShared (σ : Heap) : DeriveOp → Heap
  | .copy h => σ.step (.wrap h)
  | op => σ.step op

def Heap.runShared (σ : Heap) : List DeriveOp → Heap
  | [] => σ
  | op :: rest => (σ.stepShared op).runShared rest

/-! ## one object, regimens chosen in turn, solved again for the same parameters and times -/

/-- a call on ONE model object: a regimen is chosen (`set_dosing_regimen`, numbers or a protocol), or the
    model is solved for a request `q` (the parameter vector and the time grid: an opaque token — the
    same token = exactly the same parameters and times) -/
inductive SimCall where
  | set (r : Regimen)
  | solve (q : Nat)

/-- the regimen in force after a history of calls on an object that held `r` -/
def simRegimen (r : Regimen) : List SimCall → Regimen
  | [] => r
  | .set r' :: rest => simRegimen r' rest
  | .solve _ :: rest => simRegimen r rest

/-- what every `solve` of the history is run with, `(request, regimen)`: `simulate` resets the solver
    and runs it with the protocol attached THEN; nothing of an earlier solve is kept -/
def simTrace (r : Regimen) : List SimCall → List (Nat × Regimen)
  | [] => []
  | .set r' :: rest => simTrace r' rest
  | .solve q :: rest => (q, r) :: simTrace r rest

/-- NOT what chi does — the last solution is remembered together with its request and handed out
    again when the same request comes, and choosing a regimen does not drop it
    (`C10_resimulate_memo_counterexample`) -/
def simTraceMemo (memo : Option (Nat × Regimen)) (r : Regimen) : List SimCall → List (Nat × Regimen)
  | [] => []
  | .set r' :: rest => simTraceMemo memo r' rest
  | .solve q :: rest =>
    match memo with
    | some (q', r0) =>
      if q = q' then (q, r0) :: simTraceMemo memo r rest
      else (q, r) :: simTraceMemo (some (q, r)) r rest
    | none => (q, r) :: simTraceMemo (some (q, r)) r rest

/-- the same memo, dropped whenever a regimen is chosen: indistinguishable from no memo
    (`C10_resimulate_memo_dropped`) -/
def simTraceMemoDropped (memo : Option (Nat × Regimen)) (r : Regimen) :
    List SimCall → List (Nat × Regimen)
  | [] => []
  | .set r' :: rest => simTraceMemoDropped none r' rest
  | .solve q :: rest =>
    match memo with
    | some (q', r0) =>
      if q = q' then (q, r0) :: simTraceMemoDropped memo r rest
      else (q, r) :: simTraceMemoDropped (some (q, r)) r rest
    | none => (q, r) :: simTraceMemoDropped (some (q, r)) r rest

end ChiModel.Dosing
