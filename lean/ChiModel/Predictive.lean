import ChiModel.Seeds
/-!
# chi/_predictive_models.py — what the predictive models compute from their primitive draws  (C15)

`ChiModel/Seeds.lean` says which primitive variates every entry of a sample reads.  This file adds
what is computed from them:

* the error models' and population models' samplers as transformations of standard variates
  (`emTransform`, `popSampleStage`, `popIndivStage`);
* the value of every entry of `PredictiveModel.sample` / `PopulationPredictiveModel.sample` given a
  valuation `Z` of the primitive variates (the ideal generator as a function `Read → α`);
* the selection code of `PosteriorPredictiveModel.sample` (per-variable `sel(individual) → dropna(draw)
  → values.flatten()`, then one row index for all parameters);
* the allocation and ID shifting of `PAMPredictiveModel.sample`;
* the assembly of the returned long tables;
* `compute_individual_parameters` of the pooled and heterogeneous models for a number of drawn
  individuals different from the stored `n_ids`.
-/
namespace ChiModel.Pred
open ChiModel ChiModel.Seeds ScalarFns
variable {α : Type} [Add α] [Sub α] [Mul α] [Div α] [Neg α] [ScalarFns α]

/-! ## samplers as transformations of primitive variates -/

/-- `ErrorModel.sample`, one entry: model output `ybar`, standard-normal variates `z` -/
def emTransform (k : EM) (sig : List α) (ybar : α) (z : List α) : α :=
  let s0 := sig.getD 0 (ofNat 0)
  let s1 := sig.getD 1 (ofNat 0)
  let z0 := z.getD 0 (ofNat 0)
  let z1 := z.getD 1 (ofNat 0)
  match k with
  | .gauss => ybar + s0 * z0
  | .mult => ybar + ybar * (s0 * z0)
  | .cm => ybar + s0 * z0 + ybar * (s1 * z1)
  | .ln => ybar * exp (Neg.neg (s0 * s0) / ofNat 2 + s0 * z0)

/-- `GaussianModel.sample` / `LogNormalModel.sample`, one entry of one dimension with parameters
    `(mu, sigma)`: the centred model returns the individual parameter, the non-centred model the
    standard variate `eta` -/
def popSampleStage (logNormal centered : Bool) (mu sigma z : α) : α :=
  if centered then (if logNormal then exp (mu + sigma * z) else mu + sigma * z) else z

/-- `compute_individual_parameters`: identity for centred models, the transformation for
    non-centred ones -/
def popIndivStage (logNormal centered : Bool) (mu sigma eta : α) : α :=
  if centered then eta else (if logNormal then exp (mu + sigma * eta) else mu + sigma * eta)

/-- the individual parameter a population predictive model uses -/
def popIndividual (logNormal centered : Bool) (mu sigma z : α) : α :=
  popIndivStage logNormal centered mu sigma (popSampleStage logNormal centered mu sigma z)

/-! ## times -/

section times
variable {τ : Type}

/-- `np.sort(times)` (duplicates are kept) -/
def insertTime (lt : τ → τ → Bool) (x : τ) : List τ → List τ
  | [] => [x]
  | y :: ys => if lt y x then y :: insertTime lt x ys else x :: y :: ys

def sortTimes (lt : τ → τ → Bool) (ts : List τ) : List τ := ts.foldr (insertTime lt) []

end times

/-! ## `PredictiveModel.sample`: values -/

/-- value of one entry: the error model of its output, that model's own slice of the error
    parameters, the mechanistic output at the entry's time, the entry's own variates -/
def cellValue (kinds : List EM) (sig : List α) (ybar : Nat → Nat → α) (Z : Read → α) (c : Cell) : α :=
  emTransform (kinds.getD c.out .gauss) (sliceFor kinds sig c.out) (ybar c.out c.time) (c.noise.map Z)

/-- `(label, value)` of every entry of `PredictiveModel.sample(..., return_df=False)`;
    `ybar o t` is the mechanistic output `o` at the `t`-th smallest time -/
def predictiveValues (v : Variant) (kinds : List EM) (sig : List α) (ybar : Nat → Nat → α) (nT nS : Nat)
    (sd : SeedArg) (w : World) (Z : Read → α) : List ((Nat × Nat × Nat) × α) :=
  (predSample v kinds nT nS sd w).1.1.cells.map
    (fun c => ((c.unit, c.out, c.time), cellValue kinds sig ybar Z c))

/-! ## `PosteriorPredictiveModel.sample`: the parameter matrix and the row that is drawn -/

/-- one data variable of the posterior `xarray.Dataset`: `vals[chain][draw][individual]`, `none` is
    `NaN`; population-level variables have no individual dimension (`hasInd = false`, inner lists of
    length 1); `drawMajor` says that the variable's dimensions are ordered `(draw, chain, …)` instead
    of `(chain, draw, …)` -/
structure PostVar (α : Type) where
  hasInd : Bool
  drawMajor : Bool
  vals : List (List (List (Option α)))

/-- `.sel(individual=i)` (ignored by variables without that dimension, the `except` branch) -/
def PostVar.sel (v : PostVar α) (i : Nat) (c d : Nat) : Option α :=
  (((v.vals.getD c []).getD d []).getD (if v.hasInd then i else 0) none)

def PostVar.nChains (v : PostVar α) : Nat := v.vals.length
def PostVar.nDraws (v : PostVar α) : Nat := (v.vals.getD 0 []).length

/-- `.dropna(dim='draw')` of the selected `DataArray`: draws at which every chain has a value -/
def PostVar.kept (v : PostVar α) (i : Nat) : List Nat :=
  (List.range v.nDraws).filter (fun d => (List.range v.nChains).all (fun c => (v.sel i c d).isSome))

/-- `Dataset.sel(individual=i).dropna(dim='draw')`: draws at which every variable has a value in
    every chain -/
def keptAll (vars : List (PostVar α)) (i : Nat) : List Nat :=
  match vars with
  | [] => []
  | v :: _ => (List.range v.nDraws).filter (fun d => vars.all (fun u =>
      (List.range u.nChains).all (fun c => (u.sel i c d).isSome)))

/-- `.values.flatten()` of the selected, NaN-dropped variable: the list of `(chain, draw)` positions
    in the order in which their values are laid out -/
def PostVar.layout (v : PostVar α) (i : Nat) : List (Nat × Nat) :=
  if v.drawMajor then (v.kept i).flatMap (fun d => (List.range v.nChains).map (fun c => (c, d)))
  else (List.range v.nChains).flatMap (fun c => (v.kept i).map (fun d => (c, d)))

def PostVar.column (v : PostVar α) (i : Nat) : List (Option α) :=
  (v.layout i).map (fun cd => v.sel i cd.1 cd.2)

/-- `posterior[:, param_id] = …`: every column must have `n_chains * n_draws` entries
    (`ValueError` otherwise); the result is the list of columns -/
def posteriorColumnsLegacy (vars : List (PostVar α)) (i : Nat) : Option (List (List (Option α))) :=
  let nRows := (vars.headD ⟨false, false, []⟩).nChains * (keptAll vars i).length
  if vars.all (fun v => (v.column i).length == nRows) then some (vars.map (fun v => v.column i)) else none

/-- `.transpose('chain', 'draw', ...)`: the variable with its dimensions in the order (chain, draw, …) -/
def PostVar.canonical (v : PostVar α) : PostVar α := { v with drawMajor := false }

/-- the code as it is (b371b27): every variable is transposed to (chain, draw, …) before
    `.values.flatten()`; `posteriorColumnsLegacy` is the pre-fix code, which flattened every variable in
    its own dimension order -/
def posteriorColumns (vars : List (PostVar α)) (i : Nat) : Option (List (List (Option α))) :=
  posteriorColumnsLegacy (vars.map PostVar.canonical) i

/-- `rng.choice(posterior)`: row `idx` of the matrix -/
def posteriorRow (cols : List (List (Option α))) (idx : Nat) : List (Option α) :=
  cols.map (fun col => col.getD idx none)

/-! ## the posterior predictive model as an object that is called repeatedly -/

/-- what a `PosteriorPredictiveModel` object holds between calls: the posterior it was built with; `cache` is
    only used by the hypothetical variant `selectCached` (the code as it is keeps nothing between calls) -/
structure PostObj (α : Type) where
  vars : List (PostVar α)
  cache : Option (Option (List (List (Option α)))) := none

/-- `sample(individual=i)` up to the parameter matrix, on the object: the code as it is recomputes the matrix
    from the dataset and leaves the object unchanged -/
def PostObj.select (o : PostObj α) (i : Nat) : Option (List (List (Option α))) × PostObj α :=
  (posteriorColumns o.vars i, o)

/-- a variant that keeps the first matrix it computed (a "flatten once" cache not keyed on the individual) -/
def PostObj.selectCached (o : PostObj α) (i : Nat) : Option (List (List (Option α))) × PostObj α :=
  match o.cache with
  | some m => (m, o)
  | none => (posteriorColumns o.vars i, { o with cache := some (posteriorColumns o.vars i) })

/-- the matrices returned by a sequence of calls for the individuals `is` on one object -/
def PostObj.run (step : PostObj α → Nat → Option (List (List (Option α))) × PostObj α) :
    PostObj α → List Nat → List (Option (List (List (Option α))))
  | _, [] => []
  | o, i :: is => (step o i).1 :: PostObj.run step (step o i).2 is

/-! ## `PAMPredictiveModel.sample`: allocation and IDs -/

/-- `samples_per_model[m] = sum(model_draws == m)` -/
def pamCounts (nModels : Nat) (draws : List Nat) : List Nat :=
  (List.range nModels).map (fun m => draws.count m)

/-- the model each ID `1, 2, …` comes from: the samples of model 0 first, then those of model 1, …
    (`s['ID'] += sum(samples_per_model[:model_id])`) -/
def pamIdModels (nModels : Nat) (draws : List Nat) : List Nat :=
  (List.range nModels).flatMap (fun m => List.replicate (draws.count m) m)

/-- `weights / sum(weights)` -/
def normalise (ws : List α) : List α := ws.map (fun x => x / lsum ws)

/-! ## the returned tables -/

/-- a row of the long table: sample ID, index of the (sorted) time, observable index -/
structure Row where
  id : Nat
  time : Nat
  obs : Nat
  deriving DecidableEq, Repr

/-- `PredictiveModel.sample(return_df=True)`: for every output, for every time, all samples at once;
    the value of the row is `container[obs, time, id - 1]` -/
def predictiveTable (nOut nT nS : Nat) : List Row :=
  (List.range nOut).flatMap (fun o => (List.range nT).flatMap (fun t =>
    (List.range nS).map (fun s => ⟨s + 1, t, o⟩)))

/-- `PopulationPredictiveModel.sample(return_df=True)`: four separately flattened `(nOut, nT, n)`
    columns: IDs and times by broadcasting, names by repetition, values by `.flatten()` -/
def popIdColumn (nOut nT n : Nat) : List Nat :=
  (List.range nOut).flatMap (fun _ => (List.range nT).flatMap (fun _ => (List.range n).map (fun s => s + 1)))
def popTimeColumn (nOut nT n : Nat) : List Nat :=
  (List.range nOut).flatMap (fun _ => (List.range nT).flatMap (fun t => (List.range n).map (fun _ => t)))
def popNameColumn (nOut nT n : Nat) : List Nat :=
  (List.range nOut).flatMap (fun o => List.replicate (nT * n) o)
def popValueColumn (nOut nT n : Nat) : List (Nat × Nat × Nat) :=
  (List.range nOut).flatMap (fun o => (List.range nT).flatMap (fun t => (List.range n).map (fun s => (o, t, s))))

/-- the table: the four columns side by side; each row carries the array position its value is
    taken from -/
def popTable (nOut nT n : Nat) : List (Row × (Nat × Nat × Nat)) :=
  List.zipWith (fun r v => (r, v))
    (List.zipWith (fun it o => (⟨it.1, it.2, o⟩ : Row))
      (List.zip (popIdColumn nOut nT n) (popTimeColumn nOut nT n)) (popNameColumn nOut nT n))
    (popValueColumn nOut nT n)

/-- Prior / posterior predictive models: for every sample, for every output, all times at once
    (`sample[output_id, :, 0]` of the `k`-th draw) -/
def averagedTable (nOut nT n : Nat) : List Row :=
  (List.range n).flatMap (fun k => (List.range nOut).flatMap (fun o =>
    (List.range nT).map (fun t => ⟨k + 1, t, o⟩)))

/-- PAM: the tables of the models that got samples, IDs shifted by the samples of the previous
    models -/
def pamTable (nOut nT : Nat) : Nat → List Nat → List Row
  | _, [] => []
  | shift, cnt :: rest =>
    (if cnt = 0 then [] else (averagedTable nOut nT cnt).map (fun r => { r with id := r.id + shift }))
      ++ pamTable nOut nT (shift + cnt) rest

/-- covariate rows: one per covariate and sample, time `NaN`; dose rows: the regimen once per sample
    (`PredictiveModel`, `PopulationPredictiveModel`) -/
def covariateRows (nCov n : Nat) : List (Nat × Nat) :=
  (List.range nCov).flatMap (fun c => (List.range n).map (fun s => (s + 1, c)))
def doseRows (nDoses n : Nat) : List (Nat × Nat) :=
  (List.range n).flatMap (fun s => (List.range nDoses).map (fun j => (s + 1, j)))

/-! ## sample sizes different from the stored `n_ids` -/

/-- `PooledModel.compute_individual_parameters` (after `fix: f54d322`): broadcast to the number of
    rows of `eta` -/
def pooledIndividuals (theta : List α) (eta : List (List α)) : List (List α) := eta.map (fun _ => theta)

/-- `HeterogeneousModel.compute_individual_parameters`: pre-fix (`legacy`) the stored `(n_ids, n_dim)`
    parameters whatever was drawn; as it is (7e1e7bd) `eta` when it holds a number of individuals
    other than `n_ids`, the stored parameters otherwise (the hierarchical likelihood passes dummies) -/
def heteroIndividuals (legacy : Bool) (stored : List (List α)) (eta : List (List α)) : List (List α) :=
  if legacy then stored else if eta.length ≠ stored.length then eta else stored

/-- what `PopulationPredictiveModel.sample` uses in a heterogeneous dimension: pre-fix the result of
    `compute_individual_parameters`; as it is the drawn individuals
    (`patients[:, start:end] = eta[:, start:end]`) -/
def popPredHetero (legacy : Bool) (stored : List (List α)) (eta : List (List α)) : List (List α) :=
  if legacy then heteroIndividuals true stored eta else eta

/-- `ComposedPopulationModel.compute_individual_parameters` writes the sub-model's result into an
    array with one row per drawn individual: a broadcast `ValueError` when the row counts differ -/
def composedAccepts (legacy : Bool) (stored : List (List α)) (eta : List (List α)) : Bool :=
  (heteroIndividuals legacy stored eta).length == eta.length

/-- the loop of `PopulationPredictiveModel.sample` over the patients of a *bare* heterogeneous model:
    `measurements[..., patient_id] = …` into a container with `n` columns created by `np.empty`:
    an `IndexError` when there are more patients than columns, unwritten (garbage) columns when
    there are fewer.  Returns which columns were written. -/
def fillColumns (n : Nat) (patients : Nat) : Except String (List Bool) :=
  if patients > n then .error "indexError" else .ok ((List.range n).map (fun j => decide (j < patients)))

end ChiModel.Pred
