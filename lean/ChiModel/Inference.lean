import ChiModel.Plots
/-!
# chi/_inference.py, chi/_log_pdfs.py (`sample_initial_parameters`), chi/_predictive_models.py
  (`PosteriorPredictiveModel` read-back) — which vector position ends up under which label

A raw chain array has shape `(n_chains, n_draws, n_parameters)`.  Everything the formatting code
does with it is a *gather* along the last axis, so the model computes positions:
`Sel.one k` stands for `chains[:, :, k]` (dims chain, draw), `Sel.many ks` for `chains[:, :, ks]`
(dims chain, draw, individual).  The harness compares chi's actual arrays with the gathered ones.
-/
namespace ChiModel
namespace Inference
open Plots (uniq)

inductive IErr | valueError | typeError | keyError | indexError
  deriving Repr, DecidableEq

inductive Sel where
  | one (k : Nat)
  | many (ks : List Nat)
  deriving Repr, DecidableEq

def Sel.positions : Sel → List Nat
  | .one k => [k]
  | .many ks => ks

/-- a Python `dict` with string keys (insertion ordered) -/
abbrev Dict := List (String × Sel)

/-- `container[p] = v`: overwrite in place, or append a new key -/
def dictSet (d : Dict) (p : String) (v : Sel) : Dict :=
  if d.any (fun e => e.1 == p) then d.map (fun e => if e.1 == p then (p, v) else e)
  else d ++ [(p, v)]

/-- first loop of `SamplingController._format_chains` over `enumerate(names)`:
    a name that is a top-level name gets `chains[:, :, idp]` (a later occurrence overwrites) -/
def topPass (top : List String) : List (String × Nat) → Dict → Dict
  | [], d => d
  | (p, k) :: rest, d => topPass top rest (if top.contains p then dictSet d p (.one k) else d)

/-- `bottom_parameters`: the names that are not top-level names, in order of first appearance -/
def bottomList (top names : List String) : List String :=
  uniq (names.filter (fun p => !(top.contains p)))

/-- `mask = names == parameter` as the list of selected positions -/
def positions (p : String) (names : List String) : List Nat :=
  (names.zipIdx.filter (fun e => e.1 == p)).map (·.2)

/-- second loop: `container[p] = DataArray(chains[:, :, mask], coords individual=ids)`;
    xarray refuses a coordinate whose length differs from the axis (`ValueError`) -/
def bottomPass (names : List String) (nIds : Nat) : List String → Dict → Except IErr Dict
  | [], d => .ok d
  | p :: ps, d =>
    if (positions p names).length ≠ nIds then .error .valueError
    else bottomPass names nIds ps (dictSet d p (.many (positions p names)))

/-- `SamplingController._format_chains` as a function of (all names, top-level names, number of
    unique IDs): the variables of the dataset with the chain positions they hold -/
def formatChains (names top : List String) (nIds : Nat) : Except IErr Dict :=
  bottomPass names nIds (bottomList top names) (topPass top names.zipIdx [])

def allPositions (d : Dict) : List Nat := d.flatMap (fun e => e.2.positions)

/-! ### name / ID layouts of the posteriors -/

/-- `HierarchicalLogPosterior.get_parameter_names()`: the bottom names once per individual, then
    the population model's names -/
def hierNames (bottom top : List String) (nIds : Nat) : List String :=
  (List.replicate nIds bottom).flatten ++ top

/-- `HierarchicalLogPosterior.get_id()` -/
def hierIds (nBottomPerId nTop : Nat) (ids : List String) : List (Option String) :=
  (ids.map (fun i => List.replicate nBottomPerId (some i))).flatten ++ List.replicate nTop none

/-- `PopulationFilterLogPosterior.get_parameter_names()`: top names, the bottom names once per
    simulated individual, the epsilon names once per simulated individual -/
def filterNames (top bottom eps : List String) (nSim : Nat) : List String :=
  top ++ (List.replicate nSim bottom).flatten ++ (List.replicate nSim eps).flatten

def filterIds (nTop nBottomPerId nEpsPerId : Nat) (ids : List String) : List (Option String) :=
  List.replicate nTop none ++ (ids.map (fun i => List.replicate nBottomPerId (some i))).flatten
    ++ (ids.map (fun i => List.replicate nEpsPerId (some i))).flatten

/-- `parameters[end_bottom:].reshape(n_samples, n_observables, n_times)[s, r, j]` (`__call__` / `evaluateS1` of the
    filter posterior, `end_bottom = n_top + n_samples * n_hdim`): the position of the parameter vector that is read
    as the noise realisation of simulated individual `s`, output `r`, time `j` -/
def epsSlot (nTop nBottomPerId nSim R T s r j : Nat) : Nat :=
  nTop + nSim * nBottomPerId + (s * (R * T) + r * T + j)

/-- the slots of all noise realisations, simulated individual by individual, output by output, time by time -/
def epsSlots (nTop nBottomPerId nSim R T : Nat) : List Nat :=
  (List.range nSim).flatMap (fun s => (List.range R).flatMap (fun r =>
    (List.range T).map (fun j => epsSlot nTop nBottomPerId nSim R T s r j)))

/-! ### reading a dataset back (posterior predictive model, pointwise log-likelihood) -/

/-- `param_map`: model name ↦ name in the dataset (identity when unmapped) -/
def mapName (paramMap : List (String × String)) (n : String) : String :=
  (paramMap.lookup n).getD n

/-- the slip: looping over the map's entries and rewriting the whole name list for each entry —
    a name that was already mapped is mapped again by a later entry -/
def mapNamesSequential (paramMap : List (String × String)) (names : List String) : List String :=
  paramMap.foldl (fun ns e => ns.map (fun n => if n == e.1 then e.2 else n)) names

/-- `posterior[parameter].sel(individual=...)`, falling back to the whole variable when it has no
    individual dimension; the column of the raw chain that is read -/
def readVar (ds : Dict) (r : Option Nat) (name : String) : Except IErr Nat :=
  match ds.lookup name with
  | none => .error .valueError                 -- "cannot be found in the posterior"
  | some (.one k) => .ok k
  | some (.many ks) =>
    match r with
    | none => .error .valueError
    | some r => match ks[r]? with
      | some k => .ok k
      | none => .error .keyError

/-- `PosteriorPredictiveModel._check_parameters` + the gathering loop of `sample` /
    `_check_parameters` + `_format_posterior` of `compute_pointwise_loglikelihood`:
    for every model parameter (in model order) the chain position whose samples are used.
    `individual` is looked up in the coordinate `ids`. -/
def readback (ds : Dict) (ids : List String) (modelNames : List String)
    (paramMap : List (String × String)) (individual : Option String) : Except IErr (List Nat) :=
  let r : Except IErr (Option Nat) := match individual with
    | none => .ok (if ids.isEmpty then none else some 0)       -- default: the first ID
    | some i => match ids.idxOf? i with
      | some r => .ok (some r)
      | none => .error .valueError
  match r with
  | .error e => .error e
  | .ok r => (modelNames.map (mapName paramMap)).mapM (readVar ds r)

/-! ### initial parameters -/

/-- what the initial-point code looks at in one sub-model of the population model -/
structure SubModel where
  nDim : Nat
  /-- `isinstance(pop_model, (chi.PooledModel, chi.HeterogeneousModel))` -/
  isInst : Bool
  /-- `pop_model.n_hierarchical_dim() == 0` — the criterion behind `n_parameters` -/
  special : Bool
  deriving Repr

/-- the `dims` loop: indices of the dimensions kept as bottom-level parameters -/
def keptDims (f : SubModel → Bool) : List SubModel → Nat → List Nat
  | [], _ => []
  | m :: ms, cur =>
    if f m then keptDims f ms (cur + m.nDim)
    else List.range' cur m.nDim ++ keptDims f ms (cur + m.nDim)

def selectDims {α : Type} (dims : List Nat) (row : List α) : List α := dims.filterMap (row[·]?)

/-- one row of `HierarchicalLogPosterior.sample_initial_parameters` as it is:
    `topSample` = the row of `log_prior.sample(n)`, `popSample` = `population_model.sample(
    parameters=topSample, n_samples=n_ids, ...)` of shape `(n_ids, n_dim)`; the dimensions of
    sub-models with `n_hierarchical_dim() == 0` are dropped, the rest is flattened row-major.
    numpy refuses `initial_params[:, :n_bottom] = ...` when the widths differ. -/
def initRow {α : Type} (subs : List SubModel) (nIds : Nat) (topSample : List α)
    (popSample : List (List α)) : Except IErr (List α) :=
  let dims := keptDims (·.special) subs 0
  let bottom := (popSample.map (selectDims dims)).flatten
  -- `if n_bottom == 0: return initial_params` comes before the population model is sampled
  if nIds * dims.length = 0 then .ok topSample
  else if bottom.length ≠ nIds * dims.length then .error .valueError
  else .ok (bottom ++ topSample)

/-- the pre-fix row (1cc8bcf): special dimensions found with `isinstance` while the width of the
    bottom block follows `n_hierarchical_dim()`; kept for the counterexample theorem -/
def initRowLegacy {α : Type} (subs : List SubModel) (nIds : Nat) (topSample : List α)
    (popSample : List (List α)) : Except IErr (List α) :=
  let dims := keptDims (·.isInst) subs 0
  let bottom := (popSample.map (selectDims dims)).flatten
  if nIds * (keptDims (·.special) subs 0).length = 0 then .ok topSample
  else if bottom.length ≠ nIds * (keptDims (·.special) subs 0).length then .error .valueError
  else .ok (bottom ++ topSample)

/-- one row of `PopulationFilterLogPosterior.sample_initial_parameters` (uses
    `n_hierarchical_dim() == 0`): top, bottom, noise realisations -/
def initRowFilter {α : Type} (subs : List SubModel) (topSample : List α) (popSample : List (List α))
    (eps : List α) : List α :=
  topSample ++ (popSample.map (selectDims (keptDims (·.special) subs 0))).flatten ++ eps

/-! ### optimisation table -/

structure TRow (α : Type) where
  id : Option String
  param : String
  est : α
  score : α
  run : Nat
  deriving Repr

/-- `OptimisationController.run`: per run the block `(ID, Parameter, Estimate, Score, Run)` -/
def optTable {α : Type} (ids : List (Option String)) (names : List String)
    (runs : List (List α × α)) : List (TRow α) :=
  runs.zipIdx.flatMap (fun e =>
    (ids.zip (names.zip e.1.1)).map (fun x => ⟨x.1, x.2.1, x.2.2, e.1.2, e.2 + 1⟩))

/-! ### one object, several calls; seeds -/

/-- `PosteriorPredictiveModel.sample` called repeatedly on ONE object for a sequence of individuals.
    The object's state between calls is the formatted parameter matrix it may keep
    (`cached = false` is the code as it is: the matrix is rebuilt from the dataset on every call;
    `cached = true` keeps the first call's matrix, the slip of an un-keyed cache). -/
def readbackSeq (cached : Bool) (ds : Dict) (ids : List String) (modelNames : List String)
    (paramMap : List (String × String)) :
    List (Option String) → Option (List Nat) → List (Except IErr (List Nat))
  | [], _ => []
  | ind :: rest, cache =>
    match (if cached then cache else none) with
    | some cols => .ok cols :: readbackSeq cached ds ids modelNames paramMap rest cache
    | none =>
      let r := readback ds ids modelNames paramMap ind
      let cache' := match r with
        | .ok cols => if cached then some cols else none
        | .error _ => cache
      r :: readbackSeq cached ds ids modelNames paramMap rest cache'

/-- where the draws of `log_prior.sample` come from -/
inductive PriorStream where
  | seeded (s : Nat)      -- numpy's global generator right after `np.random.seed(s)`
  | ambient (g : Nat)     -- the global generator in whatever state `g` earlier code left it
  deriving Repr, DecidableEq

/-- `np.random.seed(seed)` at the top of every `sample_initial_parameters`.
    `truthyGuard = false` is the code as it is (unconditional; `seed=None` reseeds from entropy,
    i.e. no reproducibility is promised); `truthyGuard = true` is the slip `if seed:` -/
def priorStream (truthyGuard : Bool) (seed : Option Nat) (g : Nat) : PriorStream :=
  match seed with
  | none => .ambient g
  | some s => if truthyGuard && s == 0 then .ambient g else .seeded s

/-- `rng = np.random.default_rng(seed + 1)` for the population model and the noise realisations -/
def populationStream (seed : Option Nat) : Option Nat := seed.map (· + 1)


/-! ### optimisation table: the two label columns, runs that break down -/

/-- `log_posterior.get_id()`: one label (or `None`) for an individual `LogPosterior`, a list with
    one entry per parameter for hierarchical / population-filter posteriors -/
inductive PostId where
  | scalar (i : Option String)
  | perParam (ids : List (Option String))
  deriving Repr

/-- the per-run frame of `OptimisationController.run`, restricted to its two label columns
    (`none` = missing value).  It is created with its columns but without rows. -/
structure LabelFrame where
  nrows : Nat
  idCol : List (Option String)
  paramCol : List (Option String)
  deriving Repr, DecidableEq

def LabelFrame.empty : LabelFrame := ⟨0, [], []⟩

/-- `run_result['ID'] = log_posterior.get_id()` (pandas): a scalar is broadcast over the rows the
    frame has at that moment (none, on a frame without rows); a list gives a frame without rows its
    rows (the other columns are filled with missing values) and must otherwise have one entry per row -/
def LabelFrame.setId (f : LabelFrame) : PostId → Except IErr LabelFrame
  | .scalar i => .ok { f with idCol := List.replicate f.nrows i }
  | .perParam ids =>
    if f.nrows = 0 then .ok ⟨ids.length, ids, List.replicate ids.length none⟩
    else if ids.length = f.nrows then .ok { f with idCol := ids }
    else .error .valueError

/-- `run_result['Parameter'] = log_posterior.get_parameter_names()` -/
def LabelFrame.setParam (f : LabelFrame) (names : List String) : Except IErr LabelFrame :=
  if f.nrows = 0 then .ok ⟨names.length, List.replicate names.length none, names.map some⟩
  else if names.length = f.nrows then .ok { f with paramCol := names.map some }
  else .error .valueError

/-- the two label assignments at the top of `OptimisationController.run`.
    `idFirst = false` is the code as it is (parameter names, then the ID);
    `idFirst = true` is the slip of exchanging the two statements -/
def labelColumns (idFirst : Bool) (pid : PostId) (names : List String) : Except IErr LabelFrame :=
  if idFirst then (LabelFrame.empty.setId pid) >>= (·.setParam names)
  else (LabelFrame.empty.setParam names) >>= (·.setId pid)

/-- what one optimisation run hands back: `(estimates, score)`, or nothing — it broke down -/
abbrev Outcome (α : Type) := Option (List α × α)

/-- the values written into the blocks of the runs, in run order; `last` are the values the local
    variables `estimates`, `score` hold when the run starts.
    `hoisted = false` is the code as it is: the `except` branch of every run fills `nan`;
    `hoisted = true` is the slip of setting the `nan` defaults once, before the loop (`except: pass`):
    the variables then still hold what the last finished run left in them -/
def resolveRuns {α : Type} (hoisted : Bool) (nan : α) (K : Nat) :
    List (Outcome α) → (List α × α) → List (List α × α)
  | [], _ => []
  | some e :: rest, _ => e :: resolveRuns hoisted nan K rest e
  | none :: rest, last =>
    (if hoisted then last else (List.replicate K nan, nan)) :: resolveRuns hoisted nan K rest last

/-- `OptimisationController.run` as a function of the posterior's labels and the runs' outcomes -/
def optTableOutcomes {α : Type} (hoisted idFirst : Bool) (nan : α) (pid : PostId)
    (names : List String) (outs : List (Outcome α)) : Except IErr (List (TRow α)) :=
  match labelColumns idFirst pid names with
  | .error e => .error e
  | .ok f => .ok (optTable f.idCol names
      (resolveRuns hoisted nan names.length outs (List.replicate names.length nan, nan)))

/-! ### one `PredictiveModel`, several consumers with their own name maps -/

/-- what happens to ONE `PredictiveModel` object: a `PosteriorPredictiveModel` with the given
    `param_map` is built from it, or the `obj`-th object built so far is used (sampled from) -/
inductive PEvent where
  | construct (paramMap : List (String × String))
  | use (obj : Nat)
  deriving Repr

/-- the (mapped) names every `use` reads, in order.  State: the predictive model's own name list
    and the name lists of the objects built so far.
    `aliased = false` is the code as it is: `get_parameter_names()` hands out a copy, which
    `_check_parameters` rewrites and keeps;
    `aliased = true` is the slip of handing out the list itself: the rewrite lands in the one list
    that the predictive model and all objects built from it then share -/
def sharedRun (aliased : Bool) :
    List PEvent → List String → List (List String) → List (Option (List String))
  | [], _, _ => []
  | .construct pm :: rest, pred, objs =>
    let mine := pred.map (mapName pm)
    if aliased then sharedRun aliased rest mine (objs.map (fun _ => mine) ++ [mine])
    else sharedRun aliased rest pred (objs ++ [mine])
  | .use j :: rest, pred, objs => objs[j]? :: sharedRun aliased rest pred objs

/-- the maps of the construct events, in order -/
def constructMaps : List PEvent → List (List (String × String))
  | [] => []
  | .construct pm :: rest => pm :: constructMaps rest
  | .use _ :: rest => constructMaps rest


/-! ### `chain` / `draw` coordinates: datasets derived from the one a controller returns

`_format_chains` labels the chains and draws `0..n-1`.  Users discard the warm-up
(`.sel(draw=slice(k, None))`), thin the draws, keep a subset of the chains, or number the draws on from
an earlier run before the dataset is fed to `compute_pointwise_loglikelihood` / a
`PosteriorPredictiveModel`.  An axis of such a dataset is a list of (label, raw position): the label is
the coordinate value, the raw position says which slice of the raw chain array sits there. -/

abbrev Axis := List (Nat × Nat)

/-- the coordinates `_format_chains` gives: `list(range(n))` -/
def Axis.ofRange (n : Nat) : Axis := (List.range n).map (fun i => (i, i))

def Axis.labels (ax : Axis) : List Nat := ax.map (·.1)
def Axis.sources (ax : Axis) : List Nat := ax.map (·.2)

/-- `.sel(dim=l)`: the raw position stored under the label `l` -/
def Axis.find (ax : Axis) (l : Nat) : Option Nat := (ax.find? (fun e => e.1 == l)).map (·.2)

/-- what is done to one dimension of the dataset (xarray, increasing integer labels) -/
inductive DOp where
  /-- `.sel(dim=[l, ...])`: the listed labels, `KeyError` for a label that is not there -/
  | selLabels (ls : List Nat)
  /-- `.sel(dim=slice(k, None))`: the labels `≥ k` (warm-up removed) -/
  | fromLabel (k : Nat)
  /-- `.isel(dim=slice(start, None, step))`: every `step`-th position from `start` on -/
  | thin (start step : Nat)
  /-- `.assign_coords(dim=labels + off)`: numbered on from where an earlier run stopped -/
  | shift (off : Nat)
  deriving Repr, DecidableEq

def DOp.isShift : DOp → Bool
  | .shift _ => true
  | _ => false

def selOne (ax : Axis) (l : Nat) : Except IErr (Nat × Nat) :=
  match ax.find l with
  | some p => .ok (l, p)
  | none => .error .keyError

def thinAxis (start step : Nat) (ax : Axis) : Axis :=
  (ax.zipIdx.filter (fun e => decide (start ≤ e.2) && (e.2 - start) % step == 0)).map (·.1)

def DOp.apply : DOp → Axis → Except IErr Axis
  | .selLabels ls, ax => ls.mapM (selOne ax)
  | .fromLabel k, ax => .ok (ax.filter (fun e => decide (k ≤ e.1)))
  | .thin start step, ax => if step = 0 then .error .valueError else .ok (thinAxis start step ax)
  | .shift off, ax => .ok (ax.map (fun e => (e.1 + off, e.2)))

/-- one step: the dimension (`true` = chain, `false` = draw) and the operation -/
abbrev DStep := Bool × DOp

/-- the (chain axis, draw axis) of the derived dataset -/
def derive : List DStep → Axis × Axis → Except IErr (Axis × Axis)
  | [], g => .ok g
  | (true, op) :: rest, g =>
    match op.apply g.1 with
    | .error e => .error e
    | .ok c => derive rest (c, g.2)
  | (false, op) :: rest, g =>
    match op.apply g.2 with
    | .error e => .error e
    | .ok d => derive rest (g.1, d)

/-- the axis `compute_pointwise_loglikelihood` puts on its result: slice `i` of the result is
    computed from slice `i` of the dataset (positional loop) and labelled
    `relabel = false` (the code as it is) with the dataset's own coordinate,
    `relabel = true` (the slip of rebuilding the coordinates from the shape) with `i` -/
def resultAxis (relabel : Bool) (ax : Axis) : Axis :=
  if relabel then ax.zipIdx.map (fun e => (e.2, e.1.2)) else ax

/-- `.sel(chain=c, draw=d)` on (chain axis, draw axis): the raw (chain, draw) position found there -/
def entrySource (g : Axis × Axis) (c d : Nat) : Option (Nat × Nat) :=
  match g.1.find c, g.2.find d with
  | some pc, some pd => some (pc, pd)
  | _, _ => none

/-- the rows of the parameter matrix a `PosteriorPredictiveModel` draws from
    (`.transpose('chain', 'draw', ...).values.flatten()`): chain-major raw positions -/
def matrixRows (g : Axis × Axis) : List (Nat × Nat) :=
  g.1.flatMap (fun c => g.2.map (fun d => (c.2, d.2)))


end Inference
end ChiModel
