import ChiModel.LogLik
/-!
# chi/_log_pdfs.py — the outer shell of `evaluateS1` of the three posterior classes

`LogPosterior`, `HierarchicalLogPosterior` and `PopulationFilterLogPosterior` evaluate the log-prior first and
leave early when it is `-inf` (a proposal outside the support of the prior). What they hand back as the gradient
on that early exit differs per class, because the prior lives on different parts of the parameter vector:

* `LogPosterior`: the prior is defined on ALL parameters — its own sensitivities are a full-length gradient;
* `HierarchicalLogPosterior`: the vector is `(individual-level entries | top-level entries)` and the prior is
  defined on the top-level entries only — a new array `np.full(len(parameters), inf)` is returned;
* `PopulationFilterLogPosterior`: the vector is `(top-level entries | individual-level entries | noise)`; a
  buffer of `n_parameters` entries is allocated first, the prior's sensitivities are written into its head and
  the buffer is returned at every exit.

The log-likelihood (population model, error models) is evaluated only afterwards; a `-inf` from there does
not leave early in the first two classes (the sum is returned with the full gradient).

Modelled over lists; the arithmetic on the entries is abstract. No Mathlib.
-/
namespace ChiModel.PosteriorS1
variable {α : Type} [Add α]

/-- what an `evaluateS1` hands back: the score and the gradient array -/
structure S1 (α : Type) where
  score : Score α
  grad : List α

/-- `a += b` on 1-d numpy arrays: equal lengths add entry by entry, a length-1 `b` is broadcast, anything
    else raises (`operands could not be broadcast together`); the result has `a`'s length -/
def iadd (a b : List α) : Except Err (List α) :=
  if b.length = a.length then .ok (List.zipWith (· + ·) a b)
  else match b with
    | [v] => .ok (a.map (· + v))
    | _ => .error .shapeMismatch

/-- `a[off:] += b` -/
def iaddFrom (off : Nat) (a b : List α) : Except Err (List α) :=
  match iadd (a.drop off) b with
  | .ok t => .ok (a.take off ++ t)
  | .error e => .error e

/-- `a[:k] = b` (assignment into a slice: same broadcasting rules) -/
def assignHead (k : Nat) (a b : List α) : Except Err (List α) :=
  let k' := min k a.length
  if b.length = k' then .ok (b ++ a.drop k')
  else match b with
    | [v] => .ok (List.replicate k' v ++ a.drop k')
    | _ => .error .shapeMismatch

/-- `np.isinf(score)` for a log-density -/
def isInf : Score α → Bool
  | .negInf => true
  | _ => false

/-- `LogPosterior.evaluateS1(parameters)` -/
def plain (prior : S1 α) (ll : Unit → S1 α) : Except Err (S1 α) :=
  if isInf prior.score then .ok prior
  else
    let l := ll ()
    match iadd prior.grad l.grad with
    | .ok g => .ok ⟨Score.add prior.score l.score, g⟩
    | .error e => .error e

/-- `HierarchicalLogPosterior.evaluateS1(parameters)`: `prior` is the log-prior evaluated at
    `parameters[n_bottom:]`, `inf` the fill value of the early exit -/
def hierarchical (inf : α) (nBottom : Nat) (parameters : List α) (prior : S1 α) (ll : Unit → S1 α) :
    Except Err (S1 α) :=
  if isInf prior.score then .ok ⟨prior.score, List.replicate parameters.length inf⟩
  else
    let l := ll ()
    match iaddFrom nBottom l.grad prior.grad with
    | .ok g => .ok ⟨Score.add l.score prior.score, g⟩
    | .error e => .error e

/-- the variant that hands back the prior's own sensitivities on the early exit, as `LogPosterior` does
    (NOT chi's code; the subject of `C17_hier_prior_sens_iff`) -/
def hierarchicalPriorSens (nBottom : Nat) (prior : S1 α) (ll : Unit → S1 α) : Except Err (S1 α) :=
  if isInf prior.score then .ok prior
  else
    let l := ll ()
    match iaddFrom nBottom l.grad prior.grad with
    | .ok g => .ok ⟨Score.add l.score prior.score, g⟩
    | .error e => .error e

/-- `PopulationFilterLogPosterior.evaluateS1(parameters)`: `buffer = np.empty(n_parameters)`, the prior is
    evaluated at `parameters[:n_top]` and written to `buffer[:n_top]`; `rest` stands for everything after the
    early exit (noise, filter and population terms), which writes into the buffer it is given -/
def filter (nTop : Nat) (buffer : List α) (prior : S1 α) (rest : List α → S1 α) : Except Err (S1 α) :=
  match assignHead nTop buffer prior.grad with
  | .error e => .error e
  | .ok b => if isInf prior.score then .ok ⟨prior.score, b⟩ else .ok (rest b)

end ChiModel.PosteriorS1
