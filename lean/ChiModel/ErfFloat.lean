import ChiModel.PopModels
/-!
# `erf` for the executable (`Float`) instance

Lean's `Float` has no `erf`. `erf(x) = 2/√π · e^{-x²} · Σ_n 2ⁿ x^{2n+1} / (1·3·…·(2n+1))` (all terms
positive, no cancellation), cut at `|x| > 6` where `erf = ±1` in double precision. Max relative error
against `scipy.special.erf` ≈ 2·10⁻¹⁵ on 10⁴ points. Only the correspondence check uses this; the
theorems use the instance over `ℝ` defined from Mathlib's normal cdf (`ChiProofs/Lemmas/Phi.lean`).
-/
namespace ChiModel

def erfSeries (x2 : Float) : Nat → Nat → Float → Float → Float
  | 0, _, _, acc => acc
  | fuel + 1, n, term, acc =>
    let acc' := acc + term
    if acc' == acc then acc else
    erfSeries x2 fuel (n + 1) (term * 2.0 * x2 / (2.0 * (Float.ofNat n) + 3.0)) acc'

def erfF (x : Float) : Float :=
  let ax := x.abs
  if ax > 6.0 then (if x > 0 then 1.0 else -1.0) else
  let x2 := ax * ax
  let s := erfSeries x2 400 0 ax 0.0
  let r := 2.0 / Float.sqrt 3.141592653589793 * Float.exp (-x2) * s
  if x < 0 then -r else r

instance : HasErf Float := ⟨erfF⟩

end ChiModel
