import ChiModel.Covariate
/-!
# Names, IDs and counts of a hierarchical log-likelihood, all levels and top level only
(`HierarchicalLogLikelihood.get_parameter_names / get_id / n_parameters`, to which
`HierarchicalLogPosterior` delegates)

The parameter vector is `(individual 1's parameters | … | individual n's parameters | population parameters)`.
`exclude_bottom_level=True` keeps the population block only: `names[self._n_bottom:]`. The population block
may be EMPTY (a `ReducedPopulationModel` with every parameter fixed: the population distribution is known and
only individual-level parameters are inferred).

Also here: the number of parameters of a covariate model after `set_population_parameters` with a selection
that lists `[param, dim]` pairs repeatedly (the selection normaliser itself is `Covariate.normSel`).

No Mathlib.
-/
namespace ChiModel.TopLevel

/-- Python `l[k:]` for `k ≥ 0` -/
def sliceFrom {α : Type} (k : Nat) (l : List α) : List α := l.drop k

/-- Python `l[-k:]` for `k ≥ 0`. For `k = 0` the start index is `-0 = 0`: the WHOLE list, not the empty one. -/
def sliceLast {α : Type} (k : Nat) (l : List α) : List α := if k = 0 then l else l.drop (l.length - k)

/-- what the name bookkeeping of a hierarchical log-likelihood consists of -/
structure HLL where
  /-- the individuals' IDs, in order -/
  ids : List String
  /-- one individual's parameter names (the individual likelihood's names without the pooled and
      heterogeneous dimensions) -/
  bottom : List String
  /-- the population model's (free) parameter names -/
  top : List String
  deriving Repr, DecidableEq

/-- `_n_bottom` -/
def HLL.nBottom (h : HLL) : Nat := h.ids.length * h.bottom.length

/-- `n_parameters(exclude_bottom_level)` -/
def HLL.nParameters (h : HLL) (excludeBottom : Bool) : Nat :=
  if excludeBottom then h.top.length else h.nBottom + h.top.length

/-- the individual-level part of `get_id()`: every individual's ID once per individual-level name -/
def HLL.bottomIds (h : HLL) : List (Option String) :=
  h.ids.flatMap (fun i => List.replicate h.bottom.length (some i))

/-- `get_id()`: then `None` per population parameter -/
def HLL.getId (h : HLL) : List (Option String) := h.bottomIds ++ List.replicate h.top.length none

/-- `if ids[idn]: name = ids[idn] + ' ' + name` (Python truthiness: `None` and `''` add nothing) -/
def prefixName (id : Option String) (name : String) : String :=
  match id with
  | none => name
  | some i => if i.isEmpty then name else i ++ " " ++ name

/-- `names * n_ids + population_model.get_parameter_names()` -/
def HLL.rawNames (h : HLL) : List String := (List.replicate h.ids.length h.bottom).flatten ++ h.top

/-- the name list before the level is chosen -/
def HLL.allNames (h : HLL) (includeIds : Bool) : List String :=
  if includeIds then List.zipWith prefixName h.getId h.rawNames else h.rawNames

/-- `get_parameter_names(exclude_bottom_level, include_ids)` — the code as it is: `names[self._n_bottom:]` -/
def HLL.parameterNames (h : HLL) (excludeBottom includeIds : Bool) : List String :=
  if excludeBottom then sliceFrom h.nBottom (h.allNames includeIds) else h.allNames includeIds

/-- the variant that counts from the END: `names[-n_top:]` with `n_top = population_model.n_parameters()`
    (kept for `C17_top_names_from_end_counterexample`) -/
def HLL.parameterNamesFromEnd (h : HLL) (excludeBottom includeIds : Bool) : List String :=
  if excludeBottom then sliceLast h.top.length (h.allNames includeIds) else h.allNames includeIds

/-! ## covariate model: number of parameters after a selection -/

/-- `LinearCovariateModel.n_parameters()` after `set_population_parameters(indices)`: the number of STORED
    (distinct) pairs times the number of covariates -/
def covNParameters (nCov : Nat) (indices : List Pair) : Nat := nCov * (normSel indices).length

/-- the variant that counts the caller's list (kept for `C17_selection_raw_count_counterexample`) -/
def covNParametersRaw (nCov : Nat) (indices : List Pair) : Nat := nCov * indices.length

/-- default names `'Param. k'`, each `n_cov` times, for the `nSelected` the model believes it has -/
def covDefaultNames (nCov nSelected : Nat) : List String :=
  (List.range nSelected).flatMap (fun k => List.replicate nCov ("Param. " ++ toString (k + 1)))

end ChiModel.TopLevel
