import ChiModel.ShapeEta
/-!
# The population-level names that `HierarchicalLogLikelihood.get_parameter_names` publishes

`get_parameter_names` of a hierarchical log-likelihood ends with `population_model.get_parameter_names()`.
Those names are STATE of the population model: every elementary model keeps a list `_parameter_names`
(one raw name per population parameter) and a list `_dim_names`; `get_parameter_names` appends
`dim_names[name_id % n_dim]` to raw name `name_id`. A `CovariatePopulationModel` keeps in addition the
raw names of the covariate coefficients (the published name of the transformed population parameter,
`n_cov` times), to which `cov_names[name_id % n_cov]` is appended. The state is changed by

* `set_parameter_names(names)`     (`rename`)
* `set_parameter_names(None)`      (`reset`: "names are reset to defaults")
* `set_dim_names(names)`           (`setDims`; a covariate wrapper re-derives its coefficient names)
* `set_n_ids(n)`                   (`setNIds`; a heterogeneous model rebuilds its names when `n` changes)

and a `ComposedPopulationModel` hands the calls on to its sub-models (slices of the name list by
`n_parameters()` / `n_dim()` of the sub-models); at construction it enumerates the dimensions
`Dim. 1 … Dim. D` when the names of its sub-models are not unique. A `ReducedPopulationModel`
publishes the names of the free parameters only and renames through the mask.

The layout that matters for C02: the population parameters of a heterogeneous model are stored
individual by individual (`[ID 1 dim 1, ID 1 dim 2, ID 2 dim 1, …]`, the order in which
`SubModel.th` reads them: `top (p * nDim + d)`), so the default raw names are
`['ID 1'] * n_dim + ['ID 2'] * n_dim + …`.  No Mathlib.
-/
namespace ChiModel
namespace TopNames

/-- `'ID %d' % (i + 1)` -/
def idLabel (i : Nat) : String := "ID " ++ toString (i + 1)
/-- `'Dim. %d' % (d + 1)` -/
def dimLabel (d : Nat) : String := "Dim. " ++ toString (d + 1)
/-- `'Cov. %d' % (c + 1)` -/
def covLabel (c : Nat) : String := "Cov. " ++ toString (c + 1)

def defaultDims (nDim : Nat) : List String := (List.range nDim).map dimLabel

/-- what the raw default name of population parameter row `p` (0 = location, 1 = scale; pooled: 0;
    heterogeneous: the individual) SAYS -/
def label : Kind → Nat → String
  | .gauss _, p => if p = 0 then "Mean" else "Std."
  | .logn _, p => if p = 0 then "Log mean" else "Log std."
  | .trunc, p => if p = 0 then "Mu" else "Sigma"
  | .pooled, _ => "Pooled"
  | .hetero, p => idLabel p

/-- `_parameter_names` as `set_parameter_names(None)` / `set_n_ids` build them, loop for loop -/
def defaultRaw (k : Kind) (nDim nIds : Nat) : List String :=
  match k with
  | .gauss _ => List.replicate nDim "Mean" ++ List.replicate nDim "Std."
  | .logn _ => List.replicate nDim "Log mean" ++ List.replicate nDim "Log std."
  | .trunc => List.replicate nDim "Mu" ++ List.replicate nDim "Sigma"
  | .pooled => List.replicate nDim "Pooled"
  | .hetero => (List.range nIds).flatMap (fun i => List.replicate nDim (idLabel i))

/-- `get_parameter_names()` of an elementary model: `name + ' ' + dim_names[name_id % n_dim]` -/
def withDims (nDim : Nat) (dims raw : List String) : List String :=
  (List.range raw.length).map (fun j => raw.getD j "" ++ " " ++ dims.getD (j % nDim) "")

/-- raw names of the covariate coefficients: `names.reshape(n_pop, n_dim)[pidx, didx]`, each
    `n_cov` times -/
def covRawOf (nDim nCov : Nat) (sel : List (Nat × Nat)) (basePub : List String) : List String :=
  sel.flatMap (fun pd => List.replicate nCov (basePub.getD (pd.1 * nDim + pd.2) ""))

/-- `LinearCovariateModel.get_parameter_names()`: `name + ' ' + cov_names[name_id % n_cov]` -/
def withCovs (nCov : Nat) (covRaw : List String) : List String :=
  (List.range covRaw.length).map (fun j => covRaw.getD j "" ++ " " ++ covLabel (j % nCov))

/-- naming state of one (possibly covariate-wrapped) sub-model -/
structure St where
  /-- the number of individuals the model has been told (matters for `hetero` only) -/
  nIds : Nat
  dims : List String
  raw : List String
  covRaw : List String
  deriving Repr, DecidableEq

def St.basePub (s : SubModel) (st : St) : List String := withDims s.nDim st.dims st.raw
/-- `get_parameter_names()` of the sub-model -/
def St.pub (s : SubModel) (st : St) : List String := st.basePub s ++ withCovs s.nCov st.covRaw
/-- the covariate wrapper re-derives the coefficient names from the published names of the wrapped
    model (for `nCov = 0` the stored selection is empty and nothing is derived) -/
def St.refreshCov (s : SubModel) (st : St) : St :=
  { st with covRaw := covRawOf s.nDim s.nCov s.sel (st.basePub s) }

/-- a freshly constructed sub-model sized for `nIds0` individuals -/
def St.init (s : SubModel) (nIds0 : Nat) : St :=
  St.refreshCov s ⟨nIds0, defaultDims s.nDim, defaultRaw s.kind s.nDim nIds0, []⟩

/-- `set_parameter_names(None)` -/
def St.reset (s : SubModel) (st : St) : St :=
  St.refreshCov s { st with raw := defaultRaw s.kind s.nDim st.nIds }

/-- `set_parameter_names(names)` with a list of the right length (population names first, then the
    covariate coefficients). A list of another length raises (`step` answers `valueError`); what a
    covariate wrapper has already handed to the wrapped model at that point is not modelled. -/
def St.rename (st : St) (names : List String) : St :=
  { st with raw := names.take st.raw.length, covRaw := names.drop st.raw.length }

/-- `set_dim_names(names)` -/
def St.setDims (s : SubModel) (st : St) (dims : List String) : St :=
  St.refreshCov s { st with dims := dims }

/-- `set_n_ids(n)`: only a heterogeneous model that is told a DIFFERENT number rebuilds its names -/
def St.setNIds (s : SubModel) (st : St) (n : Nat) : St :=
  if s.kind = .hetero ∧ n ≠ st.nIds then
    St.refreshCov s { st with nIds := n, raw := defaultRaw s.kind s.nDim n }
  else st

/-! ## the composite -/

def pubAll : List SubModel → List St → List String
  | s :: ss, st :: sts => st.pub s ++ pubAll ss sts
  | _, _ => []

def resetAll : List SubModel → List St → List St
  | s :: ss, st :: sts => st.reset s :: resetAll ss sts
  | _, _ => []

def setNIdsAll (n : Nat) : List SubModel → List St → List St
  | s :: ss, st :: sts => st.setNIds s n :: setNIdsAll n ss sts
  | _, _ => []

/-- slices of `dims` by `n_dim()` of the sub-models -/
def setDimsAll : List SubModel → List St → List String → List St
  | s :: ss, st :: sts, dims => st.setDims s (dims.take s.nDim) :: setDimsAll ss sts (dims.drop s.nDim)
  | _, _, _ => []

/-- slices of `names` by `n_parameters()` of the sub-models -/
def renameAll : List St → List String → List St
  | st :: sts, names =>
    let n := st.raw.length + st.covRaw.length
    st.rename (names.take n) :: renameAll sts (names.drop n)
  | [], _ => []

def nParams (sts : List St) : Nat := (sts.map (fun st => st.raw.length + st.covRaw.length)).sum

/-- `get_population_models()[k].set_parameter_names(None)` -/
def resetSub : Nat → List SubModel → List St → List St
  | 0, s :: _, st :: sts => st.reset s :: sts
  | k + 1, _ :: ss, st :: sts => st :: resetSub k ss sts
  | _, _, sts => sts

/-- construction: the sub-models sized for `nIds0[k]` individuals; a `ComposedPopulationModel`
    enumerates the dimensions when the names are not unique -/
def initAll (composed : Bool) (subs : List SubModel) (nIds0 : List Nat) : List St :=
  let sts := List.zipWith St.init subs nIds0
  let names := pubAll subs sts
  if composed ∧ names.eraseDups.length ≠ names.length then
    setDimsAll subs sts (defaultDims (totDim subs))
  else sts

/-! ## `ReducedPopulationModel`: the free names, and renaming through the mask (`true` = fixed) -/

def freeOf : List Bool → List String → List String
  | true :: ms, _ :: ns => freeOf ms ns
  | false :: ms, n :: ns => n :: freeOf ms ns
  | _, _ => []

/-- `names = inner.get_parameter_names(); names[~mask] = new` -/
def mergeFree : List Bool → List String → List String → List String
  | true :: ms, p :: ps, new => p :: mergeFree ms ps new
  | false :: ms, _ :: ps, n :: new => n :: mergeFree ms ps new
  | _, _, _ => []

def renameFree (subs : List SubModel) (sts : List St) (mask : List Bool) (new : List String) : List St :=
  renameAll sts (mergeFree mask (pubAll subs sts) new)

/-! ## call histories -/

inductive Op
  | reset
  | rename (names : List String)
  | setDims (dims : List String)
  | setNIds (n : Nat)
  | resetSub (k : Nat)
  | renameFree (mask : List Bool) (names : List String)
  deriving Repr

inductive NErr | valueError
  deriving Repr, DecidableEq

def step (subs : List SubModel) (sts : List St) : Op → Except NErr (List St)
  | .reset => .ok (resetAll subs sts)
  | .rename names => if names.length ≠ nParams sts then .error .valueError else .ok (renameAll sts names)
  | .setDims dims => if dims.length ≠ totDim subs then .error .valueError else .ok (setDimsAll subs sts dims)
  | .setNIds n => .ok (setNIdsAll n subs sts)
  | .resetSub k => .ok (resetSub k subs sts)
  | .renameFree mask names =>
    if mask.length ≠ nParams sts ∨ names.length ≠ (mask.filter (!·)).length then .error .valueError
    else .ok (renameFree subs sts mask names)

def run (subs : List SubModel) : List St → List Op → Except NErr (List St)
  | sts, [] => .ok sts
  | sts, op :: ops => match step subs sts op with
    | .error e => .error e
    | .ok sts' => run subs sts' ops

end TopNames
end ChiModel
