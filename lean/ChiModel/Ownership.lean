import ChiModel.Purity
/-!
# Objects and the objects they were built from (C19, C08): a store of hidden states, handles,
# deep copies versus shared cells.  No Mathlib.
-/
namespace ChiModel.Ownership
open ChiModel.Reduced ChiModel.Purity
variable {α β : Type}

/-- every stateful ingredient (a reduced wrapper's mask + buffer) lives in a cell of a store -/
abbrev Store (α : Type) := Nat → St α

/-- what callers do to objects: `fix_parameters` on the object in cell `a`, or an evaluation of it -/
inductive Act (α : Type) where
  | fix (a : Nat) (d : Req α)
  | eval (a : Nat) (free : List α)

def Act.cell : Act α → Nat
  | .fix a _ => a
  | .eval a _ => a

def setCell (σ : Store α) (a : Nat) (s : St α) : Store α := fun b => if b = a then s else σ b

/-- one action on the store (evaluations overwrite the free cells of the buffer; results are dropped) -/
def act (names : List String) (garbage : α) (σ : Store α) : Act α → Store α
  | .fix a d => setCell σ a (fixStep names garbage (σ a) d)
  | .eval a free => setCell σ a (evalStep (σ a) (fun x => x) free).1

def acts (names : List String) (garbage : α) (σ : Store α) (l : List (Act α)) : Store α :=
  l.foldl (act names garbage) σ

/-- `copy.deepcopy`: the derived object lives in a fresh cell holding a copy of the state -/
def deepCopy (σ : Store α) (src fresh : Nat) : Store α := setCell σ fresh (σ src)

end ChiModel.Ownership

/-! ## objects built from a population filter (C19): `PopulationFilterLogPosterior.__init__` takes a deep copy
of the caller's filter and orders the measurement columns OF THE COPY in time
(`self._filter = copy.deepcopy(population_filter); self._filter.sort_times(np.argsort(times))`).
A filter's hidden state is the list of its measurement columns (`_observations[..., j]`). -/
namespace ChiModel.Ownership
variable {β : Type}

/-- `observations[..., order]` -/
def takeCols (cols : List β) (order : List Nat) : List β := order.filterMap (fun i => cols[i]?)

/-- the measurement columns held by the filter object in every cell -/
abbrev FStore (β : Type) := Nat → List β

def fset (σ : FStore β) (a : Nat) (c : List β) : FStore β := fun b => if b = a then c else σ b

/-- the constructor as it is: copy the caller's filter (cell `src`) into the new object's cell, order the copy -/
def construct (order : List Nat) (σ : FStore β) (src dst : Nat) : FStore β :=
  fset σ dst (takeCols (σ src) order)

/-- the seeded variant (C19-13): order the caller's filter, then copy it -/
def constructInPlace (order : List Nat) (σ : FStore β) (src dst : Nat) : FStore β :=
  let σ' := fset σ src (takeCols (σ src) order)
  fset σ' dst (σ' src)

/-- what callers do: build a posterior from the filter in `src` (the new object lives in `dst`), or call
    `sort_times(order)` on a filter of their own -/
inductive FAct where
  | build (src dst : Nat)
  | sort (a : Nat) (order : List Nat)

/-- the cell an action writes -/
def FAct.target : FAct → Nat
  | .build _ dst => dst
  | .sort a _ => a

def fact (order : List Nat) (σ : FStore β) : FAct → FStore β
  | .build src dst => construct order σ src dst
  | .sort a o => fset σ a (takeCols (σ a) o)

def facts (order : List Nat) (σ : FStore β) (l : List FAct) : FStore β := l.foldl (fact order) σ

/-- the same program with the seeded constructor -/
def factInPlace (order : List Nat) (σ : FStore β) : FAct → FStore β
  | .build src dst => constructInPlace order σ src dst
  | .sort a o => fset σ a (takeCols (σ a) o)

def factsInPlace (order : List Nat) (σ : FStore β) (l : List FAct) : FStore β := l.foldl (factInPlace order) σ

end ChiModel.Ownership

/-! ## an intermediate result remembered between evaluations, keyed by its inputs (C19)

The unchanged code recomputes the covariate-transformed population parameters `T p` in every evaluation.
A cache of the last result is pure exactly when the remembered inputs are a COPY: under a `Reduced*` wrapper
the array that arrives is the wrapper's value buffer, which the next call rewrites in place before anything
is compared (seeded variant C19-14); the same holds for a caller who updates his own array in place. -/
namespace ChiModel.Ownership
variable {α β : Type}

/-- what is remembered as "the inputs of the last evaluation": their values, or the array object itself -/
inductive Key (α : Type) where
  | val (l : List α)
  | buffer

/-- reading the remembered inputs NOW, when the buffer holds `buf` -/
def Key.read (buf : List α) : Key α → List α
  | .val l => l
  | .buffer => buf

/-- one evaluation at the parameters `p` (they have just been written into the buffer): the remembered
    value is reused when the remembered inputs compare equal to `p` -/
def memoStep [DecidableEq α] (byRef : Bool) (T : List α → β) (m : Option (Key α × β)) (p : List α) :
    Option (Key α × β) × β :=
  match m with
  | some (k, v) =>
    if k.read p = p then (some (k, v), v) else (some (if byRef then Key.buffer else Key.val p, T p), T p)
  | none => (some (if byRef then Key.buffer else Key.val p, T p), T p)

/-- results of a sequence of evaluations -/
def memoSeq [DecidableEq α] (byRef : Bool) (T : List α → β) : Option (Key α × β) → List (List α) → List β
  | _, [] => []
  | m, p :: ps => (memoStep byRef T m p).2 :: memoSeq byRef T (memoStep byRef T m p).1 ps

end ChiModel.Ownership

/-! ## a result container allocated without contents (C19): `dlogp_dpsi = np.empty((n_ids, n_dim))` in
`HierarchicalLogLikelihood.evaluateS1`, filled row by row in the loop over the individual log-likelihoods.
What the block held before (`junk`: whatever the process computed and freed earlier) is part of the call history.
The unchanged loop writes EVERY row (an individual without measurements contributes a row of zeros); a loop that
skips individuals (seeded variant C19-15) hands the junk of their rows on to the population model. -/
namespace ChiModel.Ownership
variable {β : Type}

/-- rows `i, i+1, …` of the container after the loop: `rows i` where the loop writes, the old contents where it skips -/
def fillRowsFrom (rows : Nat → β) (skip : Nat → Bool) : Nat → List β → List β
  | _, [] => []
  | i, j :: js => (if skip i then j else rows i) :: fillRowsFrom rows skip (i + 1) js

/-- the container handed on, allocated over a block that held `junk` -/
def fillRows (rows : Nat → β) (skip : Nat → Bool) (junk : List β) : List β := fillRowsFrom rows skip 0 junk

end ChiModel.Ownership
