import ChiModel.Purity
/-!
# Objects and the objects they were built from (C19, C08): a store of hidden states, handles,
# deep copies versus shared cells.  No Mathlib.
-/
namespace ChiModel.Ownership
open ChiModel.Reduced ChiModel.Purity
variable {α β : Type}

/-- every stateful ingredient (a reduced wrapper's mask + buffer) lives in a cell of a store -/
abbrev Store (α : Type) := Nat → St α

/-- what callers do to objects: `fix_parameters` on the object in cell `a`, or an evaluation of it -/
inductive Act (α : Type) where
  | fix (a : Nat) (d : Req α)
  | eval (a : Nat) (free : List α)

def Act.cell : Act α → Nat
  | .fix a _ => a
  | .eval a _ => a

def setCell (σ : Store α) (a : Nat) (s : St α) : Store α := fun b => if b = a then s else σ b

/-- one action on the store (evaluations overwrite the free cells of the buffer; results are dropped) -/
def act (names : List String) (garbage : α) (σ : Store α) : Act α → Store α
  | .fix a d => setCell σ a (fixStep names garbage (σ a) d)
  | .eval a free => setCell σ a (evalStep (σ a) (fun x => x) free).1

def acts (names : List String) (garbage : α) (σ : Store α) (l : List (Act α)) : Store α :=
  l.foldl (act names garbage) σ

/-- `copy.deepcopy`: the derived object lives in a fresh cell holding a copy of the state -/
def deepCopy (σ : Store α) (src fresh : Nat) : Store α := setCell σ fresh (σ src)

end ChiModel.Ownership
