import ChiModel.Reduced
/-!
# `ReducedPopulationModel.set_n_ids`: the wrapped model's parameter list changes with the number of
# individuals (a heterogeneous sub-model has one parameter per individual and dimension); the fixed parameters
# are remembered BY NAME and fixed again as far as they still exist.  No Mathlib.
-/
namespace ChiModel.Reduced
variable {α : Type}

/-- `fixed[name] = value` for every fixed position of the old parameter list -/
def fixedPairs : List String → List (Bool × α) → Req α
  | n :: ns, (true, v) :: cs => (n, some v) :: fixedPairs ns cs
  | _ :: ns, (false, _) :: cs => fixedPairs ns cs
  | _, _ => []

/-- `set_n_ids`: `total` is the cached `_n_parameters`; the mask is rebuilt exactly when the number of
    parameters of the wrapped model changed -/
def resize (garbage : α) (namesOld namesNew : List String) (st : St α) : St α :=
  if namesNew.length = namesOld.length then st
  else match st with
    | none => none
    | some c => fixStep namesNew garbage none (fixedPairs namesOld c)

/-- the seeded slip: the new total is compared with the number of FREE parameters -/
def resizeFreeCount (garbage : α) (namesOld namesNew : List String) (st : St α) : St α :=
  if namesNew.length = nFree (view namesOld garbage st) then st
  else match st with
    | none => none
    | some c => fixStep namesNew garbage none (fixedPairs namesOld c)

end ChiModel.Reduced
