/-!
# Scalars shared by the executable (`Float`) and the proof (`ℝ`) instance

Arithmetic comes from the ordinary notation classes, so that `ℝ` keeps Mathlib's instances.
Only the non-arithmetic operations live in `ScalarFns`.
-/

class ScalarFns (α : Type) where
  ofNat : Nat → α
  log : α → α
  exp : α → α
  sqrt : α → α
  pi : α
  /-- `a ≤ b` as numpy would decide it -/
  le : α → α → Bool
  /-- `a < b` -/
  lt : α → α → Bool

instance : ScalarFns Float where
  ofNat := Float.ofNat
  log := Float.log
  exp := Float.exp
  sqrt := Float.sqrt
  pi := 3.141592653589793
  le a b := a ≤ b
  lt a b := a < b

/-- A log-density as chi reports it: `-inf` from a support guard, a finite value, or
    `undefined` where numpy would produce `nan`. -/
inductive Score (α : Type) where
  | negInf : Score α
  | val : α → Score α
  | undefined : Score α
  deriving Repr

namespace ChiModel
variable {α : Type} [Add α] [Sub α] [Mul α] [Div α] [Neg α] [ScalarFns α]
open ScalarFns

def lsum : List α → α
  | [] => ofNat 0
  | x :: xs => x + lsum xs

/-- index-based sum `Σ_{j<n} g j` -/
def isum (n : Nat) (g : Nat → α) : α := lsum ((List.range n).map g)

/-- `∀ j < n, p j` as a Bool -/
def iall (n : Nat) (p : Nat → Bool) : Bool := (List.range n).all p

/-- `∃ j < n, p j` as a Bool -/
def iany (n : Nat) (p : Nat → Bool) : Bool := (List.range n).any p

end ChiModel
