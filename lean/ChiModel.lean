import ChiModel.Wire
import ChiModel.Scalar
import ChiModel.ErrorModels
import ChiModel.LogLik
import ChiModel.PopModels
import ChiModel.Hier
import ChiModel.Reduced
import ChiModel.ShapeEta
