import ChiDriver.All
open Wire

/-- `<id> <opcode> <value>*` ↦ `<id> <value>*` | `<id> bad-op` -/
def step (line : String) : String :=
  let toks := (line.trimAscii.toString.splitOn " ").filter (· ≠ "")
  match toks with
  | cid :: op :: rest =>
    match ChiDriver.allOps.lookup op, parseAll rest with
    | some f, some args =>
      match f args with
      | some out => cid ++ " " ++ " ".intercalate (out.map Val.render)
      | none => cid ++ " bad-op"
    | _, _ => cid ++ " bad-op"
  | _ => "? bad-op"

partial def loop (h : IO.FS.Stream) (out : IO.FS.Stream) : IO Unit := do
  let line ← h.getLine
  if line.isEmpty then return ()
  out.putStrLn (step line)
  out.flush
  loop h out

def main : IO Unit := do loop (← IO.getStdin) (← IO.getStdout)
