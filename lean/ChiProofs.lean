import ChiProofs.RealInst
import ChiProofs.Props.C04
import ChiProofs.Props.C01
