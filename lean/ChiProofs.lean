import ChiProofs.RealInst
import ChiProofs.Props.C04
import ChiProofs.Props.C01
import ChiProofs.Props.C08
import ChiProofs.Props.C02
import ChiProofs.Props.C03
import ChiProofs.Props.C17
import ChiProofs.Props.C19
